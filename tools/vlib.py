"""Shared machinery for /verif checks: TLC driver, evidence writer, known findings, verdict protocol."""
import json, os, re, shutil, subprocess, sys, time, hashlib

VERIF = os.path.dirname(os.path.dirname(os.path.abspath(__file__)))
sys.path.insert(0, os.path.join(VERIF, "tools"))
import build as _build  # noqa: E402

TLA_JAR = "/opt/veriftools/tla/tla2tools.jar:/opt/veriftools/tla/CommunityModules-deps.jar"


class Broken(Exception):
    """The check itself is broken (TLC parse error, harness crash outside the property, timeout) -> exit 2."""


class Ctx:
    def __init__(self, pid, tier, seed, replay=False):
        self.pid, self.tier, self.seed = pid, tier, seed
        self.t0 = time.time()
        self.alt_repo = os.environ.get("VERIF_REPO", "/repo") != "/repo"
        suffix = ("_" + os.environ["VERIF_REPO"].strip("/").replace("/", "_")) if self.alt_repo else ""
        # a replay run works in its own scratch directory: the replay file usually lives in out/<pid>/
        self.out = os.path.join(VERIF, "out", pid + suffix + ("_replay" if replay else ""))
        shutil.rmtree(self.out, ignore_errors=True)
        os.makedirs(self.out, exist_ok=True)
        self.states = 0
        self.transitions = 0
        self.traces = 0
        self.evaluations = 0
        self.samples = []
        self.violations = []     # list of (message, replay path)
        self.known_hits = []     # list of finding lines that fired
        self.assumptions = []
        self.extra = {}
        self.distinct = set()
        self.tlc_cmds = []
        self.known = load_known(pid)

    @property
    def quick(self):
        return self.tier == "quick"

    def log(self, *a):
        print(f"[{self.pid} {time.time()-self.t0:6.1f}s]", *a, flush=True)

    def path(self, name):
        return os.path.join(self.out, name)

    def build(self, flavour, *targets):
        bdir = _build.build(flavour, list(targets) or None)
        return bdir

    def add_sample(self, s, limit=6):
        if len(self.samples) < limit:
            self.samples.append(s)

    def violation(self, msg, replay):
        self.violations.append((msg, replay))
        print(f"VIOLATION property={self.pid} replay={replay}", flush=True)
        print(f"  detail: {msg}", flush=True)

    def known_finding(self, key, what):
        line = f"KNOWN-FINDING: property={self.pid} key={key} {what}"
        if line not in self.known_hits:
            self.known_hits.append(line)
            print(line, flush=True)


# ----------------------------------------------------------------------------------------------------------
# Known findings:  /verif/KNOWN_FINDINGS.txt
#   finding: property=<id> key=<stable-signature> <what fails>
#   fixed:   property=<id> <commit> <what failed>
# Only `finding:` lines suppress anything, and only for the exact key.
# ----------------------------------------------------------------------------------------------------------
def load_known(pid):
    res = {}
    paths = [os.path.join(VERIF, "KNOWN_FINDINGS.txt")]
    # builders testing the known-findings mechanism use a private extra file instead of editing the shared one
    if os.environ.get("VERIF_KNOWN_EXTRA"):
        paths.append(os.environ["VERIF_KNOWN_EXTRA"])
    lines = []
    for p in paths:
        if os.path.exists(p):
            lines += open(p).read().splitlines()
    for ln in lines:
        ln = ln.strip()
        m = re.match(r"finding:\s+property=(\S+)\s+key=(\S+)\s*(.*)", ln)
        if m and m.group(1) == pid:
            res[m.group(2)] = m.group(3)
    return res


# ----------------------------------------------------------------------------------------------------------
# TLC
# ----------------------------------------------------------------------------------------------------------
class TlcResult:
    def __init__(self):
        self.rc = None
        self.out = ""
        self.generated = 0
        self.distinct = 0
        self.depth = 0
        self.violated = None      # name of violated invariant/property
        self.kind = "ok"          # ok | violation | error | timeout
        self.prints = []          # PrintT output lines (raw)
        self.coverage = {}
        self.wall = 0.0


def run_tlc(ctx, module_path, cfg_path, workers=8, timeout=600, env=None, simulate=None, depth=None,
            extra=None, heap="4g", deadlock=False, tag=None, coverage=False, dfs_queue=False, seed=None):
    """Run TLC.  module_path: absolute path to .tla (cwd = its directory so EXTENDS of siblings works;
    spec/lib is added to the TLA-Library path)."""
    mdir = os.path.dirname(module_path)
    tag = tag or os.path.splitext(os.path.basename(cfg_path))[0]
    meta = ctx.path(f"tlc_{tag}_{len(ctx.tlc_cmds)}")
    shutil.rmtree(meta, ignore_errors=True)
    libs = os.pathsep.join([os.path.join(VERIF, "spec", "lib")] + [d for d in glob_spec_dirs() if d != mdir])
    jopts = [f"-Xmx{heap}", "-Xss64m", "-XX:+UseParallelGC", f"-DTLA-Library={libs}"]
    if dfs_queue:
        jopts.append("-Dtlc2.tool.queue.IStateQueue=StateDeque")
    cmd = ["java"] + jopts + ["-cp", TLA_JAR, "tlc2.TLC", "-workers", str(workers), "-metadir", meta,
                               "-config", cfg_path, "-noGenerateSpecTE"]
    if not deadlock:
        cmd.append("-deadlock")   # -deadlock DISABLES deadlock checking
    if simulate:
        cmd += ["-simulate", f"num={simulate}"]
        if seed is not None:
            cmd += ["-seed", str(seed)]
    if depth:
        cmd += ["-depth", str(depth)]
    if coverage:
        cmd += ["-coverage", "1"]
    if extra:
        cmd += extra
    cmd.append(os.path.basename(module_path))
    e = dict(os.environ)
    if env:
        e.update({k: str(v) for k, v in env.items()})
    r = TlcResult()
    t0 = time.time()
    ctx.tlc_cmds.append(" ".join(cmd[cmd.index("tlc2.TLC"):]))
    slot = _acquire_tlc_slot()
    try:
        for attempt in range(3):
            p = subprocess.run(cmd, cwd=mdir, env=e, stdout=subprocess.PIPE, stderr=subprocess.STDOUT, text=True, timeout=timeout)
            r.rc, r.out = p.returncode, p.stdout
            if r.rc not in (143, 137, -15, -9):      # the JVM was killed from outside (not by TLC): run again
                break
            shutil.rmtree(meta, ignore_errors=True)
            time.sleep(2 + 3 * attempt)
    except subprocess.TimeoutExpired as ex:
        r.kind = "timeout"
        r.out = (ex.stdout.decode() if isinstance(ex.stdout, bytes) else (ex.stdout or ""))
        r.rc = -1
    finally:
        _release_tlc_slot(slot)
    r.wall = time.time() - t0
    open(ctx.path(f"tlc_{tag}_{len(ctx.tlc_cmds)}.log"), "w").write(r.out)
    shutil.rmtree(meta, ignore_errors=True)
    m = None
    for m in re.finditer(r"(\d+) states generated, (\d+) distinct states found", r.out):
        pass
    if m:
        r.generated, r.distinct = int(m.group(1)), int(m.group(2))
    m = re.search(r"The depth of the complete state graph search is (\d+)", r.out)
    if m:
        r.depth = int(m.group(1))
    r.prints = [ln for ln in r.out.splitlines() if ln.startswith("<<") or ln.startswith('"')]
    if r.kind == "timeout":
        return r
    if r.rc == 0:
        r.kind = "ok"
    elif r.rc in (12, 13):
        r.kind = "violation"
        m = re.search(r"Invariant (\S+) is violated", r.out) or re.search(r"property (\S+) (?:is|was) violated", r.out)
        r.violated = m.group(1) if m else "?"
    elif r.rc == 11:
        r.kind = "violation"; r.violated = "Deadlock"
    else:
        # rc 10 = assumption, 75.. = errors; evaluation errors inside an invariant come as 75/255 -> broken
        r.kind = "error"
    return r


# ----------------------------------------------------------------------------------------------------------
# Machine-wide throttle: at most TLC_SLOTS TLC JVMs run at the same time (across all checks / workers sharing the
# sandbox), otherwise a dozen 16-worker JVMs exhaust the 62 GB and the kernel kills them.
# ----------------------------------------------------------------------------------------------------------
TLC_SLOTS = int(os.environ.get("VERIF_TLC_SLOTS", "7"))
_SLOT_DIR = "/verif/out/.tlcslots"


def _acquire_tlc_slot():
    import fcntl
    os.makedirs(_SLOT_DIR, exist_ok=True)
    while True:
        for i in range(TLC_SLOTS):
            f = open(os.path.join(_SLOT_DIR, f"slot{i}.lock"), "w")
            try:
                fcntl.flock(f, fcntl.LOCK_EX | fcntl.LOCK_NB)
                return f
            except OSError:
                f.close()
        time.sleep(0.5)


def _release_tlc_slot(f):
    import fcntl
    try:
        fcntl.flock(f, fcntl.LOCK_UN)
        f.close()
    except Exception:
        pass


_spec_dirs = None


def glob_spec_dirs():
    global _spec_dirs
    if _spec_dirs is None:
        root = os.path.join(VERIF, "spec")
        _spec_dirs = [os.path.join(root, d) for d in sorted(os.listdir(root)) if os.path.isdir(os.path.join(root, d))]
    return _spec_dirs


def tlc_must_ok(ctx, r, what):
    """Design-level TLC run: ok or Broken (a design run is not a statement about the code)."""
    if r.kind != "ok":
        tail = "\n".join(r.out.splitlines()[-40:])
        raise Broken(f"TLC {what}: kind={r.kind} rc={r.rc} violated={r.violated}\n{tail}")
    ctx.states += r.distinct
    ctx.transitions += r.generated


def parse_state_dump(out):
    """Parse the last printed TLC error-trace state into {var: raw text}."""
    states = re.split(r"\nState \d+: ", out)
    if len(states) < 2:
        return {}
    last = states[-1]
    res = {}
    for m in re.finditer(r"/\\ (\w+) = (.*?)(?=\n/\\ |\n\n|\Z)", last, re.S):
        res[m.group(1)] = m.group(2).strip()
    return res


# ----------------------------------------------------------------------------------------------------------
# harness helpers
# ----------------------------------------------------------------------------------------------------------
def run_harness(ctx, bdir, name, args, timeout=600, env=None, stdout_path=None, ok_codes=(0,)):
    exe = os.path.join(bdir, name)
    e = dict(os.environ)
    e.setdefault("ASAN_OPTIONS", "detect_leaks=1:abort_on_error=0:exitcode=66")
    e.setdefault("UBSAN_OPTIONS", "print_stacktrace=1:halt_on_error=1:exitcode=66")
    if env:
        e.update({k: str(v) for k, v in env.items()})
    t0 = time.time()
    so = open(stdout_path, "w") if stdout_path else subprocess.PIPE
    try:
        p = subprocess.run([exe] + [str(a) for a in args], stdout=so, stderr=subprocess.PIPE, text=True, timeout=timeout, env=e)
    except subprocess.TimeoutExpired:
        if stdout_path:
            so.close()
        return -999, "", "TIMEOUT"
    if stdout_path:
        so.close()
    return p.returncode, (p.stdout if not stdout_path else ""), p.stderr


def write_evidence(ctx, level, rule, explanation=None, trusted_base=None, exhaustive=None, extra=None):
    cov = {
        "evaluations": int(ctx.evaluations),
        "distinct_nontrivial": int(len(ctx.distinct)) if ctx.distinct else int(ctx.extra.get("distinct_nontrivial", 0)),
        "rule": rule,
        "samples": ctx.samples[:8] if ctx.samples else ["(none)"],
        "states": int(ctx.states),
        "transitions": int(ctx.transitions),
        "traces_validated_against_impl": int(ctx.traces),
        "checker_cmd": "; ".join(ctx.tlc_cmds[:4]),
    }
    if explanation:
        cov["explanation"] = explanation
    if trusted_base:
        cov["trusted_base"] = trusted_base
    if exhaustive is not None:
        cov["exhaustive"] = bool(exhaustive)
    for k, v in ctx.extra.items():
        if k != "distinct_nontrivial":
            cov[k] = v
    if extra:
        cov.update(extra)
    ev = {
        "property_id": ctx.pid, "tier": ctx.tier, "seed": int(ctx.seed), "level": level, "coverage": cov,
        "assumptions": ctx.assumptions, "wall_s": round(time.time() - ctx.t0, 2),
        "violations": len(ctx.violations),
        "known_findings_reported": ctx.known_hits,
    }
    os.makedirs(os.path.join(VERIF, "evidence"), exist_ok=True)
    p = os.path.join(VERIF, "evidence", f"{ctx.pid}.json")
    if ctx.alt_repo:      # a run against a scratch tree (mutant testing) never overwrites the real evidence
        p = ctx.path("evidence.json")
    with open(p + ".tmp", "w") as f:
        json.dump(ev, f, indent=1, default=str)
    os.replace(p + ".tmp", p)


def digest(obj):
    return hashlib.sha1(json.dumps(obj, sort_keys=True).encode()).hexdigest()[:12]


def read_ndjson(path):
    """Tolerant reader: a malformed (truncated) line becomes an ABORT event, which no trace spec consumes."""
    res = []
    if not os.path.exists(path):
        return [{"e": "ABORT", "why": "no trace file"}]
    with open(path, errors="replace") as f:
        for ln in f:
            ln = ln.strip()
            if ln:
                try:
                    res.append(json.loads(ln))
                except Exception:
                    res.append({"e": "ABORT", "why": "malformed line"})
    return res


def record_trace(ctx, bdir, name, args, trace_path, timeout=900, env=None):
    """Run a recording harness.  A crash / sanitizer abort / timeout of the traced binary must not go unnoticed:
    an ABORT event is appended, so the trace is rejected at that point (the verdict stays TLC's)."""
    rc, _, err = run_harness(ctx, bdir, name, args, timeout=timeout, env=env)
    if rc != 0:
        ep = trace_path + ".stderr"
        open(ep, "w").write(err or "")
        ctx.log(f"harness {name} {args[0]} exited rc={rc}; ABORT event appended (stderr: {ep})")
        with open(trace_path, "a") as f:
            lines = (err or "").strip().splitlines()
            why = next((x.strip() for x in lines if "Sanitizer" in x or "runtime error" in x or "TIMEOUT" in x), lines[-1] if lines else "")
            f.write("\n" + json.dumps({"e": "ABORT", "rc": rc, "why": why[:240]}) + "\n")
    return rc


def write_ndjson(path, recs):
    with open(path, "w") as f:
        for r in recs:
            f.write(json.dumps(r, separators=(",", ":")) + "\n")


# ----------------------------------------------------------------------------------------------------------
# Trace validation driver
# ----------------------------------------------------------------------------------------------------------
def validate_trace_file(ctx, module, cfg, trace_path, timeout=900, heap="4g", tag=None, dfs=False, extra_env=None):
    """Returns (accepted, maxl, tlc_result).  maxl = 1-based index of the first line that could not be consumed
    (len+1 when accepted).  An invariant violation during validation is a rejection at the state it names."""
    env = {"TRACE": os.path.abspath(trace_path)}
    if extra_env:
        env.update(extra_env)
    r = run_tlc(ctx, module, cfg, workers=1, timeout=timeout, env=env, heap=heap, tag=tag, dfs_queue=dfs)
    ctx.states += r.distinct
    ctx.transitions += r.generated
    m = re.search(r'<<"MAXL", (\d+), (\d+)>>', r.out)
    if r.kind == "ok":
        if not m:
            raise Broken("trace validation: no MAXL line\n" + r.out[-1500:])
        return True, int(m.group(1)), r
    if r.kind == "violation":           # an invariant failed on the state reached by consuming some line
        st = parse_state_dump(r.out)
        l = int(st.get("l", "0") or 0)
        return False, max(l - 1, 1), r
    if r.kind == "error" and "Postcondition" in r.out and "is false" in r.out and m:
        return False, int(m.group(1)), r
    raise Broken(f"trace validation failed to run: kind={r.kind} rc={r.rc}\n" + "\n".join(r.out.splitlines()[-30:]))


def split_executions(recs, reset_name="Reset"):
    ex, cur = [], None
    for r in recs:
        if r.get("e") == reset_name:
            cur = [r]
            ex.append(cur)
        else:
            if cur is None:
                cur = []
                ex.append(cur)
            cur.append(r)
    return ex


def validate_executions(ctx, module, cfg, trace_path, max_rejects=8, timeout=900, heap="4g", tag="trace",
                        reset_name="Reset", confirm=True):
    """Validate a concatenation of executions.  Each rejected execution is cut out (and re-validated alone to
    confirm the rejection repeats) and the rest is validated again, so one rejection does not hide the others.
    Returns list of dicts {records, index (0-based, within the execution, of the rejected line), tlc}."""
    recs = read_ndjson(trace_path)
    execs = split_executions(recs, reset_name)
    for e in execs:
        if any(r.get("e") == "ABORT" for r in e):
            pass  # ABORT lines are simply not consumable -> rejection at that line
    rejected = []
    work = execs
    rnd = 0
    total_ok = 0
    while work:
        p = ctx.path(f"{tag}_round{rnd}.ndjson")
        write_ndjson(p, [r for e in work for r in e])
        ok, maxl, r = validate_trace_file(ctx, module, cfg, p, timeout=timeout, heap=heap, tag=f"{tag}{rnd}")
        if ok:
            total_ok += len(work)
            break
        # find execution containing line maxl
        n = 0
        bad = None
        for i, e in enumerate(work):
            if maxl <= n + len(e):
                bad = i
                break
            n += len(e)
        if bad is None:
            raise Broken(f"cannot locate rejected line {maxl}")
        e = work[bad]
        idx = maxl - n - 1
        rp = ctx.path(f"{tag}_rejected_{len(rejected)}.ndjson")
        write_ndjson(rp, e)
        if confirm:
            ok2, maxl2, r2 = validate_trace_file(ctx, module, cfg, rp, timeout=timeout, heap=heap, tag=f"{tag}c{rnd}")
            if ok2:
                raise Broken(f"rejection of execution not repeatable in isolation (line {maxl})")
            idx = maxl2 - 1
        rejected.append({"records": e, "index": idx, "path": rp, "tlc": r, "inv": r.violated})
        total_ok += bad
        work = work[bad + 1:]
        rnd += 1
        if len(rejected) >= max_rejects:
            break
    ctx.traces += total_ok
    return rejected


def parse_beh(out, tag="BEH"):
    """Extract PrintT(<<"BEH", value>>) outputs (TLC pretty-prints long values over several lines).
    Returns python lists (TLA+ tuples -> lists, strings -> str, ints -> int, TRUE/FALSE -> bool)."""
    res = []
    buf = None
    depth = 0
    for ln in out.splitlines():
        s = ln.strip()
        if buf is None:
            if s.startswith('<<"%s"' % tag) or s.startswith('<< "%s"' % tag):
                buf = ""
                depth = 0
            else:
                continue
        buf += s + " "
        depth += s.count("<<") - s.count(">>")
        if depth <= 0:
            txt = buf.replace("<<", "[").replace(">>", "]")
            txt = re.sub(r"\bTRUE\b", "true", txt)
            txt = re.sub(r"\bFALSE\b", "false", txt)
            try:
                v = json.loads(txt)
                res.append(v[1] if len(v) == 2 else v[1:])
            except Exception:
                pass
            buf = None
    return res
