#!/usr/bin/env python3
"""Build asmjit from /repo's *current working tree* plus the harness binaries.

A build.ninja is regenerated on every call (glob of /repo/asmjit/**/*.cpp and /verif/harness/*.cpp), so new or
deleted sources are honoured; ninja + depfiles make the rebuild incremental.  One directory per flavour under
/verif/build.  A file lock serialises concurrent checks.
"""
import fcntl, glob, os, subprocess, sys, time

VERIF = os.path.dirname(os.path.dirname(os.path.abspath(__file__)))
REPO = os.environ.get("VERIF_REPO", "/repo")

FLAVOURS = {
    # name: (compiler, cflags, ldflags)
    "plain": ("g++", "-O1 -g1 -DNDEBUG", ""),
    "asan": ("clang++-14", "-O1 -g1 -DNDEBUG -fsanitize=address,undefined -fno-sanitize=nonnull-attribute -fno-sanitize-recover=undefined -fno-omit-frame-pointer", "-fsanitize=address,undefined"),
    "tsan": ("clang++-14", "-O1 -g1 -DNDEBUG -fsanitize=thread -fno-omit-frame-pointer", "-fsanitize=thread"),
    "nohook": ("g++", "-O1 -g1 -DNDEBUG", ""),   # guard OFF (used to show hooks are inert)
}
COMMON = "-std=c++17 -fno-math-errno -fno-threadsafe-statics -DASMJIT_STATIC -I{repo} -I{verif}/harness -pthread -w"


def build(flavour="plain", targets=None, quiet=True):
    cc, cflags, ldflags = FLAVOURS[flavour]
    repo = os.environ.get("VERIF_REPO", "/repo")
    sub = flavour if repo == "/repo" else flavour + "_" + repo.strip("/").replace("/", "_")
    bdir = os.path.join(VERIF, "build", sub)
    os.makedirs(bdir, exist_ok=True)
    guard = "" if flavour == "nohook" else "-DASMJIT_VERIF"
    common = COMMON.format(repo=repo, verif=VERIF)
    REPO = repo
    srcs = sorted(glob.glob(os.path.join(REPO, "asmjit", "**", "*.cpp"), recursive=True))
    hsrcs = sorted(glob.glob(os.path.join(VERIF, "harness", "*.cpp")))
    lines = [
        "ninja_required_version = 1.3",
        f"cxx = {cc}",
        f"cflags = {common} {cflags} {guard}",
        f"ldflags = {ldflags} -pthread",
        "rule cxx\n  command = $cxx $cflags $xflags -MMD -MF $out.d -c $in -o $out\n  depfile = $out.d\n  deps = gcc\n  description = CXX $out",
        "rule ar\n  command = rm -f $out && ar crs $out $in\n  description = AR $out",
        "rule link\n  command = $cxx $in -o $out $ldflags $xld\n  description = LINK $out",
    ]
    objs = []
    for s in srcs:
        o = "lib/" + os.path.relpath(s, REPO).replace("/", "_") + ".o"
        objs.append(o)
        lines.append(f"build {o}: cxx {s}")
    lines.append("build libasmjit.a: ar " + " ".join(objs))
    bins = []
    for s in hsrcs:
        name = os.path.splitext(os.path.basename(s))[0]
        if name.startswith("lib_"):
            continue
        o = f"h/{name}.o"
        lines.append(f"build {o}: cxx {s}")
        xld = ""
        # per-harness link extras are declared in the source: // LDFLAGS: ...
        with open(s) as f:
            for ln in f:
                if ln.startswith("// LDFLAGS:"):
                    xld = ln.split(":", 1)[1].strip()
                    break
        lines.append(f"build {name}: link {o} libasmjit.a\n  xld = {xld}")
        bins.append(name)
    lines.append("default libasmjit.a")
    txt = "\n".join(lines) + "\n"
    lock = open(os.path.join(bdir, ".lock"), "w")
    fcntl.flock(lock, fcntl.LOCK_EX)
    try:
        nf = os.path.join(bdir, "build.ninja")
        old = open(nf).read() if os.path.exists(nf) else None
        if old != txt:
            open(nf, "w").write(txt)
        tg = list(targets) if targets else ["libasmjit.a"]
        t0 = time.time()
        p = subprocess.run(["ninja", "-C", bdir, "-j", "16"] + tg, stdout=subprocess.PIPE, stderr=subprocess.STDOUT, text=True)
        if p.returncode != 0:
            sys.stderr.write(p.stdout[-6000:])
            raise RuntimeError(f"build failed ({flavour}: {tg})")
        if not quiet:
            print(f"[build] {flavour} {tg} {time.time()-t0:.1f}s")
    finally:
        fcntl.flock(lock, fcntl.LOCK_UN)
        lock.close()
    return bdir


if __name__ == "__main__":
    fl = sys.argv[1] if len(sys.argv) > 1 else "plain"
    build(fl, sys.argv[2:] or None, quiet=False)
