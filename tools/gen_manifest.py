#!/usr/bin/env python3
"""Generates /verif/MANIFEST.json from the table below (single source of truth for claimed checks)."""
import json, os
VERIF = os.path.dirname(os.path.dirname(os.path.abspath(__file__)))
ALL = [f"C{i:02d}" for i in range(1, 21)]

CHECKS = {
 "C09": dict(
   category="model_checking", design_ref="DESIGN.md §4 C09, §8",
   text="TLC checks exhaustively (tiny blocks, all histories of alloc/release/shrink/reset up to depth 5 quick / 7 thorough, padding and immediate-release variants) that the transcribed pool algorithm JitAllocImpl (bit vectors, search window, largest-unused cache, empty/dirty/incremental flags, cursor, block doubling) refines the contract JitAlloc.tla and keeps its structural invariants. The real allocator is bound to the same contract by trace validation: TLC-simulated histories scaled to real block sizes and long seeded random histories over all option sets x granularities 64/128/256 x block sizes are executed (ASan/UBSan build); every recorded call must be a contract step: spans non-null, granule aligned, >= request, disjoint in rx and rw view, contents intact at every step, rw/rx aliasing, query exact, foreign pointers refused, statistics exact, fill pattern on freed memory, released memory reusable without a new block, retention policy after release-all/reset, is_initialized.",
   note="Trusted: TLC, the contract spec, harness projection (public API, mincore, byte comparisons reported as booleans, order-preserving address compression). Large pages/hardened runtime not available in the sandbox. OutOfMemory from the OS is tolerated (counted).",
   technique="TLA+ contract + refinement of impl-shaped spec (TLC) + trace validation of recorded executions"),
 "C11": dict(
   category="model_checking", design_ref="DESIGN.md §4 C11, §8",
   text="TLC explores all interleavings of the allocator's lock protocol with a non-atomic (scan/commit) critical section for 2 (quick) / 3 (thorough) threads: mutual exclusion, no overlap, exact counters, linearizable statistics, every call returns under weak fairness; the same model without the lock must violate NoOverlap (negative control). Real executions with 2/4/8/16 threads on one JitRuntime/JitAllocator are recorded with hook H3 (lock events emitted under the lock with a lock-ordered sequence number) and validated by TLC: lock protocol per thread (every successful alloc/release/shrink/query/statistics/add/release contains a critical section, only inside its own call, dense sequence numbers) and linearizability - the operations applied in lock order must be a behaviour of the sequential contract JitAlloc.tla with exactly the addresses/sizes/contents/statistics the threads observed. Independent generation: 8 threads assemble/compile x86-64/AArch64/Compiler programs concurrently; each output must equal the same program generated alone. The traced binary is also run under TSan as an environment.",
   note="Trusted: TLC, JitAlloc.tla, the harness' merge of thread-ordered and lock-ordered events, hook H3. Memory-level races outside the hooks are visible only via the TSan environment (abort => truncated trace => rejection).",
   technique="TLA+ interleaving model (TLC, safety + liveness + negative control) + trace validation of multi-threaded executions (lock-ordered linearization)"),
 "C19": dict(
   category="model_checking", design_ref="DESIGN.md §4 C19, §8",
   text="TLC proves (exhaustively, all add-histories up to depth 5/6 over a colliding alphabet) that the transcribed algorithm ConstPoolImpl refines the contract ConstPool.tla; the real ConstPool is bound to the same contract by trace validation: every model behaviour of depth 3, TLC-simulated longer behaviours and seeded random histories are executed on the real code (ASan/UBSan build) and each recorded trace must be a behaviour of the contract (aligned, stable, deduplicated offsets; image bytes exact; gaps zero; size/alignment cover everything).",
   note="Trusted: TLC, the contract spec, the 150-line harness projection (public API only). Allocation failure is excluded here (C15).",
   technique="TLA+ contract + refinement of impl-shaped spec (TLC) + trace validation of recorded executions"),
}

NOT_YET = "machinery not completed yet in this round (see DESIGN.md §7 for the build order)"

def main():
    checks = []
    for pid in ALL:
        if pid not in CHECKS:
            continue
        c = CHECKS[pid]
        checks.append({
            "property_id": pid,
            "quick_cmd": f"tools/check {pid} --tier quick",
            "thorough_cmd": f"tools/check {pid} --tier thorough",
            "evidence_file": f"/verif/evidence/{pid}.json",
            "replay_cmd_template": f"tools/check {pid} --replay {{path}}",
            "engine": "tlc",
            "level_claimed": {"category": c["category"], "text": c["text"], "design_ref": c["design_ref"]},
            "level_note": c["note"],
            "technique": c["technique"],
        })
    na_reasons = {}
    p = os.path.join(VERIF, "tools", "not_applicable.json")
    if os.path.exists(p):
        na_reasons = json.load(open(p))
    man = {
        "version": 1,
        "setup_cmd": "python3 tools/setup.py",
        "hooks": {
            "guard": "ASMJIT_VERIF",
            "enable": "tools/build.py compiles every asmjit source of /repo's working tree with -DASMJIT_VERIF (flavours plain/asan/tsan under /verif/build)",
            "baseline_off_cmd": "cmake --build /repo/_build && ctest --test-dir /repo/_build -j8 --timeout 900",
            "source_commits": json.load(open(os.path.join(VERIF, "tools", "hook_commits.json"))) if os.path.exists(os.path.join(VERIF, "tools", "hook_commits.json")) else [],
            "add_only": True,
        },
        "engines": [
            {"name": "tlc", "path": "/usr/local/bin/tlc", "serves_properties": sorted(CHECKS), "kind_free_text": "TLA+ specifications under /verif/spec checked with TLC 1.8.0; bound to the code by harness/*.cpp trace recorders/replayers driven by tools/check"},
        ],
        "checks": checks,
        "notes": "All checks: tools/check <ID> --tier quick|thorough. Known findings: /verif/KNOWN_FINDINGS.txt. Design: /verif/DESIGN.md.",
        "not_applicable": [{"property_id": pid, "reason": na_reasons.get(pid, NOT_YET)} for pid in ALL if pid not in CHECKS],
    }
    json.dump(man, open(os.path.join(VERIF, "MANIFEST.json"), "w"), indent=1)
    print("MANIFEST.json:", len(checks), "checks,", len(man["not_applicable"]), "not_applicable")

main()
