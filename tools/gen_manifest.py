#!/usr/bin/env python3
"""Generates /verif/MANIFEST.json from the table below (single source of truth for claimed checks)."""
import json, os
VERIF = os.path.dirname(os.path.dirname(os.path.abspath(__file__)))
ALL = [f"C{i:02d}" for i in range(1, 21)]

CHECKS = {
 "C02": dict(
   category="other", design_ref="DESIGN.md §4 C02, §8",
   text="Pointwise model checking: spec/isa/A64Enc.tla states, per database row (bit template exported by tools/db_export_a64.js), Matches (literal bits equal, every field equal to what its field rule - 45 rules written from the Arm ARM: registers incl. SP/ZR legality, sf/size/Q from width or arrangement, shifts/extends, condition codes, imm12+lsl, logical immediates via DecodeBitMasks, move-wide incl. multi-word mov via MovEval, scaled/unscaled/pair/pre/post/register-index offsets, element indices H:L:M, SIMD shift immediates, system registers, fp8) and Refused (some operand has no field value). harness/a64sweep.cpp sweeps the real a64::Assembler over 2276 rows x register ids {0,1,15,16,29,30,sp,zr,33} (all ids in thorough) x SP/ZR where allowed and where not x arrangements/lanes x shift/extend kinds x amounts at both limits and one beyond x offsets {0,+-size,max,max+size,misaligned} x immediates at limits (91k observations quick, 426k thorough); TLC evaluates the invariant on every observation. llvm-mc 14 assembles an asmjit-independent rendering of the same instruction as a second leg judged by the same predicate: a VIOLATION is raised only when spec and llvm-mc agree against asmjit (wrong word, or accepted-but-unencodable).",
   note="Coverage is a sweep, not exhaustive: 2157 of 2766 non-SVE rows judged; the rest (SVE/SME, mnemonics without an a64::Inst id, named system operations, some AdvSIMD classes, rows where the DB contradicts both assemblers) are listed by name in the evidence and never judged. Refusal of an encodable instruction is C13's question. Trusted: TLC, A64Enc.tla/A64Imm.tla, exporter, harness, llvm-mc 14 as corroboration.",
   technique="TLA+ form/field specification parameterised by the ISA database + TLC pointwise checking of swept observations, corroborated by llvm-mc"),
 "C03": dict(
   category="model_checking", design_ref="DESIGN.md §4 C03, §8",
   text="Trace validation against the contract CodeRef.tla: random and limit-probing programs (label creation, forward/backward references of every pc-relative kind of both back ends - jmp/jcc/call short/long, jecxz/loop, [rip+label+disp] with trailing immediates, b/bl, b.cond/cbz/ldr-literal, tbz, adr, adrp - embedded label addresses and label deltas of size 1/2/4/8, binds incl. double binds, aligns, data, up to 5 sections, section switches, labels left unbound, distances on both sides of every range limit incl. +-2 GiB / +-128 MiB via virtual section sizes) are executed on the real x86-32/x86-64/AArch64 assemblers; after flatten + cross-section resolution + relocation the raw bytes of every reference site are read BY THE SPEC (architecture's reading of rel8/rel32/disp32/imm26/imm19/imm14/ADR/ADRP written from the manuals) and must equal target - origin + addend exactly; every site that is not exact must be counted as unresolved and nothing else may be (NeverTruncated + ZeroIffNone); every emitting call appends exactly the logged bytes at the cursor; refused references append nothing.",
   note="Trusted: TLC, CodeRef.tla/Wide20.tla, the harness (logs offsets, lengths, raw bytes - decodes nothing). No impl-shaped fixup-chain model yet (design-level refinement is future work); ADRP acceptance is narrower in asmjit than in the architecture and tolerated.",
   technique="TLA+ contract spec with the architecture's field decoders + trace validation of recorded assembler executions (TLC)"),
 "C04": dict(
   category="model_checking", design_ref="DESIGN.md §4 C04, §8",
   text="Same machinery as C03 with the absolute-reference kinds: embed_label (size 4/8/register), x86-32 [label+disp] absolute operands with trailing immediates, jmp/call to absolute immediates (rel32, or FF /4,/2 through the 64-bit address table), x86-64 [abs] memory operands (default/abs/rel addressing), AArch64 b/bl to absolute targets; bases low/high/straddling 2^31, 2^32, 2^46, targets near and > 2 GiB away in both directions, base known at init vs assigned by relocate_to_base, address table last or followed by a later section, and installation through JitRuntime::add (base = what mmap returns). The spec EVALUATES each site in the relocated image (where does the instruction transfer to / what does it address; table slot bytes must be inside the image and hold the target) and requires base + section offset + label offset (+addend) or the requested absolute target; unreachable targets must be reported by relocate_to_base/emit; installed bytes must equal the relocated section buffers.",
   note="Trusted: TLC, CodeRef.tla, harness (raw bytes + address-table bytes + memcmp of installed memory reported as a boolean). Expression relocations other than label deltas are not generated.",
   technique="TLA+ contract spec evaluating relocated reference sites + trace validation of recorded executions (TLC)"),
 "C08": dict(
   category="model_checking", design_ref="DESIGN.md §4 C08, §8",
   text="TLC checks exhaustively that BuilderImpl (builder.cpp's add_node/add_after/add_before/remove_node/remove_nodes/section/update_section_links/bind transcribed on first/last/next/prev/cursor/active/section-link state) refines the contract Builder.tla and keeps 5 structural invariants for all edit/emit sequences of <=5 nodes/<=6 ops (quick), <=6/6 and <=5/7 (thorough), 2 sections, 2 labels, incl. removing ranges that contain the cursor, re-insertion and double bind. The real x86::Builder (x64, x86-32), a64::Builder and x86::Compiler (physical registers) are bound by trace validation: TLC-exported edit scripts and seeded random programs (93 x86 + 24 a64 instruction templates with 0-6 operands, every option bit, {k}{z}/rep extra registers, inline comments, labels, align, raw/typed data with repeat, const pools, embed_label(+delta), comments, 1-4 sections, cursor moves, remove/re-insert) run under ASan/UBSan; every call must be a contract step: stored payload = call; next-walk, prev-walk, cursor and active set = abstract list; the calls serialize_to hands over = recorded calls in list order; finalize() yields the same digest (section bytes, label positions, relocations) and the same first-error position as a fresh Assembler fed the abstract order.",
   note="Trusted: TLC, Builder.tla, the harness projection/payload reader/digest/direct run. Errors compared by position and success class, not by code. Empty list, virtual registers/functions and logger output not covered.",
   technique="TLA+ contract + refinement of impl-shaped spec (TLC) + trace validation of recorded executions and TLC-generated edit scripts"),
 "C09": dict(
   category="model_checking", design_ref="DESIGN.md §4 C09, §8",
   text="TLC checks exhaustively (tiny blocks, all histories of alloc/release/shrink/reset up to depth 5 quick / 7 thorough, padding and immediate-release variants) that the transcribed pool algorithm JitAllocImpl (bit vectors, search window, largest-unused cache, empty/dirty/incremental flags, cursor, block doubling) refines the contract JitAlloc.tla and keeps its structural invariants. The real allocator is bound to the same contract by trace validation: TLC-simulated histories scaled to real block sizes and long seeded random histories over all option sets x granularities 64/128/256 x block sizes are executed (ASan/UBSan build); every recorded call must be a contract step: spans non-null, granule aligned, >= request, disjoint in rx and rw view, contents intact at every step, rw/rx aliasing, query exact, foreign pointers refused, statistics exact, fill pattern on freed memory, released memory reusable without a new block, retention policy after release-all/reset, is_initialized.",
   note="Trusted: TLC, the contract spec, harness projection (public API, mincore, byte comparisons reported as booleans, order-preserving address compression). Large pages/hardened runtime not available in the sandbox. OutOfMemory from the OS is tolerated (counted).",
   technique="TLA+ contract + refinement of impl-shaped spec (TLC) + trace validation of recorded executions"),
 "C10": dict(
   category="model_checking", design_ref="DESIGN.md §4 C10, §8",
   text="TLC checks that the transcribed section machinery LayoutImpl (ordered insertion by (order,id), both flatten loops incl. virtual-size extension, code_size, copy_flattened_data with both padding flags, address-table shrink of relocate_to_base) refines the contract Layout.tla over all section tables with <=2 user sections (alignments {0,1,2,8,16,64}, sizes {0,1,5,16}, virtual sizes {0,3,40}, orders {-1,0,1}; thorough adds 3-4 sections, order ties with .text/.addrtab, and an address table with all copy size x flag combinations). The real CodeHolder is bound to the same contract by trace validation: TLC-enumerated and TLC-simulated tables are replayed on the code, seeded random tables cover up to 12 sections, 64 KiB alignments, orders INT_MIN..INT_MAX, arbitrary/duplicate/maximal/over-long names. Every new_section / section_by_name / embed / set_virtual_size / far jmp+call / code_size / flatten / copy_flattened_data (sizes 0, need-1, need, need+7 x 4 flag sets) / copy_section_data / relocate_to_base result must be a contract step: offsets aligned, ordered and disjoint; code_size = end of last section before and after relocation; estimate >= final; image exact (run-length comparison); guard cells untouched; too-small destinations refused.",
   note="Trusted: TLC, Layout.tla, the harness projection (public API, RLE, guard cells). Plain (unsanitised) build (memcpy(dst,nullptr,0) for never-written sections). Sizes stay below 2^31 (kTooLarge / SIZE_MAX exits not exercised). A second flatten() is informational only. Address-table contents belong to C04.",
   technique="TLA+ contract + refinement of impl-shaped spec (TLC) + trace validation of recorded executions"),
 "C11": dict(
   category="model_checking", design_ref="DESIGN.md §4 C11, §8",
   text="TLC explores all interleavings of the allocator's lock protocol with a non-atomic (scan/commit) critical section for 2 (quick) / 3 (thorough) threads: mutual exclusion, no overlap, exact counters, linearizable statistics, every call returns under weak fairness; the same model without the lock must violate NoOverlap (negative control). Real executions with 2/4/8/16 threads on one JitRuntime/JitAllocator are recorded with hook H3 (lock events emitted under the lock with a lock-ordered sequence number) and validated by TLC: lock protocol per thread (every successful alloc/release/shrink/query/statistics/add/release contains a critical section, only inside its own call, dense sequence numbers) and linearizability - the operations applied in lock order must be a behaviour of the sequential contract JitAlloc.tla with exactly the addresses/sizes/contents/statistics the threads observed. Independent generation: 8 threads assemble/compile x86-64/AArch64/Compiler programs concurrently; each output must equal the same program generated alone. The traced binary is also run under TSan as an environment.",
   note="Trusted: TLC, JitAlloc.tla, the harness' merge of thread-ordered and lock-ordered events, hook H3. Memory-level races outside the hooks are visible only via the TSan environment (abort => truncated trace => rejection).",
   technique="TLA+ interleaving model (TLC, safety + liveness + negative control) + trace validation of multi-threaded executions (lock-ordered linearization)"),
 "C17": dict(
   category="model_checking", design_ref="DESIGN.md §4 C17, §8",
   text="Pointwise conformance: OffsetCodec.tla gives, for all 12 OffsetTypes, Decode (the architecture's reading), Representable and FieldBits, with spec-level theorems (RoundTrip, FieldOnly, Sound, Tight) model-checked on 279 format states; A64Imm.tla gives DecodeBitMasks, VFPExpandImm, add/sub imm12, MovWide evaluation and the bitfield alias equations; TLC enumerates all 7680/3648 valid logical encodings (5334/1302 values), all fp8 values and 16-bit lane constants. The real CodeWriterUtils::write_offset is observed on 30 formats (exhaustive for fields <= 16 bits incl. a band outside each limit, bands + stratified samples for wider ones; thorough: exhaustive decision sweep to 28 bits) and the real a64::Assembler / armutils helpers are fed every enumerated value and all Hamming-1 neighbours; TLC judges every observation: ok <=> Representable, Decode(after) = offset, other bits untouched, refused exactly when the architecture has no encoding.",
   note="Trusted: TLC, the specs (A64 part validated against llvm-mc 14; T32/A32 diagrams from the Arm ARM without tool validation), harness/codec.cpp. Plain (unsanitized) build: Support::ror(x,0) in encode_aarch32_imm is flagged by UBSan (shift by 32) and is outside C17.",
   technique="TLA+ codec specifications + TLC pointwise checking of observations of the real code (both directions)"),
 "C18": dict(
   category="model_checking", design_ref="DESIGN.md §4 C18, §8",
   text="Per container a contract spec (spec/adt: Arena, Vector, Hash, RBTree, List, BitSet, BitVec, Pool, Str) with an abstract value and the structural invariants the property names; AdtMC lets TLC enumerate every bounded operation sequence (tree depth 6 over 5 keys, list/vector depth 4, bit set depth 3) and exports them as scripts; harness/adt.cpp executes scripts, arena-reset/printf scenarios and seeded random histories on the REAL code (one arena - dynamic or static buffer, soft/hard reset mid-history, requests larger than a block - shared by 4 vectors, 2 hash tables, 2 RB trees, 2 lists, 2 bit sets, a pool and raw allocations; 3 Strings) logging the full projected structure after every operation; TLC validates every trace: contents exact, RB order/black root/no red-red/equal black height, hash reachability, list forward = reverse of backward, bit-set unused bits zero, NUL at size, blocks aligned/disjoint/owned, chain never references freed memory, reset semantics.",
   note="Trusted: TLC, the contracts, the ~1000-line harness projection (public members; chain walk guarded by ASan poison queries). Allocation failure excluded (C15). Growth factors, bucket counts and free-list order unspecified. ASan/UBSan build is the environment.",
   technique="TLA+ contract specs per container + TLC behaviour export replayed on the real code + trace validation with projected structures"),
 "C19": dict(
   category="model_checking", design_ref="DESIGN.md §4 C19, §8",
   text="TLC proves (exhaustively, all add-histories up to depth 5/6 over a colliding alphabet) that the transcribed algorithm ConstPoolImpl refines the contract ConstPool.tla; the real ConstPool is bound to the same contract by trace validation: every model behaviour of depth 3, TLC-simulated longer behaviours and seeded random histories are executed on the real code (ASan/UBSan build) and each recorded trace must be a behaviour of the contract (aligned, stable, deduplicated offsets; image bytes exact; gaps zero; size/alignment cover everything).",
   note="Trusted: TLC, the contract spec, the 150-line harness projection (public API only). Allocation failure is excluded here (C15).",
   technique="TLA+ contract + refinement of impl-shaped spec (TLC) + trace validation of recorded executions"),
}

NOT_YET = "machinery not completed yet in this round (see DESIGN.md §7 for the build order)"

def main():
    checks = []
    for pid in ALL:
        if pid not in CHECKS:
            continue
        c = CHECKS[pid]
        checks.append({
            "property_id": pid,
            "quick_cmd": f"tools/check {pid} --tier quick",
            "thorough_cmd": f"tools/check {pid} --tier thorough",
            "evidence_file": f"/verif/evidence/{pid}.json",
            "replay_cmd_template": f"tools/check {pid} --replay {{path}}",
            "engine": "tlc",
            "level_claimed": {"category": c["category"], "text": c["text"], "design_ref": c["design_ref"]},
            "level_note": c["note"],
            "technique": c["technique"],
        })
    na_reasons = {}
    p = os.path.join(VERIF, "tools", "not_applicable.json")
    if os.path.exists(p):
        na_reasons = json.load(open(p))
    man = {
        "version": 1,
        "setup_cmd": "python3 tools/setup.py",
        "hooks": {
            "guard": "ASMJIT_VERIF",
            "enable": "tools/build.py compiles every asmjit source of /repo's working tree with -DASMJIT_VERIF (flavours plain/asan/tsan under /verif/build)",
            "baseline_off_cmd": "cmake --build /repo/_build && ctest --test-dir /repo/_build -j8 --timeout 900",
            "source_commits": json.load(open(os.path.join(VERIF, "tools", "hook_commits.json"))) if os.path.exists(os.path.join(VERIF, "tools", "hook_commits.json")) else [],
            "add_only": True,
        },
        "engines": [
            {"name": "tlc", "path": "/usr/local/bin/tlc", "serves_properties": sorted(CHECKS), "kind_free_text": "TLA+ specifications under /verif/spec checked with TLC 1.8.0; bound to the code by harness/*.cpp trace recorders/replayers driven by tools/check"},
        ],
        "checks": checks,
        "notes": "All checks: tools/check <ID> --tier quick|thorough. Known findings: /verif/KNOWN_FINDINGS.txt. Design: /verif/DESIGN.md.",
        "not_applicable": [{"property_id": pid, "reason": na_reasons.get(pid, NOT_YET)} for pid in ALL if pid not in CHECKS],
    }
    json.dump(man, open(os.path.join(VERIF, "MANIFEST.json"), "w"), indent=1)
    print("MANIFEST.json:", len(checks), "checks,", len(man["not_applicable"]), "not_applicable")

main()
