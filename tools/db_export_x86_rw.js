#!/usr/bin/env node
// tools/db_export_x86_rw.js [<repo>] <outdir>        (repo defaults to $VERIF_REPO or /repo)
//
// C12: exports the READ/WRITE ANNOTATIONS of the x86 ISA database (db/isa_x86.json read through the repository's own
// reader db/x86.js) - one record per normalised form, in the same order / with the same 1-based ids as
// tools/db_export_x86.js (forms.ndjson), so that both tables can be joined by id:
//   <outdir>/rwforms.ndjson
//     {id, name, arch, pk: L|V|E|X|U|3, vl: 0|128|256|512 (widest vector register / memory of the row), alt, priv, ctl, vol,
//      kmask, zmask, kmode: ""|blend|zeroing, ext: [names], io: [[flag, kind]...]   kind in R W X U 0 1,
//      ops: [{data, imp, r, w, zx, lo, nb (first byte / number of bytes of the accessed range; -1 when the notation gives none),
//             reg: register notation ("" when the operand has no register alternative), rsz: register size in bits,
//             fix: fixed register name or "", msz: memory size in BYTES (-1 no memory alternative, 0 unsized), mreg: implicit
//             memory addressed by this fixed register ("" | zdi | zsi | zax ...), rel: k+N index relative to the lead, clc:
//             consecutive lead count, vsib, bcst (bits), imm: bits, cond: conditional access marker "?" present}]}
// Only NOTATION is interpreted here.  What the annotations mean architecturally (width rules etc.) is in spec/isa/RWInfo.tla.
"use strict";
const fs = require("fs");
const path = require("path");
const args = process.argv.slice(2);
const repo = args.length >= 2 ? args[0] : (process.env.VERIF_REPO || "/repo");
const outdir = args.length >= 2 ? args[1] : (args[0] || "/verif/out/C12");
const db = require(path.join(repo, "db"));
const isa = new db.x86.ISA();
isa.addData(JSON.parse(fs.readFileSync(path.join(repo, "db", "isa_x86.json"))));

const REGBITS = { r8: 8, r8hi: 8, r16: 16, r32: 32, r64: 64, mm: 64, xmm: 128, ymm: 256, zmm: 512, k: 64, tmm: 8192, st: 80, bnd: 128, sreg: 16, creg: 64, dreg: 64 };
const out = [];
isa.instructions.forEach((inst, idx) => {
  let vl = 0;
  const ops = inst.operands.map((o) => {
    const rt = o.regType || "";
    const rsz = rt ? (REGBITS[rt] || 0) : 0;
    if (/^[xyz]mm$/.test(rt)) vl = Math.max(vl, rsz);
    if (o.memSize >= 128 && !(o.bcstSize > 0 && false)) vl = Math.max(vl, Math.min(o.memSize, 512));
    if (o.vsibReg) vl = Math.max(vl, REGBITS[o.vsibReg]);
    let lo = -1, nb = -1;
    if (o.rwxIndex >= 0 && o.rwxWidth > 0) { lo = o.rwxIndex >> 3; nb = ((o.rwxIndex + o.rwxWidth + 7) >> 3) - lo; }
    return {
      data: o.data, imp: o.implicit ? 1 : 0, r: o.read ? 1 : 0, w: o.write ? 1 : 0, zx: o.zext ? 1 : 0, lo, nb,
      reg: o.reg ? rt : "", rsz: o.reg ? rsz : 0, fix: (o.reg && o.reg !== rt && o.reg !== "st(i)") ? o.reg : "",
      msz: o.mem ? (o.memSize > 0 ? o.memSize >> 3 : 0) : -1, mreg: o.memRegOnly || "", rel: o.regIndexRel || 0,
      clc: o.consecutiveLeadCount || o.consecutive_lead_count || 0, vsib: o.vsibReg || "", bcst: o.bcstSize > 0 ? o.bcstSize : 0,
      imm: o.imm || 0,
    };
  });
  out.push({
    id: idx + 1, name: inst.name, arch: inst.arch, pk: { "": "L", VEX: "V", EVEX: "E", XOP: "X", REX2: "U", "3DNOW": "3" }[inst.prefix || ""] || "?",
    vl, alt: inst.alt ? 1 : 0, priv: inst.privilege, ctl: inst.control, vol: inst.volatile ? 1 : 0,
    kmask: inst.kmask ? 1 : 0, zmask: inst.zmask ? 1 : 0, kmode: inst.k || "", er: inst.er ? 1 : 0, sae: inst.sae ? 1 : 0,
    ext: Object.keys(inst.ext || {}), io: Object.entries(inst.io || {}).map(([k, v]) => [k, String(v)]),
    cat: Object.keys(inst.category || {}), opcode: inst.opcodeString, enc: inst.encoding,
    ops_s: inst.operands.map(o => (o.implicit ? "<" + o.data + ">" : o.data)).join(", "),
    ops,
  });
});
fs.mkdirSync(outdir, { recursive: true });
fs.writeFileSync(path.join(outdir, "rwforms.ndjson"), out.map(f => JSON.stringify(f)).join("\n") + "\n");
console.log(`rwforms=${out.length}`);
