#!/usr/bin/env node
// tools/db_export_a64.js  (usage below)
//
// C02: turns every row of the AArch64 ISA database (instructions[].data[]) into a machine-readable record for
// spec/isa/A64Enc.tla:  literal bits (mask/value as two 16-bit limbs), named fields with their word segments
// (split fields included), the parsed operand signature and, per field, the FIELD RULE (a name from the fixed
// vocabulary implemented in A64Enc.tla) together with the operand(s) the rule reads.  Nothing here comes from
// asmjit's C++; a row whose template or signature this reader cannot explain completely is exported with
// ok=false and a reason, and the check lists it as "not covered" (it is never judged).
"use strict";
const fs = require("fs");
// usage:  node tools/db_export_a64.js <outdir>                      -> <outdir>/rows.json from $VERIF_REPO (default /repo)/db/isa_aarch64.json
//         node tools/db_export_a64.js <isa_aarch64.json> <rows.json>  (explicit paths)        [-v prints the reasons of rows without rules]
const args = process.argv.slice(2).filter((a) => a !== "-v");
const repo = process.env.VERIF_REPO || "/repo";
let src = repo + "/db/isa_aarch64.json", dst = "/verif/out/C02/rows.json";
if (args.length === 1) dst = /\.json$/.test(args[0]) ? args[0] : require("path").join(args[0], "rows.json");
else if (args.length >= 2) { src = args[0]; dst = args[1]; }
const db = JSON.parse(fs.readFileSync(src, "utf8"));

class Skip extends Error {}
const skip = (m) => { throw new Skip(m); };

const REGF = /^(R|V)(d|n|m|a|s|t|x|dn|d2|s2|t2)$/;
const DEFW = { cond: 4, nzcv: 4, sop: 2, sz: 2, CRn: 4, CRm: 4, cmode: 4, W: 1, "!post": 1, s: 1 };

// ---------------------------------------------------------------------------------------------------------------
// template
// ---------------------------------------------------------------------------------------------------------------
function parseTemplate(op) {
  const parts = op.split("|").map((s) => s.replace(/\s+/g, ""));
  const items = [];
  for (const p of parts) {
    if (p === "") continue;
    let m;
    if (/^[01]+$/.test(p)) items.push({ lit: p });
    else if ((m = /^([A-Za-z!][A-Za-z0-9_]*):(\d+)$/.exec(p))) items.push({ n: m[1], w: +m[2] });
    else if ((m = /^([A-Za-z][A-Za-z0-9_]*)\[(\d+):(\d+)\]$/.exec(p))) items.push({ n: m[1], w: +m[2] - +m[3] + 1, flo: +m[3] });
    else if ((m = /^([A-Za-z][A-Za-z0-9_]*)\[(\d+)\]$/.exec(p))) items.push({ n: m[1], w: 1, flo: +m[2] });
    else if ((m = /^([A-Za-z!][A-Za-z0-9_]*)$/.exec(p))) items.push({ n: m[1], w: null });
    else skip("template part '" + p + "'");
  }
  let sum = 0, unsized = [];
  for (const it of items) {
    if (it.lit) sum += it.lit.length;
    else if (it.w !== null) sum += it.w;
    else if (REGF.test(it.n)) { it.w = 5; sum += 5; }
    else if (DEFW[it.n]) { it.w = DEFW[it.n]; sum += it.w; }
    else unsized.push(it);
  }
  if (unsized.length === 1) { unsized[0].w = 32 - sum; sum = 32; if (unsized[0].w <= 0) skip("template width"); }
  else if (unsized.length > 1) skip("template has unsized fields " + unsized.map((x) => x.n).join(","));
  if (sum !== 32) skip("template is " + sum + " bits wide");
  // positions, MSB first
  let pos = 32;
  let mask = 0, val = 0;
  const fields = [];   // {n, segs:[[wlo,w,flo]], width, dup}
  for (const it of items) {
    if (it.lit) {
      for (const ch of it.lit) { pos--; mask |= (1 << pos) >>> 0; if (ch === "1") val |= (1 << pos) >>> 0; }
      mask >>>= 0; val >>>= 0;
      continue;
    }
    pos -= it.w;
    fields.push({ n: it.n, wlo: pos, w: it.w, flo: it.flo === undefined ? null : it.flo });
  }
  // group by name: registers repeated = duplicates (same value in both places); other names repeated = one split
  // field, explicit [hi:lo] pieces placed as written, plain pieces concatenated MSB first.
  const out = [];
  const byName = new Map();
  for (const f of fields) { if (!byName.has(f.n)) byName.set(f.n, []); byName.get(f.n).push(f); }
  for (const [n, fs_] of byName) {
    if (REGF.test(n) || fs_.length === 1 && fs_[0].flo === null) {
      for (const f of fs_) out.push({ n, segs: [[f.wlo, f.w, 0]], width: f.w });
      continue;
    }
    const explicit = fs_.every((f) => f.flo !== null);
    const plain = fs_.every((f) => f.flo === null);
    if (!explicit && !plain) skip("field " + n + " mixes indexed and plain pieces");
    let segs = [], width = 0;
    if (explicit) { for (const f of fs_) { segs.push([f.wlo, f.w, f.flo]); width = Math.max(width, f.flo + f.w); } }
    else { let tot = fs_.reduce((a, f) => a + f.w, 0); width = tot; for (const f of fs_) { tot -= f.w; segs.push([f.wlo, f.w, tot]); } }
    out.push({ n, segs, width });
  }
  return { mask: [mask & 0xffff, mask >>> 16], val: [val & 0xffff, val >>> 16], fields: out };
}

// ---------------------------------------------------------------------------------------------------------------
// operand signature
// ---------------------------------------------------------------------------------------------------------------
function splitTop(s) {
  const res = []; let d = 0, cur = "";
  for (const ch of s) {
    if (ch === "[" || ch === "{") d++;
    if (ch === "]" || ch === "}") d--;
    if (ch === "," && d === 0) { res.push(cur.trim()); cur = ""; } else cur += ch;
  }
  if (cur.trim() !== "") res.push(cur.trim());
  return res;
}

function parseReg(s) {
  let m;
  if ((m = /^([WX])(d|n|m|a|s|t|x|d2|s2|t2|dn)(?:\|(WSP|SP))?$/.exec(s))) return { k: "gp", w: m[1].toLowerCase(), suf: m[2], sp: !!m[3] };
  if ((m = /^R(d|n|m|a|s|t)$/.exec(s))) return { k: "gp", w: "r", suf: m[1], sp: false };
  if ((m = /^([BHSDQ])(d|n|m|a|s|t|x|d2|s2|t2|dn)$/.exec(s))) return { k: "vs", t: m[1].toLowerCase(), suf: m[2] };
  if ((m = /^V(d|n|m|a|s|t|x|dn)\.(ta|tb|t)$/.exec(s))) return { k: "va", arr: m[2], suf: m[1] };
  if ((m = /^V(d|n|m|a|s|t|x|dn)\.(8B|16B|4H|8H|2S|4S|1D|2D|2H|1Q|4B)$/.exec(s))) return { k: "va", arr: m[2], suf: m[1] };
  if ((m = /^V(d|n|m|a|s|t|x|dn)\.(B|H|S|D|4B|2H)\[#(idx\d?)\]$/.exec(s))) return { k: "ve", et: m[2], idx: m[3], suf: m[1] };
  if ((m = /^V(d|n|m|a|s|t|x|dn)\.(B|H|S|D)\[#(\d+)\]$/.exec(s))) return { k: "ve", et: m[2], idx: null, fixed: +m[3], suf: m[1] };
  return null;
}

function parseMod(s) {   // "{lsl|lsr|asr #n}" "{sop #n}" "{extend #n}" "{lsl #n=0|12}" "{lsl #n}" "{uxtw|lsl|sxtw|sxtx #n*2}"
  let m = /^\{([a-z|]+) #(\w+)(?:\*(\d+))?(?:=([\d|]+))?\}$/.exec(s);
  if (!m) return null;
  let ops = m[1].split("|");
  if (m[1] === "sop") ops = ["lsl", "lsr", "asr", "ror"];
  if (m[1] === "extend") ops = ["uxtb", "uxth", "uxtw", "uxtx", "sxtb", "sxth", "sxtw", "sxtx", "lsl"];
  return { k: "mod", ext: m[1] === "extend", ops, amt: m[2], mul: m[3] ? +m[3] : null, vals: m[4] ? m[4].split("|").map(Number) : null };
}

function parseMem(s) {
  let m = /^\[(.*)\](\{@\}\{!\}|@|!|\{!\})?$/.exec(s);
  if (!m) return null;
  const inner = splitTop(m[1]);
  const modes = m[2] === "{@}{!}" ? ["o", "post", "pre"] : m[2] === "@" ? ["post"] : m[2] === "!" ? ["pre"] : m[2] === "{!}" ? ["o", "pre"] : ["o"];
  const r = { k: "mem", modes, off: null, idx: null, pc: false };
  if (inner[0] === "PC") r.pc = true;
  else {
    const b = /^X(n|d|s)(\|SP)?$/.exec(inner[0]);
    if (!b) return null;
    r.base = { suf: b[1], sp: !!b[2] };
  }
  if (inner.length >= 2) {
    let o;
    if ((o = /^#(off[SZ])(?:\*(\d+))?$/.exec(inner[1]))) r.off = { name: o[1], signed: o[1] === "offS", scale: o[2] ? +o[2] : 1 };
    else if ((o = /^#off==?(\d+)$/.exec(inner[1]))) r.off = { fixed: +o[1] };
    else if ((o = /^#off==(\d)<<sz$/.exec(inner[1]))) r.off = { fixedShl: +o[1] };
    else if ((o = /^#(\d+)$/.exec(inner[1]))) r.off = { fixed: +o[1] };
    else if ((o = /^([RX])m$/.exec(inner[1]))) {
      r.idx = { w: o[1] === "R" ? "r" : "x", suf: "m", mod: null };
      if (inner.length === 3) { r.idx.mod = parseMod(inner[2]); if (!r.idx.mod) return null; }
      else if (inner.length > 3) return null;
      return r;
    } else return null;
    if (inner.length > 2) return null;
  }
  return r;
}

function parseOperand(s) {
  let m, r;
  if ((r = parseReg(s))) return r;
  if ((r = parseMod(s))) return r;
  if (s[0] === "[") { r = parseMem(s); if (r) return r; skip("memory operand '" + s + "'"); }
  if ((m = /^(\d)x\{(.*)\}(\+)?(?:\[#(idx)\])?$/.exec(s))) {
    let e = parseReg(m[2]);
    if (!e && m[4]) { const q = /^V(d|s|x|t)\.(B|H|S|D)$/.exec(m[2]); if (q) e = { k: "ve", et: q[2], idx: "idx", suf: q[1] }; }
    if (!e) skip("list element '" + m[2] + "'");
    return { k: "list", n: +m[1], elem: e, suf: e.suf };
  }
  if (s === "#cond") return { k: "cond" };
  if ((m = /^#(relS)(?:\*(\d+))?$/.exec(s))) return { k: "rel", name: m[1], scale: m[2] ? +m[2] : 1 };
  if (s === "#fimm") return { k: "fimm" };
  if ((m = /^#(\d+)$/.exec(s))) return { k: "imm", name: null, fixed: +m[1] };
  if ((m = /^#(?:0\.0)$/.exec(s))) return { k: "imm", name: null, fixed: 0, fzero: true };
  if ((m = /^#([A-Za-z_]\w*)$/.exec(s))) return { k: "imm", name: m[1] };
  if ((m = /^\{#([A-Za-z_]\w*)(?:=(\d+))?\}$/.exec(s))) return { k: "imm", name: m[1], opt: true, def: m[2] !== undefined ? +m[2] : null };
  skip("operand '" + s + "'");
}

// ---------------------------------------------------------------------------------------------------------------
// field rules
// ---------------------------------------------------------------------------------------------------------------
const COND_INV = new Set(["cinc", "cinv", "cneg", "cset", "csetm"]);
const ESZ = { B: 0, H: 1, S: 2, D: 3, Q: 4, b: 0, h: 1, s: 2, d: 3, q: 4 };
function arrInfo(a) { const m = /^(\d+)([BHSDQ])$/.exec(a); return m ? { n: +m[1], e: ESZ[m[2]] } : null; }

function bindRow(row, name, tpl, ops, raw) {
  const rules = [];           // {n, segs, rule, a, b, p, q}
  const used = new Set();
  const F = (n) => tpl.fields.filter((f) => f.n === n);
  const has = (n) => F(n).length > 0;
  const FW = (n) => { const x = F(n); if (!x.length) skip("no field " + n); return x.reduce((a, f) => Math.max(a, f.width), 0); };
  const put = (n, rule, a = 0, b = 0, p = 0, q = 0, q2 = "") => {
    const fs_ = F(n);
    if (!fs_.length) skip("no field " + n + " for rule " + rule);
    for (const f of fs_) rules.push({ n, segs: f.segs, rule, a, b, p, q, q2 });
    used.add(n);
  };
  const pseudo = (n, rule, a = 0, b = 0, p = 0, q = 0, q2 = "") => rules.push({ n, segs: [], rule, a, b, p, q, q2 });
  const opi = (pred) => { const i = ops.findIndex(pred); return i < 0 ? 0 : i + 1; };
  const immIdx = (nm) => opi((o) => o.k === "imm" && o.name === nm);
  const modIdx = () => opi((o) => o.k === "mod");
  const memIdx = () => opi((o) => o.k === "mem");

  // variable arrangement tables
  let tlist = null;     // for t: list of arrangements; for ta.tb: list of pairs
  if (raw.t && !raw["ta.tb"] && /\./.test(raw.t)) raw["ta.tb"] = raw.t;        // (DB writes "t" for a few ta.tb rows)
  if (raw["ta.tb"]) tlist = raw["ta.tb"].split(/\s+/).map((x) => x.split("."));
  else if (raw.t) tlist = raw.t.split(/\s+/).map((x) => [x]);
  const usesT = ops.some((o) => (o.k === "va" && /^t/.test(o.arr)) || (o.k === "list" && o.elem.k === "va" && /^t/.test(o.elem.arr)));
  row.tlist = tlist;
  row.ov = ops.map((o) => { const e = o.k === "list" ? o.elem : o; return e.k === "va" && /^t[ab]?$/.test(e.arr) ? (e.arr === "t" ? "ta" : e.arr) : ""; });
  if (usesT && !tlist) skip("arrangement variable without a t list");

  // ---- registers -----------------------------------------------------------------------------------------------
  // operand "Wd" <-> field "Rd" / "Vd" (same role suffix).  The DB is not always consistent about the suffix of the
  // transfer register (e.g. "stnp Sd, Sd2" with fields Vs, Vs2; "sshll Vd.ta" with field Vx): equivalent role letters
  // d/s/x/t (and d2/s2/t2) are tried when the literal suffix has no field.
  const EQV = { d: ["d", "x", "s", "t", "dn"], s: ["s", "d", "t", "x"], x: ["x", "d", "dn"], t: ["t", "d", "s"], dn: ["dn", "d", "x"],
                d2: ["d2", "s2", "t2"], s2: ["s2", "d2", "t2"], t2: ["t2", "d2", "s2"] };
  const taken = new Set();
  const regField = (suf) => {
    for (const a of (EQV[suf] || [suf])) for (const pre of ["R", "V"]) { const fn = pre + a; if (has(fn) && !taken.has(fn)) { taken.add(fn); return fn; } }
    return null;
  };
  const regWidthOfRow = () => { const g = ops.find((o) => o.k === "gp" && o.w !== "r"); return g ? (g.w === "x" ? 64 : 32) : 0; };
  ops.forEach((o, i) => {
    const ix = i + 1;
    if (o.k === "gp") {
      const fn = regField(o.suf);
      if (!fn) skip("no field for operand " + (i + 1));
      put(fn, "gp", ix, 0, o.sp ? 1 : 0);
    } else if (o.k === "vs" || o.k === "va" || o.k === "ve") {
      const fn = regField(o.suf);
      if (!fn) skip("no field for operand " + (i + 1));
      put(fn, "vreg", ix, 0, (1 << FW(fn)) - 1);
    } else if (o.k === "list") {
      const fn = regField(o.suf);
      if (!fn) skip("no field for list operand");
      put(fn, o.elem.k === "gp" ? "gp" : "vreg", ix, 0, o.elem.k === "gp" ? 0 : 31);
      pseudo("list", o.elem.k === "gp" ? "gplist" : "vlist", ix, 0, o.n);
    } else if (o.k === "mem") {
      if (!o.pc) put(has("R" + o.base.suf) ? "R" + o.base.suf : "V" + o.base.suf, "membase", ix);
      if (o.idx) put("R" + o.idx.suf, "memidx", ix, 0, o.idx.mod ? 0 : 1);
    }
  });

  // ---- sz / arrangement ----------------------------------------------------------------------------------------
  if (has("sz") && !used.has("sz")) {
    const w = FW("sz");
    const iv = opi((o) => (o.k === "va" && /^t/.test(o.arr)) || (o.k === "list" && o.elem.k === "va" && /^t/.test(o.elem.arr)));
    if (iv) put("sz", "sz_arr", iv, 0, w);            // element size of the row's arrangement entry (min over ta/tb)
    else {
      const vs = ops.map((o, i) => [o, i + 1]).filter(([o]) => o.k === "vs" || (o.k === "va") || (o.k === "list" && o.elem.k === "va"));
      if (!vs.length) skip("sz without a vector operand");
      put("sz", "sz_min", 0, 0, w);
    }
  }
  if (usesT) pseudo("arr", "arr_in_list", 0);
  if (row.ov.includes("tb") && tlist.some((e) => e.length < 2)) skip("arrangement variable tb without a ta.tb list");

  // ---- element indices -----------------------------------------------------------------------------------------
  ops.forEach((o, i) => {
    const e = o.k === "ve" ? o : o.k === "list" && o.elem.k === "ve" ? o.elem : null;
    if (!e) return;
    if (e.idx) { if (!has(e.idx)) skip("no field " + e.idx); put(e.idx, "eidx", i + 1, 0, (1 << F(e.idx).reduce((a, f) => Math.max(a, f.width), 0)) - 1); }
    else pseudo("eidx", "eidx_fixed", i + 1, 0, e.fixed);
  });

  // ---- modifiers on register operands --------------------------------------------------------------------------
  const mi = modIdx();
  if (mi) {
    const mo = ops[mi - 1];
    const prev = ops[mi - 2];
    if (prev && prev.k === "gp") {
      if (mo.ext) {
        put("option", "ext_option", mi, mi - 1, regWidthOfRow());
        put(mo.amt, "ext_amount", mi, 0, 4);
      } else if (has("sop")) {
        put("sop", "sop", mi, 0, mo.ops.includes("ror") ? 4 : 3);
        put(mo.amt, "shamt", mi, 0, regWidthOfRow());
      } else if (mo.ops.length === 1 && mo.ops[0] === "lsl" && prev.k === "gp") {
        put(mo.amt, "lsl_amount", mi, 0, (1 << FW(mo.amt)) - 1);          // addpt/subpt
      } else skip("modifier after register without sop/option");
    }
  }

  // ---- memory --------------------------------------------------------------------------------------------------
  const me = memIdx();
  if (me) {
    const mo = ops[me - 1];
    if (has("!post") && has("W")) { put("!post", "mem_notpost", me); put("W", "mem_wback", me); }
    else pseudo("addressing-mode", "mem_mode", me, 0, (mo.modes.includes("o") ? 1 : 0) | (mo.modes.includes("post") ? 2 : 0) | (mo.modes.includes("pre") ? 4 : 0));
    if (mo.off && mo.off.name) {
      // DB quirk: the pre/post-indexed forms of LDR/STR (register) are annotated "#offS*<size>", but imm9 of the
      // load/store (immediate pre/post-indexed) class is a byte offset (Arm ARM C6.2 LDR (immediate): "<simm> is the
      // signed immediate byte offset, in the range -256 to 255").  The annotation is ignored for these mnemonics.
      let scale = mo.off.scale;
      if (/^(ldr|str)(b|h|sb|sh|sw)?$/.test(name) && mo.off.signed && FW(mo.off.name) === 9) scale = 1;
      put(mo.off.name, mo.off.signed ? "off_s" : "off_u", me, 0, scale, FW(mo.off.name));
    }
    else if (mo.off && mo.off.fixed !== undefined) pseudo("post-index-amount", "off_fixed", me, 0, mo.off.fixed);
    else if (mo.off && mo.off.fixedShl !== undefined) pseudo("post-index-amount", "off_fixed_shl", me, 0, mo.off.fixedShl);
    else if (!mo.idx) pseudo("offset", "off_fixed", me, 0, 0);
    if (mo.idx && mo.idx.mod) {
      put("option", "idx_option", me);
      const sname = has("s") ? "s" : mo.idx.mod.amt;
      put(sname, "idx_s", me, 0, accessLog2(name, ops, mo));
    } else if (mo.idx) pseudo("post-index-register", "idx_plain", me);
  }

  // ---- conditions, branches ------------------------------------------------------------------------------------
  const ci = opi((o) => o.k === "cond");
  if (ci) put("cond", COND_INV.has(name) ? "cond_inv" : "cond", ci);
  else if (has("cond") && /^bc?\.<cond>$/.test(name)) { ops.push({ k: "cc" }); put("cond", "cond", ops.length); }
  const ri = opi((o) => o.k === "rel");
  if (ri) put("relS", name === "adrp" ? "rel_page" : "rel", ri, 0, ops[ri - 1].scale, FW("relS"));

  // ---- immediates ----------------------------------------------------------------------------------------------
  const fn_ = raw.imm ? /^(\w+)\((.*)\)$/.exec(raw.imm) : null;
  const fname = fn_ ? fn_[1] : null;
  const regw = regWidthOfRow();
  const BF = { lsl: 1, lsr: 1, asr: 1, ubfx: 1, sbfx: 1, bfxil: 1, ubfiz: 1, sbfiz: 1, bfi: 1, bfc: 1, ubfm: 1, sbfm: 1, bfm: 1 };
  if (BF[name] && has("immr") && ops.some((o) => o.k === "imm")) {
    const imms = ops.map((o, i) => [o, i + 1]).filter(([o]) => o.k === "imm").map(([, i]) => i);
    put("immr", "bf_immr", imms[0], imms[1] || 0, regw, 0, name);
    if (has("imms")) put("imms", "bf_imms", imms[0], imms[1] || 0, regw, 0, name);
    else pseudo("imms", "bf_imms", imms[0], imms[1] || 0, regw, 0, name);
  }
  for (const [o, ix] of ops.map((o, i) => [o, i + 1])) {
    if (o.k !== "imm" || o.fixed !== undefined && o.name === null) { if (o.k === "imm") pseudo("imm", "imm_fixed", ix, 0, o.fixed); continue; }
    if (BF[name] && has("immr")) continue;
    const nm = o.name;
    if (fname === "LogicalImm" || fname === "ImmLogical") {
      if (name === "mov") skip("mov (bitmask immediate) is judged by the mov-immediate class");
      if (has("imm")) put("imm", "logimm13", ix, 0, regw); else skip("logical immediate fields");
      continue;
    }
    if (fname === "ImmWide" || fname === "ImmWideInv") {
      if (name === "mov") skip("mov (wide immediate) is judged by the mov-immediate class");
      const m2 = modIdx();
      put("imm", "imm_u", ix, 0, 16); put("hw", "hw", m2, 0, regw);
      continue;
    }
    if (/^immZ$|^imm$/.test(nm) && has("n") && modIdx() && ops[modIdx() - 1].vals) {      // add/sub/cmp immediate with lsl #0|12
      const f = has("immZ") ? "immZ" : "imm";
      put(f, "addsub_imm12", ix, modIdx()); put("n", "addsub_sh", ix, modIdx());
      continue;
    }
    if (nm === "nzcv") { put("nzcv", "imm_u", ix, 0, 4); continue; }
    if (fname === "ImmPRF" && nm === "prf_op" && has("prf_op")) { put("prf_op", "imm_u", ix, 0, 5); continue; }   // <prfop> as #imm5 (Arm ARM PRFM: "#uimm5")
    if (has("scale") && /ASimdFBitsScaleImm/.test(raw.imm || "")) { put("scale", "fbits_scale", ix, 0, regw || +fn_[2].split(",")[1]); continue; }
    if (has("immh") && has("immb") && fname) {
      const kind = { ASimdShiftNImm: "shr", ASimdSHRN: "shrn", ASimdShiftPImm: "shl", ASimdSHL: "shl", ASimdXtlImm: "shll", ASimdFBitsHBImm: "shr" }[fname];
      if (!kind) skip("immh:immb function " + fname);
      put("immh", "simd_sh_h", ix, 0, 0, 0, kind); put("immb", "simd_sh_b", ix, 0, 0, 0, kind);
      continue;
    }
    if ((name === "tbz" || name === "tbnz") && nm === "imm") { put("imm", "imm_u_lt", ix, 0, regw); continue; }
    if (name === "extr" && nm === "imm") { put("imm", "imm_u_lt", ix, 0, regw); continue; }
    if (name === "ror" && nm === "n") { put("n", "imm_u_lt", ix, 0, regw); continue; }
    if (nm === "sysreg" && has("sysreg") && FW("sysreg") === 15) { put("sysreg", "sysreg16", ix); continue; }
    if (fname === null && has(nm)) {
      const w = F(nm).reduce((a, f) => Math.max(a, f.width), 0);
      if (/S$/.test(nm) && nm !== "immS" ? false : nm === "immS") put(nm, "imm_s", ix, 0, w);
      else put(nm, o.opt ? "imm_u_opt" : "imm_u", ix, 0, w, o.def === null || o.def === undefined ? 0 : o.def);
      continue;
    }
    if (raw.CRm === nm && has("CRm")) { put("CRm", o.opt ? "imm_u_opt" : "imm_u", ix, 0, 4, o.def === undefined || o.def === null ? 0 : o.def); continue; }
    skip("immediate #" + nm + (fname ? " via " + fname : ""));
  }
  const fi = opi((o) => o.k === "fimm");
  if (fi) {
    if (has("imm")) put("imm", "fp8", fi, 0, 8);
    else if (has("abc") && has("defgh")) { put("abc", "fp8_abc", fi); put("defgh", "fp8_defgh", fi); }
    else skip("fp immediate fields");
  }

  for (const f of tpl.fields) if (!used.has(f.n)) skip("field " + f.n + " has no rule");
  return rules;
}

// log2 of the access size of a load/store with register index (from the transfer register's type, Arm ARM "size")
function accessLog2(name, ops, mem) {
  const t = ops[0];
  const m = /^(?:ldr|str|ldrs|prfm)(b|h|w)?$/.exec(name);
  if (!m) skip("register-index addressing of " + name);
  if (name === "prfm") return 3;
  if (m[1]) return { b: 0, h: 1, w: 2 }[m[1]];
  if (t.k === "gp") return t.w === "x" ? 3 : 2;
  if (t.k === "vs") return ESZ[t.t];
  skip("access size");
}

// ---------------------------------------------------------------------------------------------------------------
const rows = [];
let rid = 0;
for (const g of db.instructions) {
  for (const r of g.data) {
    rid++;
    const cat = g.category || "";
    const row = { rid, sig: r.inst, ext: r.ext || g.ext || "", cat, ok: false, why: "", names: [], tlist: null };
    rows.push(row);
    if (/SVE|SME/.test(cat)) { row.why = "SVE/SME (not implemented by the pinned asmjit)"; continue; }
    try {
      const sp = r.inst.indexOf(" ");
      const head = sp < 0 ? r.inst : r.inst.slice(0, sp);
      row.names = head.split("|");
      const tail = sp < 0 ? "" : r.inst.slice(sp + 1).trim();
      const tpl = parseTemplate(r.op);
      row.mask = tpl.mask; row.val = tpl.val;
      const ops = splitTop(tail).map(parseOperand);
      row.ops = ops;
      row.f = bindRow(row, row.names[0], tpl, ops, Object.assign({}, r));
      row.ok = true;
    } catch (e) {
      if (!(e instanceof Skip)) throw e;
      row.why = e.message;
    }
  }
}
fs.mkdirSync(require("path").dirname(dst), { recursive: true });
fs.writeFileSync(dst, JSON.stringify(rows));
const ok = rows.filter((r) => r.ok).length;
if (process.argv.includes("-v")) {
  const why = {};
  for (const r of rows) if (!r.ok) { const k = r.why.replace(/'.*'/, "'..'"); (why[k] = why[k] || []).push(r.sig); }
  for (const k of Object.keys(why).sort((a, b) => why[b].length - why[a].length)) console.log(why[k].length, k, "  e.g.", why[k].slice(0, 3).join(" ; "));
}
console.log(`rows=${rows.length} exported_with_rules=${ok}`);
