#!/usr/bin/env python3
"""MANIFEST.setup_cmd: build the asmjit flavours and all harness binaries from /repo's working tree (offline)."""
import glob, os, sys
HERE = os.path.dirname(os.path.abspath(__file__))
sys.path.insert(0, HERE)
import build
names = [os.path.splitext(os.path.basename(s))[0] for s in glob.glob(os.path.join(build.VERIF, "harness", "*.cpp"))]
for fl in ("plain", "asan"):
    build.build(fl, names, quiet=False)
build.build("tsan", ["jitconc"], quiet=False)
print("setup ok")
