#!/usr/bin/env python3
"""MANIFEST.setup_cmd: build the asmjit flavours and the harness binaries from /repo's working tree (offline).
Every check rebuilds what it needs itself (incrementally), so a harness that fails to build here is only reported:
the check that owns it will fail on its own."""
import glob, os, sys
HERE = os.path.dirname(os.path.abspath(__file__))
sys.path.insert(0, HERE)
import build
names = sorted(os.path.splitext(os.path.basename(s))[0] for s in glob.glob(os.path.join(build.VERIF, "harness", "*.cpp")))
names = [n for n in names if not n.startswith("lib_")]
for fl in ("plain", "asan"):
    build.build(fl, None, quiet=False)
    for n in names:
        try:
            build.build(fl, [n], quiet=True)
        except Exception as e:
            print(f"[setup] WARNING: {fl}/{n} did not build: {e}")
try:
    build.build("tsan", ["jitconc"], quiet=False)
except Exception as e:
    print(f"[setup] WARNING: tsan/jitconc did not build: {e}")
print("setup ok")
