#!/usr/bin/env python3
"""tools/mutest.py <ID> <patch> [--tier quick]  - apply a patch to a scratch worktree of /repo, run the check there.
Prints CAUGHT (exit 1 + VIOLATION), MISSED (exit 0) or BROKEN.  Cleans up the worktree and its build dirs."""
import os, shutil, subprocess, sys, glob, hashlib
VERIF = os.path.dirname(os.path.dirname(os.path.abspath(__file__)))
pid, patch = sys.argv[1], os.path.abspath(sys.argv[2])
tier = sys.argv[4] if len(sys.argv) > 4 else "quick"
wt = "/tmp/mt_" + pid + "_" + hashlib.sha1(patch.encode()).hexdigest()[:8]
subprocess.run(["git", "-C", "/repo", "worktree", "remove", "--force", wt], capture_output=True)
shutil.rmtree(wt, ignore_errors=True)
subprocess.run(["git", "-C", "/repo", "worktree", "add", "--detach", wt, "HEAD"], check=True, capture_output=True)
try:
    p = subprocess.run(["git", "-C", wt, "apply", patch], capture_output=True, text=True)
    if p.returncode != 0:
        print("PATCH-FAILED", p.stderr); sys.exit(3)
    env = dict(os.environ, VERIF_REPO=wt)
    # separate out dir so parallel mutant runs do not clobber each other
    p = subprocess.run([os.path.join(VERIF, "tools", "check"), pid, "--tier", tier], env=env, capture_output=True, text=True, cwd=VERIF)
    out = p.stdout + p.stderr
    viol = [l for l in out.splitlines() if l.startswith("VIOLATION")]
    verdict = "CAUGHT" if p.returncode == 1 and viol else "MISSED" if p.returncode == 0 else "BROKEN"
    print(f"{verdict} {pid} {os.path.basename(patch)} rc={p.returncode} violations={len(viol)}")
    for l in out.splitlines():
        if "detail:" in l or "CHECK-BROKEN" in l or "KNOWN-FINDING" in l:
            print("   ", l[:300])
            break
    if verdict == "BROKEN":
        print(out[-1500:])
finally:
    subprocess.run(["git", "-C", "/repo", "worktree", "remove", "--force", wt], capture_output=True)
    shutil.rmtree(wt, ignore_errors=True)
    for d in glob.glob(os.path.join(VERIF, "build", "*" + wt.strip("/").replace("/", "_"))):
        shutil.rmtree(d, ignore_errors=True)
    if not os.environ.get("VERIF_MUTEST_KEEP"):      # the scratch run's out dir (traces, TLC logs) can be hundreds of MB
        for d in glob.glob(os.path.join(VERIF, "out", "*_" + wt.strip("/").replace("/", "_") + "*")):
            shutil.rmtree(d, ignore_errors=True)
