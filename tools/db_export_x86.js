#!/usr/bin/env node
// tools/db_export_x86.js [<repo>] <outdir>        (repo defaults to $VERIF_REPO or /repo)
//
// Exports the x86 ISA database of the repository (db/isa_x86.json read through the repository's own reader db/x86.js)
// into the digested form table used by spec/isa/X86Enc.tla and harness/x86sweep.cpp:
//   <outdir>/forms.ndjson   one record per normalised form (uniform fields; see `blank`)
//   <outdir>/names.json     { "<instruction name>": [form ids...] }   (ids are 1-based line numbers of forms.ndjson)
//   <outdir>/export_report.json  forms the exporter/spec cannot handle yet (by name + reason), DB quirk overrides applied
//
// Only the *notation* of the DB row is interpreted here (opcode string tokens, operand notation, encoding letters);
// what the fields mean for the byte stream is defined in the TLA+ spec from the SDM/APM instruction format.
"use strict";
const fs = require("fs");
const path = require("path");
const args = process.argv.slice(2);
const repo = args.length >= 2 ? args[0] : (process.env.VERIF_REPO || "/repo");
const outdir = args.length >= 2 ? args[1] : (args[0] || "/verif/out/C01");
const db = require(path.join(repo, "db"));
const isa = new db.x86.ISA();
isa.addData(JSON.parse(fs.readFileSync(path.join(repo, "db", "isa_x86.json"))));

// ---------------------------------------------------------------------------------------------------------------
// DB rows whose opcode string contradicts the architecture manuals (each corroborated with llvm-mc/objdump by the
// check's spec-validation step; listed in the evidence file).  key: name|opcodeString|operands
// ---------------------------------------------------------------------------------------------------------------
const QUIRKS = [
  // SDM: SHRD r/m, r, imm8 = 0F AC /r ib for every operand size; the row carries a spurious mandatory 66.
  { name: "shrd", opcode: "66 0F AC /r ib", fix: "0F AC /r ib", why: "SDM vol.2 SHRD: 0F AC /r ib (no mandatory prefix); operand size comes from the rv group" },
  // SDM: LEA r16, m = 66 8D /r (operand-size prefix); the row says 67 (address-size prefix).
  { name: "lea", opcode: "67 8D /r", fix: "66 8D /r", why: "SDM vol.2 LEA r16,m: operand-size prefix 66, not address-size prefix 67" },
  // SDM: VANDNPS EVEX.NDS.{128,256,512}.0F.W0 55 /r (no mandatory prefix, map 0F); the row says 66 and omits the map.
  { name: "vandnps", opcode: "EVEX.xyz.66.W0 55 /r", fix: "EVEX.xyz.NP.0F.W0 55 /r", why: "SDM vol.2 ANDNPS: EVEX.NP.0F.W0 55 /r" },
  // SDM: VMOVUPD = VEX.66.0F 10/11, VMOVUPS = VEX.NP.0F 10/11 (the rows have the mandatory prefix swapped); VMOVNTPS EVEX.NP.0F.W0 2B
  { name: "vmovupd", opcode: /^VEX\.Lxy\.NP\.0F\.WIG (1[01] \/r)$/, fixre: "VEX.Lxy.66.0F.WIG $1", why: "SDM vol.2 MOVUPD: VEX.128/256.66.0F.WIG 10/11 /r" },
  { name: "vmovups", opcode: /^VEX\.Lxy\.66\.0F\.WIG (1[01] \/r)$/, fixre: "VEX.Lxy.NP.0F.WIG $1", why: "SDM vol.2 MOVUPS: VEX.128/256.NP.0F.WIG 10/11 /r" },
  { name: "vmovntps", opcode: "EVEX.xyz.66.0F.W0 2B /r", fix: "EVEX.xyz.NP.0F.W0 2B /r", why: "SDM vol.2 MOVNTPS: EVEX.NP.0F.W0 2B /r" },
  // SDM: FSQRT = D9 FA (D9 FE is FSIN)
  { name: "fsqrt", opcode: "D9 FE", fix: "D9 FA", why: "SDM vol.2 FSQRT: D9 FA" },
  // notation only: lower-case hex digits, VSIB rows without the /r token
  { name: "vfmaddsd", opcode: /^(VEX\S+) 6b (.*)$/, fixre: "$1 6B $2", why: "notation: lower-case opcode byte" },
  { name: "vfmaddss", opcode: /^(VEX\S+) 6a (.*)$/, fixre: "$1 6A $2", why: "notation: lower-case opcode byte" },
];
// Rows whose encoding-class letters do not fit their operand list (the letters are informative in the DB; the operand
// order below is the one the SDM gives for the same opcode).  name -> [ [operand-count, DB letters, letters used] ]
const ENC_QUIRKS = {
  movntsd: [[2, "RM", "MR"]], movntss: [[2, "RM", "MR"]],
  vaesimc: [[2, "RVM", "RM"]], vaeskeygenassist: [[3, "RVM", "RM"]],
  vmovshdup: [[2, "RVM", "RM"]], vmovsldup: [[2, "RVM", "RM"]], vpmovmskb: [[2, "RVM", "RM"]],
  vgetexpsd: [[3, "RM", "RVM"]], vgetexpsh: [[3, "RM", "RVM"]], vgetexpss: [[3, "RM", "RVM"]],
  vgetmantsd: [[4, "RM", "RVM"]], vgetmantsh: [[4, "RM", "RVM"]], vgetmantss: [[4, "RM", "RVM"]],
  vpshufbitqmb: [[3, "RM", "RVM"]],
  vpcompressb: [[2, "RVM", "MR"]], vpcompressw: [[2, "RVM", "MR"]],
  vmovsd: [[2, "MR", "RM", "xmm, m64"]], vmovss: [[2, "MR", "RM", "xmm, m32"]],
};

const FIXED_REGS = {
  al: ["gpb", 0], cl: ["gpb", 1], dl: ["gpb", 2], bl: ["gpb", 3], ah: ["gph", 0],
  ax: ["gpw", 0], cx: ["gpw", 1], dx: ["gpw", 2], bx: ["gpw", 3],
  eax: ["gpd", 0], ecx: ["gpd", 1], edx: ["gpd", 2], ebx: ["gpd", 3],
  rax: ["gpq", 0], rcx: ["gpq", 1], rdx: ["gpq", 2], rbx: ["gpq", 3], rsi: ["gpq", 6], rdi: ["gpq", 7],
  xmm0: ["xmm", 0], "st(0)": ["st", 0],
  es: ["sreg", 0], cs: ["sreg", 1], ss: ["sreg", 2], ds: ["sreg", 3], fs: ["sreg", 4], gs: ["sreg", 5],
};
const REG_CLASSES = {
  r8: ["gpb", "gph"], r16: ["gpw"], r32: ["gpd"], r64: ["gpq"], xmm: ["xmm"], ymm: ["ymm"], zmm: ["zmm"], mm: ["mm"],
  k: ["k"], sreg: ["sreg"], creg: ["creg"], dreg: ["dreg"], "st(i)": ["st"], bnd: ["bnd"], tmm: ["tmm"],
};
const MEM_SIZES = { mem: 0, m8: 1, m16: 2, m32: 4, m64: 8, m80: 10, m128: 16, m256: 32, m384: 48, m512: 64,
  m16int: 2, m32int: 4, m64int: 8, m32fp: 4, m64fp: 8, m80fp: 10, m80dec: 10, m80bcd: 10,
  moff8: 1, moff16: 2, moff32: 4, moff64: 8, mib: 0, tmem: 0, m16_16: 4, m16_32: 6, m16_64: 10 };

function blankOp() {
  return { imp: 0, fld: "none", immi: 0, regs: [], fixed: -1, msz: -1, vsib: "", vsz: 0, memreg: "", mseg: "",
           ibits: 0, isgn: "", iconst: -1, iw: 0, rbits: 0, bcst: 0, data: "", pair: 0 };
}

function exportForm(inst, id, report) {
  const f = {
    id, name: inst.name, arch: inst.arch, enc: inst.encoding, pk: "L", ok: true, why: "", ops_s: "",
    opcode: inst.opcodeString, p66: 0, pF2: 0, pF3: 0, np: 0, fw: 0, a67: 0, w: 0, l: 0, pp: 0, mm: 0, opb: [], plusr: 0,
    modrm: 0, digit: -1, modreq: 0, rmfix: -1, sfx: -1, imms: [], is4: 0, rel: 0, moff: 0, osz: 32, ops: [],
    tt: inst.tupleType || "", esz: 0, k: inst.kmask ? 1 : 0, z: inst.zmask ? 1 : 0, er: inst.er ? 1 : 0, sae: inst.sae ? 1 : 0, bc: 0,
    lock: 0, rep: 0, repne: 0, xacq: 0, xrel: 0, jcc: 0, ext: Object.keys(inst.ext || {}).join(","),
  };
  const bad = (why) => { if (f.ok) { f.ok = false; f.why = why; } };
  let opstr = inst.opcodeString;
  for (let q of QUIRKS) {
    if (q.name === inst.name && (q.opcode instanceof RegExp ? q.opcode.test(opstr) : q.opcode === opstr)) {
      const was = opstr;
      opstr = q.fix || opstr.replace(q.opcode, q.fixre);
      q = Object.assign({}, q, { opcode: was, fix: opstr });
      report.quirks_applied.push({ form: id, name: inst.name, db_opcode: q.opcode, used: q.fix, why: q.why, operands: inst.operands.map(o => o.data).join(", ") });
    }
  }
  const gi = inst.groupIndex, gp = inst.groupPattern;
  const P = inst.prefixes || {};
  f.lock = (P.lock || P.ilock) ? 1 : 0; f.rep = (P.rep) ? 1 : 0; f.repne = P.repne ? 1 : 0;
  f.xacq = P.xacquire ? 1 : 0; f.xrel = P.xrelease ? 1 : 0;
  if (P.rep && /^(cmps|scas)$/.test(inst.name)) f.repne = 1;

  // ---- opcode string ----
  const toks = opstr.trim().split(/\s+/);
  let ti = 0;
  let explicitW = false;
  const m = /^(VEX|EVEX|XOP)\.(.*)$/.exec(toks[0]);
  if (m) {
    f.pk = { VEX: "V", EVEX: "E", XOP: "X" }[m[1]];
    ti = 1;
    let sawW = false, sawL = false;
    for (let comp of m[2].split(".")) {
      if (/^(ND|NF|SCC)=/.test(comp) || comp === "LLZ") { bad("APX (EVEX map 4 / ND / NF / SCC) is not modelled"); continue; }
      if (comp === "Pv") comp = ["66", "NP", "NP"][gi];
      if (comp === "Wv") comp = ["W0", "W0", "W1"][gi];
      if (comp === "Wy") comp = ["W0", "W1"][gi];
      if (/^(128|L0|LZ)$/.test(comp)) { f.l = 0; sawL = true; }
      else if (/^(256|L1)$/.test(comp)) { f.l = 1; sawL = true; }
      else if (comp === "512") { f.l = 2; sawL = true; }
      else if (comp === "LIG") { f.l = 3; sawL = true; }
      else if (comp === "Lxy" || comp === "xyz") { if (gi < 0) bad("L group without group index"); f.l = gi; sawL = true; }
      else if (comp === "NP" || comp === "P0") f.pp = 0;
      else if (comp === "66") f.pp = 1;
      else if (comp === "F3") f.pp = 2;
      else if (comp === "F2") f.pp = 3;
      else if (comp === "0F") f.mm = 1;
      else if (comp === "0F38") f.mm = 2;
      else if (comp === "0F3A") f.mm = 3;
      else if (/^MAP[4-9A]$/.test(comp)) f.mm = parseInt(comp.substr(3), 16);
      else if (comp === "W0") { f.w = 0; sawW = true; }
      else if (comp === "W1") { f.w = 1; sawW = true; }
      else if (comp === "WIG") { f.w = 2; sawW = true; }
      else bad("unknown VEX/EVEX component " + comp);
    }
    if (!sawW) f.w = 2;            // W not stated: ignored
    if (!sawL) bad("no L field");
    if (f.mm === 0) bad("no opcode map");
    if (f.mm === 4 && f.pk === "E") bad("APX (EVEX map 4 / ND / NF / SCC) is not modelled");
  } else if (/^REX2\./.test(toks[0]) || /REX2/.test(opstr)) {
    f.pk = "U"; bad("REX2 (APX) is not modelled");
  } else {
    // legacy: leading prefix tokens
    for (; ti < toks.length; ti++) {
      const t = toks[ti];
      if (t === "66") f.p66 = 1;
      else if (t === "F2") f.pF2 = 1;
      else if (t === "F3") f.pF3 = 1;
      else if (t === "67") f.a67 = 1;
      else if (t === "9B") f.fw = 1;
      else if (t === "NP") f.np = 1;
      else if (t === "NFx") f.np = 2;         // F2/F3 not allowed (66 is part of the opcode when stated)
      else if (t === "REX.W") { f.w = 1; explicitW = true; }
      else if (t === "NOREP" || t === "NO67") { /* restriction on optional prefixes only */ }
      else break;
    }
    if (!explicitW && !f.p66 && gp === "rv") {
      // operand-size group: 16-bit member takes the operand-size prefix, 64-bit member REX.W (SDM vol.2 2.2.1.2 / 3.1.1.1)
      if (gi === 0) f.p66 = 1;
      if (gi === 2) f.w = 1;
    }
    if (!explicitW && gp === "ry" && gi === 1) f.w = 1;      // r32/r64 group: a stated 66 is a mandatory prefix there (adcx, aand, ...), the 64-bit member takes REX.W
  }
  // opcode bytes and the rest
  for (; ti < toks.length; ti++) {
    const t = toks[ti];
    let mm;
    if (/^[0-9A-F]{2}$/.test(t) && !f.modrm && !f.imms.length) f.opb.push(parseInt(t, 16));
    else if (/^[0-9A-F]{2}$/.test(t) && f.modrm && inst.prefix === "3DNOW" && f.sfx < 0) f.sfx = parseInt(t, 16);   // 3DNow!: opcode byte after ModRM/SIB/disp
    else if ((mm = /^([0-9A-F]{2})\+[ri]$/.exec(t))) { f.opb.push(parseInt(mm[1], 16)); f.plusr = 1; }
    else if (t === "/r") f.modrm = 1;
    else if ((mm = /^\/([0-7])$/.exec(t))) { f.modrm = 1; f.digit = +mm[1]; }
    else if ((mm = /^(11|!\(11\)):(rrr|[01]{3}):(bbb|[01]{3})$/.exec(t))) {
      f.modrm = 1; f.modreq = mm[1] === "11" ? 1 : 2;
      if (mm[2] !== "rrr") f.digit = parseInt(mm[2], 2);
      if (mm[3] !== "bbb") f.rmfix = parseInt(mm[3], 2);
    }
    else if (t === "ib") f.imms.push(1);
    else if (t === "iw") f.imms.push(2);
    else if (t === "id") f.imms.push(4);
    else if (t === "iq") f.imms.push(8);
    else if (t === "iv") f.imms.push([2, 4, 4][gi] || 4);
    else if (t === "/is4") { f.is4 = 1; f.imms.push(1); }
    else if (t === "cb") f.rel = 1;
    else if (t === "cw") f.rel = 2;
    else if (t === "cd") f.rel = 4;
    else if (t === "moff") f.moff = 1;
    else bad("unknown opcode token " + t);
  }
  if (!f.opb.length && f.fw) { f.opb = [0x9B]; f.fw = 0; }       // fwait itself
  if (!f.opb.length) bad("no opcode byte");
  if (!f.modrm && inst.operands.some(o => o.vsibReg)) {
    f.modrm = 1;
    report.quirks_applied.push({ form: id, name: inst.name, db_opcode: opstr, used: opstr + " /r", why: "notation: VSIB row without /r token", operands: inst.operands.map(o => o.data).join(", ") });
  }
  if (f.pk !== "L" && f.pk !== "U" && f.opb.length !== 1 && !(f.opb.length === 2 && !f.modrm)) bad("VEX-type form with several opcode bytes");
  f.osz = f.w === 1 && f.pk === "L" ? 64 : (f.p66 && f.pk === "L" ? 16 : 32);

  // ---- operands ----
  let letters = inst.encoding.replace(/[^A-Z]/g, "");
  for (const [n, from, to, opsPat] of (ENC_QUIRKS[inst.name] || [])) {
    if (inst.operands.length === n && letters === from && (!opsPat || inst.operands.map(o => o.data).join(", ") === opsPat)) {
      report.quirks_applied.push({ form: id, name: inst.name, db_encoding: from, used: to, why: "encoding-class letters do not fit the operand list", operands: inst.operands.map(o => o.data).join(", ") });
      letters = to;
    }
  }
  if (letters === "OP" || letters === "NONE") letters = "";
  letters = letters.split("");
  let immIndex = 0;
  const immFieldCount = f.imms.length - (f.is4 ? 1 : 0);
  let nFieldOps = 0;
  for (const o of inst.operands) {
    const r = blankOp();
    r.data = o.data; r.imp = o.implicit ? 1 : 0;
    if (o.regIndexRel) { r.imp = 1; r.fld = "none"; r.regs = ["k"]; r.pair = 1; f.ops.push(r); continue; }   // k+1: second register of a pair, implied by the first
    const alts = o.data.split("/");
    for (let a of alts) {
      a = a.replace(/\[.*\]$/, "");
      if (a.endsWith("+1") || a.endsWith("+3")) a = a.slice(0, -2);
      if (FIXED_REGS[a]) { r.regs = [FIXED_REGS[a][0]]; r.fixed = FIXED_REGS[a][1]; }
      else if (REG_CLASSES[a]) r.regs = r.regs.concat(REG_CLASSES[a]);
      else if (/^vm(32|64)[xyz]$/.test(a)) { r.msz = 0; r.vsib = a[4] + "mm"; r.vsz = +a.substr(2, 2); }
      else if (a in MEM_SIZES) {
        r.msz = MEM_SIZES[a];
        if (a === "mib" && f.rmfix < 0) {
          f.rmfix = 4;      // SDM vol.2 BNDLDX/BNDSTX: "mib" is a SIB-form memory operand (ModRM.rm = 100), anything else is #UD
          report.quirks_applied.push({ form: id, name: inst.name, db_opcode: opstr, used: opstr + " (ModRM.rm=100)", why: "SDM vol.2 BNDLDX/BNDSTX: mib operand requires SIB addressing", operands: inst.operands.map(x => x.data).join(", ") });
        }
      }
      else if (/^imm[su]?\d+$/.test(a)) {
        r.ibits = +/(\d+)$/.exec(a)[1];
        r.isgn = a.startsWith("imms") ? "s" : a.startsWith("immu") ? "u" : "any";
      }
      else if (a === "1") { r.iconst = 1; r.imp = 1; }
      else if (/^rel(8|16|32)$/.test(a)) r.rbits = +a.substr(3);
      else if (a === "dfv") bad("APX default-flags-value operand is not modelled");
      else bad("unknown operand notation " + a);
    }
    if (/^(movss|movsd)$/.test(inst.name) && inst.encoding === "MR" && /^m(32|64)$/.test(o.data) && !inst.prefix) {
      r.regs = ["xmm"];      // SDM: MOVSS/MOVSD xmm2/m, xmm1 (F3/F2 0F 11 /r) also has the register destination
      report.quirks_applied.push({ form: id, name: inst.name, db_operand: o.data, used: "xmm/" + o.data, why: "SDM vol.2 MOVSS/MOVSD 0F 11 /r: destination is xmm2/m32|m64", operands: inst.operands.map(x => x.data).join(", ") });
    }
    if (o.memRegOnly) { r.memreg = o.memRegOnly; r.mseg = o.memSegment || ""; }
    if (o.bcstSize > 0) { r.bcst = o.bcstSize; f.bc = o.bcstSize; }
    if (inst.name === "vpconflictq" && o.bcstSize === 32) {     // SDM: VPCONFLICTQ zmm, zmm/m512/m64bcst (64-bit elements)
      r.bcst = 64; f.bc = 64;
      report.quirks_applied.push({ form: id, name: inst.name, db_operand: o.data + "/b32", used: "b64", why: "SDM vol.2 VPCONFLICTQ: m64bcst", operands: inst.operands.map(x => x.data).join(", ") });
    }
    // field assignment
    if (r.ibits) {
      if (r.ibits === 4) { r.fld = "imm4"; if (!f.is4) bad("imm4 without /is4"); }
      else {
        r.fld = "imm"; immIndex++; r.immi = immIndex;
        // direct far pointer ptr16:16 / ptr16:32 - operands are (selector, offset), the bytes are offset then selector (SDM vol.2 CALL/JMP far)
        if (immFieldCount === 2 && /^(lcall|ljmp)$/.test(inst.name)) r.immi = 3 - immIndex;
        if (immIndex > immFieldCount) bad("more immediate operands than immediate fields");
        else if (f.imms[r.immi - 1] * 8 !== r.ibits && !(r.ibits === 32 && f.imms[r.immi - 1] === 4)) bad("immediate operand / field size mismatch");
        r.iw = r.isgn === "s" ? (r.ibits === 32 ? 64 : f.osz) : r.ibits;
      }
    } else if (r.rbits) {
      r.fld = "rel"; if (!f.rel) bad("rel operand without cb/cw/cd");
    } else if (o.memOff) {
      r.fld = "moff"; if (!f.moff) bad("moff operand without moff token");
    } else if (r.memreg && /^r(32|64)$/.test(r.memreg) && !r.imp) {
      // memory operand addressed by ONE register that is encoded as a register number (enqcmd/movdir64b: ModRM.reg, umonitor: ModRM.rm with mod=11);
      // the address size is the size of that register
      const L = letters.length ? letters.shift() : "M";
      r.fld = L === "R" ? "regmem" : "rmmem";
      if (r.fld === "rmmem") { if (f.modreq === 2) bad("register-addressed memory in ModRM.rm with mod != 11"); f.modreq = 1; }
    } else if (r.imp || r.iconst >= 0 || (r.fixed >= 0 && r.msz < 0) || r.memreg) {
      r.fld = "none";
      if (r.memreg && !/^z(ax|di|si)$/.test(r.memreg) && !r.imp) bad("register-addressed memory operand notation (" + r.memreg + ") is not modelled");
    } else if (r.regs.length || r.msz >= 0) {
      nFieldOps++;
      if (letters.length) {
        const L = letters.shift();
        r.fld = { R: (f.digit >= 0 ? "rm" : "reg"), M: "rm", V: "vvvv", S: "is4" }[L] || "?";
        if (r.fld === "?") bad("unknown encoding letter " + L);
      } else if (f.plusr && r.regs.length && r.msz < 0 && !f.ops.some(x => x.fld === "opr")) r.fld = "opr";
      else if (f.modrm && !f.ops.some(x => x.fld === "rm")) r.fld = "rm";
      else if (f.modrm && f.digit < 0 && !f.ops.some(x => x.fld === "reg") && r.regs.length && r.msz < 0) r.fld = "reg";
      else bad("operand has no encoding field (encoding class " + inst.encoding + ")");
    } else bad("operand kind not understood: " + o.data);
    if (r.fld === "opr" && !f.plusr) bad("+r operand without +r opcode");
    if ((r.fld === "rm" || r.fld === "reg") && !f.modrm) bad("ModRM operand without ModRM token");
    if (r.fld === "is4" && !f.is4) bad("is4 operand without /is4");
    if (r.fld === "vvvv" && f.pk === "L") bad("vvvv operand in a legacy encoded form");
    if (r.fld === "regmem" && !f.modrm) bad("ModRM operand without ModRM token");
    if (r.msz >= 0 && !r.memreg && r.fld !== "rm" && r.fld !== "moff" && r.fld !== "none") bad("memory operand outside ModRM.rm");
    f.ops.push(r);
  }
  if (letters.length) bad("encoding letters left over: " + letters.join(""));
  if (immIndex !== immFieldCount) bad("immediate fields without operand");
  const flds = f.ops.map(x => x.fld === "regmem" ? "reg" : x.fld === "rmmem" ? "rm" : x.fld).filter(x => /^(reg|rm|vvvv|is4|opr)$/.test(x));
  if (new Set(flds).size !== flds.length) bad("two operands claim the same field");
  if (f.plusr && !flds.includes("opr")) bad("+r opcode without register operand");
  if (f.rel && !f.ops.some(x => x.fld === "rel")) bad("rel field without operand");
  // x87 forms with a prefix byte 9B: modelled as a leading opcode byte
  // EVEX element size for Tuple1-Scalar style tuples (SDM vol.2 table 2-35): from the memory operand, or W for VSIB
  const memop = f.ops.find(x => x.msz >= 0 && x.fld === "rm");
  if (f.pk === "E") {
    if (memop && memop.vsib) f.esz = f.w === 1 ? 8 : 4;
    else if (memop) f.esz = memop.msz;
    if (/^(vpcompressb|vpexpandb)$/.test(inst.name)) f.esz = 1;      // SDM: T1S, 8-bit elements
    if (/^(vpcompressw|vpexpandw)$/.test(inst.name)) f.esz = 2;      // SDM: T1S, 16-bit elements
    if (/^(vcompressps|vexpandps|vpcompressd|vpexpandd)$/.test(inst.name)) f.esz = 4;
    if (/^(vcompresspd|vexpandpd|vpcompressq|vpexpandq)$/.test(inst.name)) f.esz = 8;
    if (memop && !f.tt) bad("EVEX form with memory operand but no tuple type");
    // Cross-check of the row's tuple type against its memory operand width (SDM vol.2 tables 2-34/2-35: for every
    // vector-shaped tuple the compressed-displacement unit N is the width of the memory access without broadcast).
    if (memop && f.ok && !memop.vsib && memop.msz > 0 && f.l <= 2) {
      const VL = 16 << f.l, w1 = f.w === 1;
      const nOf = (tt) => ({ fv: VL, fvm: VL, fm: VL, hv: VL / 2, hvm: VL / 2, qv: VL / 4, qvm: VL / 4, ovm: VL / 8, m128: 16,
        movddup: VL === 16 ? 8 : VL, t2: w1 ? 16 : 8, t4: w1 ? 32 : 16, t8: 32 })[tt];
      const n = nOf(f.tt);
      if (n !== undefined && n !== memop.msz) {
        const ratio = VL / memop.msz;
        const fix = /^(fv|hv|qv)$/.test(f.tt) ? ({ 1: "fv", 2: "hv", 4: "qv" })[ratio]
                  : /^t[248]$/.test(f.tt) ? ({ 8: w1 ? undefined : "t2", 16: w1 ? "t2" : "t4", 32: w1 ? "t4" : "t8" })[memop.msz]
                  : ({ 1: "fvm", 2: "hvm", 4: "qvm", 8: "ovm" })[ratio];
        if (fix) {
          report.quirks_applied.push({ form: id, name: inst.name, db_tuple: f.tt, used: fix, why: `tuple type gives N=${n} but the row's memory operand is ${memop.msz} bytes (SDM: N = memory access width)`, operands: inst.operands.map(o => o.data).join(", ") });
          f.tt = fix;
        } else bad(`tuple type ${f.tt} inconsistent with memory operand of ${memop.msz} bytes`);
      }
    }
  }
  f.expl = []; f.ops.forEach((x, j) => { if (!x.imp) f.expl.push(j + 1); });
  f.jcc = (f.rel > 0 && /^j/.test(inst.name) && !/^(jmp|jmpabs|jecxz)$/.test(inst.name)) ? 1 : 0;    // Jcc: branch-hint prefixes 2E / 3E (SDM vol.2 2.1.1)
  f.ops_s = inst.operands.map(o => (o.implicit ? "<" + o.data + ">" : o.data)).join(", ");
  return f;
}

const report = { total: 0, handled: 0, unhandled: {}, unhandled_names: {}, quirks_applied: [] };
const forms = [];
const names = {};
isa.instructions.forEach((inst, idx) => {
  const f = exportForm(inst, idx + 1, report);
  forms.push(f);
  (names[f.name] = names[f.name] || []).push(f.id);
  report.total++;
  if (f.ok) report.handled++;
  else {
    report.unhandled[f.why] = (report.unhandled[f.why] || 0) + 1;
    (report.unhandled_names[f.why] = report.unhandled_names[f.why] || new Set()).add(f.name);
  }
});
// VEX-only mnemonics that an assembler may promote to their unmasked EVEX twins when a register id >= 16 is used
const PROMOTE = { vpand: "vpandd", vpandn: "vpandnd", vpor: "vpord", vpxor: "vpxord", vmovdqa: "vmovdqa32", vmovdqu: "vmovdqu32" };
for (const [a, b] of Object.entries(PROMOTE)) if (names[a] && names[b]) names[a] = names[a].concat(names[b]);
report.promotion_aliases = PROMOTE;
for (const k of Object.keys(report.unhandled_names)) report.unhandled_names[k] = [...report.unhandled_names[k]].sort();
fs.mkdirSync(outdir, { recursive: true });
fs.writeFileSync(path.join(outdir, "forms.ndjson"), forms.map(f => JSON.stringify(f)).join("\n") + "\n");
fs.writeFileSync(path.join(outdir, "names.json"), JSON.stringify(names));
fs.writeFileSync(path.join(outdir, "export_report.json"), JSON.stringify(report, null, 1));
console.log(`forms=${report.total} handled=${report.handled} unhandled=${report.total - report.handled}`);
