#!/usr/bin/env python3
"""tools/seedconfirm.py <PID> <seed-dir>   e.g.  tools/seedconfirm.py C09 /tmp/seed-C09
Independently confirms sub-agent-made breaking changes: for each <seed-dir>/<k>/{patch.diff,demo.cpp,meta.json}
  - applies the patch to a scratch worktree of /repo HEAD, builds library + the repository's tests, runs ctest,
  - builds the demonstration against that build and runs it (must FAIL), reverts, rebuilds, runs it again (must PASS).
Confirmed changes are copied to /verif/seeded/<PID>-<k>/ with meta.json extended by what was run here."""
import json, os, shutil, subprocess, sys, time
pid, sdir = sys.argv[1], sys.argv[2]
koff = int(sys.argv[3]) if len(sys.argv) > 3 else 0      # numbering offset for later rounds (seeded/<PID>-<k+koff>)
wt = f"/tmp/sc-{pid}-{os.getpid()}"
log = open(f"/verif/out/seedconfirm_{pid}_{os.path.basename(sdir.rstrip('/'))}.log", "w")
def sh(cmd, **kw):
    log.write("$ " + cmd + "\n"); log.flush()
    p = subprocess.run(cmd, shell=True, stdout=subprocess.PIPE, stderr=subprocess.STDOUT, text=True, **kw)
    log.write(p.stdout[-3000:] + f"\n[rc={p.returncode}]\n"); log.flush()
    return p
sh(f"git -C /repo worktree remove --force {wt}; rm -rf {wt}")
sh(f"git -C /repo worktree add --detach {wt} HEAD")
head = subprocess.run("git -C /repo rev-parse --short HEAD", shell=True, capture_output=True, text=True).stdout.strip()
sh(f"cmake -G Ninja -S {wt} -B {wt}/_b -DASMJIT_TEST=ON -DCMAKE_BUILD_TYPE=RelWithDebInfo")
def build_and_test():
    b = sh(f"nice cmake --build {wt}/_b -j5")
    if b.returncode != 0: return False, False
    t = sh(f"nice ctest --test-dir {wt}/_b -j4 --timeout 1200")
    return True, ("100% tests passed" in t.stdout)
def demo(k):
    d = f"{sdir}/{k}"
    c = sh(f"g++ -std=c++17 -O1 -I{wt} {d}/demo.cpp -L{wt}/_b -lasmjit -Wl,-rpath,{wt}/_b -pthread -o {wt}/_b/demo_{k}")
    if c.returncode != 0: return None
    r = sh(f"{wt}/_b/demo_{k}", timeout=600)
    return r.returncode
ok0, t0 = build_and_test()
results = {}
for k in sorted(os.listdir(sdir)):
    d = f"{sdir}/{k}"
    if not os.path.exists(f"{d}/patch.diff"): continue
    a = sh(f"git -C {wt} apply {d}/patch.diff")
    if a.returncode != 0:
        results[k] = {"applies": False}; continue
    compiled, tests = build_and_test()
    rc_with = demo(k) if compiled else None
    sh(f"git -C {wt} checkout -- .")
    sh(f"nice cmake --build {wt}/_b -j5")
    rc_without = demo(k)
    res = {"applies": True, "compiles": compiled, "ctest_all_pass": tests, "demo_rc_with_change": rc_with, "demo_rc_without": rc_without,
           "confirmed": bool(compiled and tests and rc_with not in (0, None) and rc_without == 0), "repo_head": head}
    results[k] = res
    if res["confirmed"]:
        dst = f"/verif/seeded/{pid}-{int(k) + koff}"
        shutil.rmtree(dst, ignore_errors=True); os.makedirs(dst)
        for f in ("patch.diff", "demo.cpp"): shutil.copy(f"{d}/{f}", dst)
        meta = json.load(open(f"{d}/meta.json")) if os.path.exists(f"{d}/meta.json") else {}
        meta["property"] = pid
        meta["confirmed_by_lead"] = res
        meta["lead_commands"] = ["tools/seedconfirm.py %s %s" % (pid, sdir), "cmake -DASMJIT_TEST=ON + ctest in scratch worktree with the change", "demo with change (non-zero) / without (0)"]
        json.dump(meta, open(f"{dst}/meta.json", "w"), indent=1)
print(json.dumps({"baseline_builds": ok0, "baseline_tests": t0, "results": results}, indent=1))
sh(f"rm -rf {wt}/_b; git -C /repo worktree remove --force {wt}")
