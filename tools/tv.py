#!/usr/bin/env python3
"""Debug helper: validate one ndjson trace against a trace spec; print the first rejected line."""
import sys, os, json
sys.path.insert(0, os.path.dirname(os.path.abspath(__file__)))
import vlib
mod, cfg, trace = sys.argv[1:4]
ctx = vlib.Ctx("DBG%d" % os.getpid(), "quick", 1)
ok, maxl, r = vlib.validate_trace_file(ctx, os.path.abspath(mod), os.path.abspath(cfg), os.path.abspath(trace))
recs = vlib.read_ndjson(trace)
print("accepted" if ok else "REJECTED", "maxl", maxl, "of", len(recs), "kind", r.kind, "inv", r.violated, f"{r.wall:.1f}s", r.distinct, "states")
if not ok:
    for i in range(max(0, maxl - 4), min(len(recs), maxl)):
        print(("=> " if i == maxl - 1 else "   ") + json.dumps(recs[i])[:600])
    if r.kind == "violation":
        print(r.out[-2500:])
