#!/usr/bin/env python3
"""tools/seedmeta.py <ID-k> <verdict> <how...>  - record the result of running a seeded change through its check
(tools/mutest.py) in /verif/seeded/<ID-k>/meta.json (key check_result)."""
import json, os, sys
VERIF = os.path.dirname(os.path.dirname(os.path.abspath(__file__)))
sid, verdict, how = sys.argv[1], sys.argv[2], " ".join(sys.argv[3:])
fn = os.path.join(VERIF, "seeded", sid, "meta.json")
m = json.load(open(fn))
m["check_result"] = {"verdict": verdict, "how": how, "command": f"tools/mutest.py {sid.split('-')[0]} seeded/{sid}/patch.diff"}
json.dump(m, open(fn, "w"), indent=1)
print("ok", sid, verdict)
