#!/usr/bin/env python3
"""tools/seedtable.py - regenerates the table of DESIGN.md section 8.4 from /verif/seeded/*/meta.json (between the markers)."""
import glob, json, os, re
VERIF = os.path.dirname(os.path.dirname(os.path.abspath(__file__)))
rows = []
def key(p):
    n = os.path.basename(p.rstrip("/")); a, b = n.split("-"); return (a, int(b))
for d in sorted(glob.glob(os.path.join(VERIF, "seeded", "*/")), key=key):
    n = os.path.basename(d.rstrip("/"))
    m = json.load(open(os.path.join(d, "meta.json")))
    cr = m.get("check_result", {})
    cell = lambda s: re.sub(r"\s+", " ", str(s)).replace("|", "\\|")
    summ = cell(m.get("summary", ""))
    needs = cell(m.get("needs", ""))
    if len(summ) > 260: summ = summ[:257] + "..."
    if len(needs) > 220: needs = needs[:217] + "..."
    rows.append(f"| {n} | {summ} | {needs} | **{cell(cr.get('verdict', 'not run'))}**: {cell(cr.get('how', ''))} |")
table = "| seeded change | what was changed (sub-agent's summary) | needs | result of the check (`tools/mutest.py`) |\n|---|---|---|---|\n" + "\n".join(rows)
fn = os.path.join(VERIF, "DESIGN.md")
s = open(fn).read()
b, e = "<!-- SEEDTABLE-BEGIN -->", "<!-- SEEDTABLE-END -->"
assert b in s and e in s
s = s[: s.index(b) + len(b)] + "\n" + table + "\n" + s[s.index(e):]
open(fn, "w").write(s)
print(len(rows), "rows")
