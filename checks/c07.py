"""C07 - prolog/epilog preserve callee-saved state and keep frame areas disjoint.

Decided by TLC: spec/func/FrameMachine.tla is an abstract stack machine (symbolic register values, concrete SP, cell
memory) that EXECUTES the prolog and epilog the real asmjit emitted for a configuration, with one arbitrary-body step in
between, for every entry-SP residue the convention allows; the property's invariants are evaluated in every state
(spec/func/FrameTrace.tla).  A configuration is environment x convention x a SEQUENCE of FuncFrame setter calls; what the
sequence promises to the body (set_* assigns, update_* takes the maximum, ...) is derived in FrameMachine.tla (Eff), the
harness only executes the calls.  The configurations come from spec/func/FrameConfigs.tla (TLC enumerates the cross product
of the tier's value profile with two call orders, the "orders" profile with EVERY order of the four stack setters and every
set/update shape, and simulates the wide profile), from the harness' seeded random sampler (random merges of random call
chains) and from frames the Compiler derives itself (BaseRAPass::update_stack_frame) for functions with invoke nodes.
"""
import concurrent.futures, json, math, os, re
import vlib
from vlib import Broken

SPEC = os.path.join(vlib.VERIF, "spec", "func")
FIELDS = ["env", "cc", "nargs", "cp_vec", "cp_k", "cp_mm", "ops"]

MAX_CONFIRM = 10         # strict confirmations (one JVM each) of failure groups not listed in KNOWN_FINDINGS

KNOWN_MNEMONICS = {
    "x86": {"push", "pop", "mov", "lea", "add", "sub", "and", "ret", "emms", "vzeroupper", "endbr32", "endbr64", "nop",
            "movaps", "movups", "vmovaps", "vmovups", "movapd", "movupd", "vmovapd", "vmovupd", "movdqa", "movdqu",
            "vmovdqa", "vmovdqu", "vmovdqa32", "vmovdqu32", "vmovdqa64", "vmovdqu64", "kmovb", "kmovw", "kmovd", "kmovq",
            "movq", "movd", "vmovq", "vmovd", "movss", "movsd", "vmovss", "vmovsd"},
    # real function bodies of the Compiler-derived leg (results are uninterpreted; only WHERE they are written matters)
    "x86body": {"add", "sub", "and", "or", "xor", "imul", "paddd", "vpaddd", "pxor", "vpxor", "addps", "addpd", "addss", "addsd",
                "vaddps", "vaddpd", "vaddss", "vaddsd", "xorps", "vxorps", "call"},
    "a64": {"stp", "ldp", "str", "ldr", "mov", "add", "sub", "and", "ret", "bti", "nop"},
}


def tuple_to_cfg(t):
    d = dict(zip(FIELDS, t))
    return {"env": d["env"], "cc": d["cc"], "src": "spec", "nargs": d["nargs"], "cp": [[], d["cp_vec"], d["cp_k"], d["cp_mm"]],
            "ops": [{"op": o[0], "a": o[1], "g": o[2], "ids": o[3]} for o in d["ops"]]}


def eff(cfg):
    """Mirror of FrameMachine!Eff - used ONLY to name failure groups and to print diagnostics, never for a verdict."""
    e = {"ls": 0, "la": 0, "cs": 0, "ca": 0, "fp": 0, "calls": 0, "sa": 255, "d": [set(), set(), set(), set()]}
    for o in cfg["ops"]:
        n = o["op"]
        if n[:4] == "set_" and n[4:] in ("ls", "la", "cs", "ca"):
            e[n[4:]] = o["a"]
        elif n[:7] == "update_":
            e[n[7:]] = max(e[n[7:]], o["a"])
        elif n == "add_dirty":
            e["d"][o["g"]] |= set(o["ids"])
        elif n == "set_dirty":
            e["d"][o["g"]] = set(o["ids"])
        elif n in ("set_fp", "reset_fp"):
            e["fp"] = int(n == "set_fp")
        elif n in ("set_calls", "reset_calls"):
            e["calls"] = int(n == "set_calls")
        elif n == "set_sa":
            e["sa"] = o["a"]
        elif n == "reset_sa":
            e["sa"] = 255
    return e


def order_of(cfg):
    """the order in which the four stack setter families are first called, e.g. 'ca>cs>la>ls' (diagnostics/keys)"""
    seen = []
    for o in cfg["ops"]:
        x = o["op"].split("_", 1)[1]
        if x in ("ls", "la", "cs", "ca") and x not in seen:
            seen.append(x)
    return ">".join(seen) or "-"


def write_cfg(ctx, name, profile):
    p = ctx.path(name)
    open(p, "w").write(f'SPECIFICATION Spec\nCONSTANT Profile = "{profile}"\nINVARIANT Consistent\nINVARIANT Export\n')
    return p


def enumerate_configs(ctx):
    """TLC states the explored space: exhaustive product of the tier's value profile (two call orders), the orders profile
    (every order of the four stack setters x every set/update shape) + simulated draws of the wide profile."""
    q = ctx.quick
    mod = os.path.join(SPEC, "FrameConfigs.tla")
    tuples = []
    for prof in (("quick", "orders") if q else ("thorough", "orders_thorough")):
        r = vlib.run_tlc(ctx, mod, write_cfg(ctx, f"cfg_{prof}.cfg", prof), workers=4, timeout=1500,
                         heap=("2g" if q else "6g"), tag="cfg" + prof)
        vlib.tlc_must_ok(ctx, r, "FrameConfigs " + prof)
        t = vlib.parse_beh(r.out, tag="CFG")
        if not t:
            raise Broken(f"FrameConfigs ({prof}) printed no configuration")
        ctx.extra["configs_" + prof] = len(t)
        tuples += t
    n_exh = len(tuples)
    nsim = 1200 if q else 24000
    r = vlib.run_tlc(ctx, mod, write_cfg(ctx, "cfg_sim.cfg", "wide"), workers=4, timeout=1500, heap="2g", tag="cfgsim",
                     simulate=nsim // 4, depth=18, seed=ctx.seed)
    if r.kind != "ok":
        raise Broken("FrameConfigs simulation failed: " + r.out[-800:])
    sim = vlib.parse_beh(r.out, tag="CFG")
    ctx.extra["configs_simulated"] = len(sim)
    seen, out = set(), []
    for t in tuples + sim:
        if len(t) != len(FIELDS):
            raise Broken(f"malformed CFG tuple {t}")
        k = json.dumps(t)
        if k not in seen:
            seen.add(k)
            out.append(tuple_to_cfg(t))
    ctx.log(f"configurations: {n_exh} enumerated ({'quick+orders' if q else 'thorough+orders_thorough'}), {len(sim)} simulated (wide), "
            f"{len(out)} distinct setter sequences")
    return out


def family(o):
    return o["family"]


def precheck(obs):
    """Anything outside the machine's vocabulary is a limit of the CHECK (Broken), never a verdict."""
    for o in obs:
        if o.get("e") == "ABORT":
            raise Broken("harness aborted: " + json.dumps(o))
        fam = family(o)
        for ins in o["body"]:
            if ins["m"] not in KNOWN_MNEMONICS[fam] and ins["m"] not in KNOWN_MNEMONICS.get(fam + "body", ()):
                raise Broken(f"body instruction outside the machine's vocabulary: {ins['m']} (cfg {json.dumps(o['cfg'])[:300]})")
        for ins in o["pro"] + o["epi"]:
            if ins["m"] not in KNOWN_MNEMONICS[fam]:
                raise Broken(f"instruction outside the machine's vocabulary: {ins['m']} (cfg {json.dumps(o['cfg'])})")
        if o.get("foreign"):
            raise Broken(f"non-instruction node in prolog/epilog (cfg {json.dumps(o['cfg'])})")


# ----------------------------------------------------------------------------------------------------------------------
# signatures: a stable, narrow name for the class of failing configurations (used for KNOWN_FINDINGS.txt)
# ----------------------------------------------------------------------------------------------------------------------
def arch_of(o):
    return o["cfg"]["env"].split("-")[0]


def signature(o, inv, lost):
    """Key = <invariant>:<narrow class of configurations>.  The named classes are narrow predicates on the failing INPUT
    (and, for SavedRestored, on which register groups were lost); everything else gets a generic key that spells out
    every feature selecting a code path in finalize/emit_prolog/emit_epilog."""
    c, fr = o["cfg"], o["fr"]
    e = eff(c)
    arch = arch_of(o)
    light = c["cc"].startswith("lightcall")
    promised = max(e["la"], e["ca"])
    lost_groups = sorted({g for g, _ in lost})
    saved = fr["saved"]
    if arch == "x86" and not light and not fr["has_da"] and promised == 8 and inv == "AlignedInBody":
        return "AlignedInBody:x86-32:alignment8-without-dynamic-alignment"
    if arch == "a64" and promised > 16 and inv in ("AlignedInBody", "StackArgs"):
        return f"{inv}:a64:dynamic-alignment-not-emitted"
    if arch in ("x86", "x64") and inv == "SavedRestored" and lost and set(lost_groups) <= {2, 3} and \
            (len(saved[2]) >= 2 or (len(saved[2]) >= 1 and len(saved[3]) >= 1)):
        return "SavedRestored:x86:mask-register-saves-share-one-slot"
    if arch == "a64" and light and inv == "SavedRestored" and lost and lost_groups == [1]:
        return "SavedRestored:a64:lightcall-vec-saved-as-64-bit"
    if arch == "a64" and light and inv == "StackArgs" and len(saved[1]) % 2 == 1:
        return "StackArgs:a64:lightcall-odd-vec-saves-frame-size-mismatch"
    if arch == "a64" and inv == "StackArgs" and fr["has_fp"] and fr["sa_reg"] == 29 and not fr["has_da"]:
        return "StackArgs:a64:preserved-fp-as-sa-register-offset"
    if arch == "a64" and light and inv == "Accepted" and fr["pp_size"] >= 240:
        return "Accepted:a64:lightcall-save-area-exceeds-index-range"
    # generic: invariant + everything that selects a code path in finalize/emit_prolog/emit_epilog
    ex = "".join(n for n, g in (("v", 1), ("k", 2), ("m", 3)) if saved[g])
    return (f"{inv}:{c['env']}:{c['cc']}:fp{e['fp']}:da{int(fr['has_da'])}:ex{ex or '-'}:pp{len(saved[0])}"
            f":ls{e['ls']}:la{e['la']}:cs{e['cs']}:ca{e['ca']}:sa{e['sa']}:args{c['nargs']}:order{order_of(c)}:{c.get('src', 'spec')}"
            f"{'-' + c['callee'].get('kinds', '')[:4] + str(c['callee'].get('bind', '')) if 'callee' in c else ''}"
            f":lost{'.'.join(map(str, lost_groups)) or '-'}")


def describe(o):
    def ins(i):
        ops = []
        for x in i["o"]:
            if x["t"] == "r":
                ops.append(f"r{x['g']}.{x['id']}/{x['sz']}")
            elif x["t"] == "m":
                ops.append(f"[r{x['id']}{x['off']:+d}]" + ({1: "!", 2: "^post"}.get(x["mode"], "")))
            else:
                ops.append(str(x["off"]))
        return i["m"] + " " + ",".join(ops)
    c = o["cfg"]
    e = eff(c)
    calls = [x["op"] + "(" + (",".join(map(str, x["ids"])) if x["op"].endswith("dirty") else str(x["a"])) + ")" for x in c["ops"]]
    cfg = {"env": c["env"], "cc": c["cc"], "src": c.get("src", "spec"), "nargs": c["nargs"], "cp": c["cp"], "calls": calls,
           "promised": {k: e[k] for k in ("ls", "la", "cs", "ca", "fp", "calls")}}
    if "callee" in c:
        cfg["callee"] = c["callee"]
    if o.get("slots"):
        cfg["home_slots(arg,base,off,size,stackarg,argoff,argsz)"] = [[x["arg"], x["base"], x["off"], x["size"], int(x["stackarg"]), x["argoff"], x["argsz"]]
                                                                        for x in o["slots"] if x["stackarg"] or x["used"]][:40]
        cfg["body_instructions"] = len(o["body"])
    return {"cfg": cfg, "prolog": [ins(i) for i in o["pro"]], "epilog": [ins(i) for i in o["epi"]],
            "frame": {k: o["fr"][k] for k in ("final_align", "adj", "local_off", "ex_off", "ex_size", "da_off", "pp_size", "sa_reg", "sa_sp", "sa_sa", "cleanup")}}


# ----------------------------------------------------------------------------------------------------------------------
def o_is_compiler(o):
    return o["cfg"].get("src") == "compiler"


def run_shard(ctx, idx, path, mode, workers, timeout):
    mod = os.path.join(SPEC, "FrameTrace.tla")
    if mode == "report":
        cfg = ctx.path("report.cfg")
        if not os.path.exists(cfg):
            open(cfg, "w").write("SPECIFICATION Spec\nINVARIANT ReportInv\n")
    else:
        cfg = os.path.join(SPEC, "FrameTrace.cfg")
    return vlib.run_tlc(ctx, mod, cfg, workers=workers, timeout=timeout, heap="1500m", tag=f"{mode}{idx}",
                        env={"OBS": path, "MODE": mode})


def stream_obs(path):
    """observations of one harness output file, one at a time (a truncated line = the harness died = Broken)"""
    with open(path, errors="replace") as f:
        for ln in f:
            ln = ln.strip()
            if ln:
                try:
                    yield json.loads(ln)
                except Exception:
                    raise Broken(f"malformed line in {path} (harness aborted?)")


def check_observations(ctx, obs, label):
    """Run all observations (an iterable) through FrameTrace (report mode, sharded), group the failures, confirm each group
    in strict mode (TLC exit 12 + error trace) and classify it against KNOWN_FINDINGS."""
    # two configurations whose observations agree in everything the specification reads are one machine run
    uniq, seen, nobs, orders = [], set(), 0, set()
    for o in obs:
        nobs += 1
        precheck([o])
        c = o["cfg"]
        e = eff(c)
        orders.add(order_of(c))
        k = vlib.digest([c["env"], c["cc"], c["cp"], [e[f] for f in ("ls", "la", "cs", "ca", "fp", "calls")], [sorted(x) for x in e["d"]],
                         o["cc"], o["fd"], o["fr"], o["pro"], o["epi"], o["err"], o["body"], o["slots"]])
        if k not in seen:
            seen.add(k)
            uniq.append(o)
    ctx.extra["distinct_stack_setter_orders"] = len(orders)
    obs = range(nobs)
    ctx.evaluations += len(obs)
    for o in uniq:
        ctx.distinct.add(vlib.digest([o["family"], o["bits"], o["fr"], o["pro"], o["epi"]]))
    nsh = max(1, math.ceil(len(uniq) / 1500)) if len(uniq) > 4800 else max(1, min(6, math.ceil(len(uniq) / 600)))
    shards = [uniq[k::nsh] for k in range(nsh)]
    paths = []
    for k, sh in enumerate(shards):
        p = ctx.path(f"obs_{label}_{k}.ndjson")
        vlib.write_ndjson(p, sh)
        paths.append(p)
    ctx.log(f"{label}: {len(obs)} observations, {len(uniq)} distinct machine runs, {nsh} TLC shard(s)")
    fails = []        # (observation, residue, pcx, [invariants], [lost regs])
    with concurrent.futures.ThreadPoolExecutor(max_workers=min(nsh, 6)) as ex:
        futs = {ex.submit(run_shard, ctx, f"{label}{k}", paths[k], "report", 2, 3000): k for k in range(nsh)}
        for fu in concurrent.futures.as_completed(futs):
            k = futs[fu]
            r = fu.result()
            if r.kind != "ok":
                raise Broken(f"FrameTrace (report mode) on shard {k}: kind={r.kind} rc={r.rc}\n" + "\n".join(r.out.splitlines()[-30:]))
            ctx.states += r.distinct
            ctx.transitions += r.generated
            for t in vlib.parse_beh(r.out, tag="FAIL"):
                i, res, pcx, names, lost = t
                fails.append((shards[k][i - 1], res, pcx, names, [tuple(x) for x in lost]))
    ctx.traces += len(uniq)
    if not fails:
        return
    # group: one signature per (observation, invariant)
    groups = {}
    for o, res, pcx, names, lost in fails:
        for inv in names:
            if inv == "Understood":
                raise Broken(f"machine does not understand an emitted instruction: {json.dumps(describe(o))[:600]}")
            key = signature(o, inv, lost if inv == "SavedRestored" else [])
            g = groups.setdefault(key, {"inv": inv, "cases": {}, "res": set()})
            g["cases"].setdefault(vlib.digest(o), o)
            g["res"].add(res)
    ctx.log(f"{label}: {len(fails)} failing machine states in {len(groups)} group(s); confirming in strict mode")
    unknown = [k for k in sorted(groups) if k not in ctx.known]
    confirm = [k for k in sorted(groups) if k in ctx.known] + unknown[:MAX_CONFIRM]
    if len(unknown) > MAX_CONFIRM:
        ctx.log(f"{label}: {len(unknown)} unlisted failure groups; the first {MAX_CONFIRM} are confirmed and reported, the others are "
                f"listed in {ctx.path('unconfirmed_groups.txt')}")
        open(ctx.path("unconfirmed_groups.txt"), "w").write("\n".join(unknown[MAX_CONFIRM:]) + "\n")
    def confirm_one(key):
        g = groups[key]
        cases = sorted(g["cases"].values(), key=lambda o: (len(o["pro"]) + len(o["epi"]), json.dumps(o["cfg"])))
        rep = cases[0]
        rp = ctx.path("case_" + re.sub(r"[^A-Za-z0-9_.-]", "_", key)[:150] + ".ndjson")
        vlib.write_ndjson(rp, [rep])
        r = run_shard(ctx, "confirm" + vlib.digest(key), rp, "strict", 1, 900)
        return key, g, cases, rep, rp, r
    with concurrent.futures.ThreadPoolExecutor(max_workers=4) as ex:
        results = list(ex.map(confirm_one, confirm))
    for key, g, cases, rep, rp, r in results:
        if r.kind != "violation":
            raise Broken(f"failure group {key} not confirmed by a strict run (kind={r.kind})\n" + r.out[-1500:])
        open(rp + ".tlc.txt", "w").write(r.out)
        what = (f"invariant {r.violated} (group {g['inv']}) violated for {len(cases)} configuration(s), entry SP residues mod 64 "
                f"{sorted(g['res'])[:8]}; smallest: {json.dumps(describe(rep))[:1400]}")
        if key in ctx.known:
            ctx.known_finding(key, f"{len(cases)} configuration(s) still fail; {ctx.known[key][:160]}")
        else:
            ctx.violation(f"key={key} :: {what}", rp)
        ctx.add_sample({"failing_key": key, "configurations": len(cases), "example": describe(rep)["cfg"]})
        if o_is_compiler(rep):
            ctx.log(f"  (group {key}: the smallest case is a Compiler-derived frame)")


def run(ctx):
    q = ctx.quick
    bdir = ctx.build("plain", "frame")
    cfgs = enumerate_configs(ctx)
    cp = ctx.path("configs.ndjson")
    vlib.write_ndjson(cp, cfgs)
    op = ctx.path("obs_script.ndjson")
    rc, _, err = vlib.run_harness(ctx, bdir, "frame", ["script", cp, op], timeout=900)
    if rc != 0:
        raise Broken(f"harness frame script rc={rc}: {err[-600:]}")
    op2 = ctx.path("obs_random.ndjson")
    nrand = 1000 if q else 20000
    rc, _, err = vlib.run_harness(ctx, bdir, "frame", ["random", op2, nrand], timeout=900, env={"VERIF_SEED": ctx.seed})
    if rc != 0:
        raise Broken(f"harness frame random rc={rc}: {err[-600:]}")
    op3 = ctx.path("obs_compiler.ndjson")
    rc, _, err = vlib.run_harness(ctx, bdir, "frame", ["compiler", op3], timeout=300)
    if rc != 0:
        raise Broken(f"harness frame compiler rc={rc}: {err[-600:]}")
    counts = {}
    def all_obs():
        for tag, path in (("scripted", op), ("random", op2), ("compiler", op3)):
            n = 0
            for o in stream_obs(path):
                n += 1
                if n <= (2 if tag == "scripted" else 1):
                    ctx.add_sample(describe(o))
                yield o
            counts[tag] = n
    check_observations(ctx, all_obs(), "all")
    if counts["scripted"] != len(cfgs):
        raise Broken(f"harness answered {counts['scripted']} of {len(cfgs)} configurations")
    ctx.extra["configs_random"], ctx.extra["configs_compiler"] = counts["random"], counts["compiler"]
    ctx.log(f"harness: {counts['scripted']} scripted, {counts['random']} random, {counts['compiler']} Compiler-derived frames; "
            f"{ctx.extra['distinct_stack_setter_orders']} distinct orders of the stack setters")
    ctx.assumptions += [
        "harness/frame.cpp executes the recorded setter calls and logs FuncFrame accessors and Builder nodes verbatim (mnemonic, operand shapes); it computes nothing",
        "what a setter sequence promises is FrameMachine!Eff: set_* assigns, update_* takes the maximum, add_dirty adds, set_dirty assigns, set_/reset_ switch an attribute",
        "Compiler-derived functions with many stack-passed arguments: the home slots (RAStackSlot of every work register) are read in on_done() of a pass subclass; "
        "the real body is executed on the machine (arithmetic results are uninterpreted, every store is checked); functions the Compiler refuses are skipped",
        "Compiler-derived frames: the per-field accessors of the frame after the RA pass (call/local size+alignment, dirty sets, FP, calls) are taken as what the pass declared",
        "stack offsets of stack-passed arguments and arg_stack_size come from FuncDetail (their correctness is C06)",
        "standard conventions (preserved sets, natural alignment, red/home zone, callee-pops) are tabulated in FrameMachine.tla from the ABI documents; "
        "LightCall conventions are asmjit-defined and taken from CallConv",
        "a load hits a cell only at the cell's start address (saves and restores use the same slot shape)",
        "alignment is demanded only when the frame declares locals, a call area or calls (a leaf frame without stack use may leave SP unaligned)",
    ]
    vlib.write_evidence(ctx, "model_checking",
        rule="evaluations = configurations executed on the real FuncFrame::finalize/emit_prolog/emit_epilog; distinct = distinct "
             "(frame record, prolog, epilog) triples; every distinct observation is run on the TLA+ machine for every entry-SP residue "
             "mod 64 the convention allows; states/transitions are TLC's own counts over all shards",
        trusted_base=["TLC 1.8.0", "spec/func/FrameMachine.tla (machine semantics + ABI tables)", "harness/frame.cpp (verbatim logging)"],
        exhaustive=False)


def replay(ctx, path):
    """Re-run the recorded configuration(s) on the current tree and validate in strict mode."""
    recs = vlib.read_ndjson(path)
    bdir = ctx.build("plain", "frame")
    cp, op = ctx.path("replay_cfg.ndjson"), ctx.path("replay_obs.ndjson")
    cfgs = [r["cfg"] if "cfg" in r else r for r in recs]
    if any(c.get("src") == "compiler" for c in cfgs):
        rc, _, err = vlib.run_harness(ctx, bdir, "frame", ["compiler", op], timeout=300)     # the Compiler cases are a fixed list
    else:
        vlib.write_ndjson(cp, cfgs)
        rc, _, err = vlib.run_harness(ctx, bdir, "frame", ["script", cp, op], timeout=300)
    if rc != 0:
        raise Broken(f"harness rc={rc}: {err[-400:]}")
    obs = vlib.read_ndjson(op)
    precheck(obs)
    r = run_shard(ctx, "replay", op, "strict", 1, 600)
    ctx.states += r.distinct
    if r.kind == "violation":
        ctx.violation(f"replay: invariant {r.violated} violated", op)
    elif r.kind != "ok":
        raise Broken("replay TLC: " + r.out[-800:])
