"""C19 - constant pool.  Decided by: ConstPoolImpl refines ConstPool (TLC, exhaustive small histories) +
trace validation of the real ConstPool (TLC-generated histories replayed on the code, and long random histories)
against the contract ConstPool.tla."""
import json, os, re
import vlib
from vlib import Broken

SPEC = os.path.join(vlib.VERIF, "spec", "pool")


def tla_seq_to_list(txt):
    # <<1, 2, 3>> nested
    return json.loads(txt.replace("<<", "[").replace(">>", "]"))


def run(ctx):
    q = ctx.quick
    bdir = ctx.build("asan", "constpool")
    # 1. design: the algorithm refines the contract, all histories up to MaxAdds over the colliding alphabet
    cfg = ctx.path("mc.cfg")
    open(cfg, "w").write(open(os.path.join(SPEC, "ConstPoolMC.cfg")).read().replace("MaxAdds = 5", f"MaxAdds = {5 if q else 6}")
                         .replace("MCValues", "MCValues" if q else "MCValuesWide"))
    r = vlib.run_tlc(ctx, os.path.join(SPEC, "ConstPoolMC.tla"), cfg, workers=16, timeout=3000, heap="8g", tag="design")
    vlib.tlc_must_ok(ctx, r, "design (ConstPoolImpl => ConstPool)")
    ctx.log(f"design: {r.distinct} distinct states, refinement + invariants hold")
    ctx.extra["design_states"] = r.distinct

    # 2. behaviours of the model -> scripts for the real code (exhaustive depth 3 + simulation of longer ones)
    scripts = []
    cfg2 = ctx.path("beh.cfg")
    open(cfg2, "w").write("SPECIFICATION Spec\nCONSTANTS\n  Values <- MCValuesWide\n  MaxAdds = 3\nINVARIANT Export\n")
    r = vlib.run_tlc(ctx, os.path.join(SPEC, "ConstPoolMC.tla"), cfg2, workers=8, timeout=600, tag="beh3")
    vlib.tlc_must_ok(ctx, r, "behaviour export depth 3")
    scripts += vlib.parse_beh(r.out)
    nsim = 300 if q else 5000
    cfg3 = ctx.path("sim.cfg")
    open(cfg3, "w").write("SPECIFICATION Spec\nCONSTANTS\n  Values <- MCValuesWide\n  MaxAdds = 14\nINVARIANT Export\n")
    r = vlib.run_tlc(ctx, os.path.join(SPEC, "ConstPoolMC.tla"), cfg3, workers=4, timeout=900, tag="sim",
                     simulate=nsim // 4, depth=15, seed=ctx.seed)
    if r.kind not in ("ok",):
        raise Broken("simulation export failed: " + r.out[-800:])
    scripts += vlib.parse_beh(r.out)
    uniq = {json.dumps(s) for s in scripts}
    scripts = [json.loads(s) for s in sorted(uniq)]
    ctx.log(f"{len(scripts)} distinct model behaviours exported for replay")
    sp = ctx.path("scripts.ndjson")
    vlib.write_ndjson(sp, [{"ops": s} for s in scripts])
    tr = ctx.path("trace_scripts.ndjson")
    vlib.record_trace(ctx, bdir, "constpool", ["script", sp, tr], tr, timeout=600)
    # 3. long random histories
    tr2 = ctx.path("trace_random.ndjson")
    nexec, steps = (150, 60) if q else (1500, 120)
    vlib.record_trace(ctx, bdir, "constpool", ["random", tr2, nexec, steps], tr2, timeout=900, env={"VERIF_SEED": ctx.seed})
    # 4. trace validation
    mod, tcfg = os.path.join(SPEC, "ConstPoolTrace.tla"), os.path.join(SPEC, "ConstPoolTrace.cfg")
    nrec = 0
    for tag, path in (("scripts", tr), ("random", tr2)):
        recs = vlib.read_ndjson(path)
        nrec += len(recs)
        for rec in recs:
            if rec.get("e") == "Add":
                ctx.distinct.add((rec["size"], tuple(rec["data"]), rec.get("off"), rec["r"]))
        rej = vlib.validate_executions(ctx, mod, tcfg, path, tag=tag, timeout=1500, heap="6g")
        for x in rej:
            bad = x["records"][x["index"]] if x["index"] < len(x["records"]) else {"e": "END"}
            ctx.violation(f"trace rejected at event {x['index']} of execution: {json.dumps(bad)[:300]} inv={x['inv']}", x["path"])
        if recs:
            ctx.add_sample({"source": tag, "events": recs[1:4]})
    ctx.evaluations = nrec
    ctx.assumptions += ["harness projection: offsets/sizes/alignment/image bytes read through the public ConstPool API and the emitters' section buffers",
                        "allocation never fails in this check (failure is C15)",
                        "ASan/UBSan build is the environment; an abort truncates the trace and the ABORT line is rejected"]
    vlib.write_evidence(ctx, "model_checking",
        rule="events = Add/Fill/Embed calls executed on the real ConstPool; distinct = distinct (size,data,offset,result) add outcomes; "
             "histories = all model behaviours of depth 3 over 17 colliding values + TLC-simulated depth<=14 behaviours + seeded random histories",
        trusted_base=["TLC 1.8.0", "spec/pool/ConstPool.tla (contract)", "harness/constpool.cpp projection"])


def replay(ctx, path):
    mod, tcfg = os.path.join(SPEC, "ConstPoolTrace.tla"), os.path.join(SPEC, "ConstPoolTrace.cfg")
    # re-execute the recorded calls on the current tree, then validate
    recs = vlib.read_ndjson(path)
    ops = [r["data"] for r in recs if r.get("e") == "Add"]
    bdir = ctx.build("asan", "constpool")
    sp, tr = ctx.path("replay_script.ndjson"), ctx.path("replay_trace.ndjson")
    vlib.write_ndjson(sp, [{"ops": ops}])
    vlib.run_harness(ctx, bdir, "constpool", ["script", sp, tr])
    ok, maxl, r = vlib.validate_trace_file(ctx, mod, tcfg, tr)
    if not ok:
        ctx.violation(f"replay rejected at line {maxl}", tr)
