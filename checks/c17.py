"""C17 - displacement and immediate field codecs are exact for every value.

Decided by TLC on spec/codec/OffsetCodec.tla (Decode / Representable / FieldBits per OffsetType, from the Arm ARM
diagrams and the x86 definition) and spec/codec/A64Imm.tla (DecodeBitMasks, VFPExpandImm, add/sub imm12, move-wide
evaluator, bitfield aliases), bound to the code pointwise in both directions:
  code -> spec : harness/codec.cpp records observations of CodeWriterUtils::write_offset and of a64::Assembler,
                 every observation is an initial state of OffsetCodecObs / A64ImmObs, the invariant is the conformance
                 predicate (TLC -continue; rejected observations are printed as <<"REJECT", line, clause>>);
  spec -> code : A64ImmGen enumerates ALL logical-immediate encodings, all VFPExpandImm values and the 16-bit lane
                 combinations; the harness is fed these (plus all Hamming-distance-1 neighbours).
Spec-level theorems (OffsetCodecMC, ASSUMEs of A64ImmGen) are model checked on the spec alone, and the A64 part of the
spec is validated against llvm-mc (llvm-mc output is pushed through the same conformance predicate; a disagreement is
a broken check, never a finding)."""
import collections, concurrent.futures, json, os, re, subprocess, threading
import vlib
from vlib import Broken

SPEC = os.path.join(vlib.VERIF, "spec", "codec")
OFF_MOD, OFF_CFG = os.path.join(SPEC, "OffsetCodecObs.tla"), os.path.join(SPEC, "OffsetCodecObs.cfg")
IMM_MOD, IMM_CFG = os.path.join(SPEC, "A64ImmObs.tla"), os.path.join(SPEC, "A64ImmObs.cfg")
LLVM_MC = "llvm-mc-14"
_lock = threading.Lock()


def limbs(v):
    return [(v >> (16 * i)) & 0xFFFF for i in range(4)]


def unlimbs(l):
    return sum((x & 0xFFFF) << (16 * i) for i, x in enumerate(l))


def key_of(o, clause):
    if "f" in o:
        f = o["f"]
        return f"offset:{f['t']}:vs{f['vs']}:n{f['n']}:sh{f['sh']}:d{f['d']}:{clause}"
    k = o["k"]
    if k == "rel":
        return f"rel:{o['inst']}:{clause}"
    if k in ("logh", "fp8h"):
        return f"{k}:w{o['w']}:{clause}"
    if k == "logi":
        return f"logi:{o['inst']}:w{o['w']}:{clause}"
    if k == "mov":
        return f"mov:sf{o['sf']}:{clause}"
    if k == "addsub":
        return f"addsub:{o['inst']}:sf{o['sf']}:{'lsl' + str(o['sh']) if o['sh'] >= 0 else 'noshift'}:{clause}"
    if k == "bitfield":
        return f"bitfield:{o['inst']}:{clause}"
    if k == "fmov":
        return f"fmov:{o['inst']}:{clause}"
    return f"{k}:{clause}"


def describe(o):
    if "run" in o:
        return f"displacements q*{o['m']}+{o['r']} for q in {o['lo']}..{o['hi']} answered ok={o['ok']}"
    if "f" in o or o.get("k") == "rel":
        x = unlimbs(o["x"])
        if x >= 1 << 63:
            x -= 1 << 64
        if "f" in o:
            vs, vo = o["f"]["vs"], o["vo"]
            wb = int.from_bytes(bytes(o["b"][vo:vo + vs]), "little")
            wa = int.from_bytes(bytes(o["a"][vo:vo + vs]), "little")
            return f"offset={x} before=0x{wb:0{2*vs}x} ok={o['ok']} after=0x{wa:0{2*vs}x}"
        return f"{o['inst']} displacement={x} ok={o['ok']} words={[hex(w[0] | w[1] << 16) for w in o['words']]}"
    d = {k: v for k, v in o.items() if k not in ("v", "words")}
    if "v" in o:
        d["v"] = hex(unlimbs(o["v"]))
    if "words" in o:
        d["words"] = [hex(w[0] | w[1] << 16) for w in o["words"]]
    return json.dumps(d)


# ----------------------------------------------------------------------------------------------------------------
# pointwise TLC over shards, in parallel JVMs
# ----------------------------------------------------------------------------------------------------------------
def tlc_pointwise(ctx, module, cfg, lines, tag, shards, workers=1, timeout=1500, heap="3g"):
    """lines: list of raw ndjson lines.  Returns list of (obs dict, clause).  Every line is evaluated by TLC."""
    if not lines:
        return []
    shards = max(1, min(shards, (len(lines) + 1999) // 2000))
    parts = [lines[i::shards] for i in range(shards)]
    paths = []
    for i, p in enumerate(parts):
        path = ctx.path(f"{tag}_shard{i}.ndjson")
        with open(path, "w") as f:
            f.write("\n".join(p) + "\n")
        paths.append(path)

    def one(i):
        r = vlib.run_tlc(ctx, module, cfg, workers=workers, timeout=timeout, env={"OBS": paths[i]}, heap=heap,
                         tag=f"{tag}{i}", extra=["-continue"])
        return i, r

    rejects = []
    with concurrent.futures.ThreadPoolExecutor(max_workers=16) as ex:
        for i, r in ex.map(one, range(shards)):
            if r.kind in ("timeout", "error") or "Finished computing initial states" not in r.out:
                raise Broken(f"TLC {tag} shard {i}: kind={r.kind} rc={r.rc}\n" + "\n".join(r.out.splitlines()[-25:]))
            if r.distinct != len(parts[i]):
                raise Broken(f"TLC {tag} shard {i}: {r.distinct} observations evaluated, {len(parts[i])} expected")
            with _lock:
                ctx.states += r.distinct
                ctx.transitions += r.generated
            nviol = len(re.findall(r"Invariant Conforms is violated", r.out))
            rj = re.findall(r'<<"REJECT", (\d+), "([^"]*)">>', r.out)
            if nviol != len(rj):
                raise Broken(f"TLC {tag} shard {i}: {nviol} invariant violations but {len(rj)} REJECT lines")
            for ln, clause in rj:
                rejects.append((json.loads(parts[i][int(ln) - 1]), clause))
    return rejects


def report(ctx, bdir, rejects, module, cfg, what):
    """Group rejected observations by signature; confirm each group by re-executing its examples; report."""
    groups = collections.OrderedDict()
    for o, clause in rejects:
        if clause == "harness":
            raise Broken(f"{what}: malformed observation (precondition not established by the harness): {json.dumps(o)[:300]}")
        groups.setdefault(key_of(o, clause), []).append(o)
    for key, obs in groups.items():
        safe = re.sub(r"[^A-Za-z0-9_.-]", "_", key)
        # replay files live beside (not inside) out/C17: the runner wipes out/C17 on every start, --replay included
        os.makedirs(ctx.out + ".replay", exist_ok=True)
        rp = os.path.join(ctx.out + ".replay", f"reject_{safe}.ndjson")
        ex = obs[:10] + obs[-10:] if len(obs) > 20 else obs
        vlib.write_ndjson(rp, ex)
        # second run: re-execute the same inputs on the code and judge again (a rejection must repeat)
        again = ctx.path(f"reject_{safe}.again.ndjson")
        rc, _, err = vlib.run_harness(ctx, bdir, "codec", ["replay", rp, again], timeout=300)
        if rc != 0:
            raise Broken(f"replay of rejected observations failed rc={rc}: {err[-500:]}")
        rj2 = tlc_pointwise(ctx, module, cfg, [l for l in open(again).read().splitlines() if l], f"confirm_{safe[:40]}", 1)
        if not rj2:
            raise Broken(f"rejection {key} did not repeat on re-execution")
        msg = f"{len(obs)} rejected observation(s), e.g. {describe(obs[0])}"
        if len(obs) > 1:
            msg += f" ... {describe(obs[-1])}"
        ctx.extra.setdefault("rejected_groups", {})[key] = len(obs)
        if key in ctx.known:
            ctx.known_finding(key, ctx.known[key] + f" [{len(obs)} observations in this run]")
        else:
            ctx.violation(f"{key}: {msg}", rp)


# ----------------------------------------------------------------------------------------------------------------
# model validation of the A64 part of the spec against llvm-mc
# ----------------------------------------------------------------------------------------------------------------
def llvm_assemble(lines):
    """Returns list (per input line) of list-of-words or None when llvm-mc rejected the line."""
    src = "\n".join(lines) + "\n"
    p = subprocess.run([LLVM_MC, "-triple=aarch64", "-mattr=+fullfp16", "-show-encoding"], input=src, stdout=subprocess.PIPE,
                       stderr=subprocess.PIPE, text=True, timeout=300)
    bad = set(int(m.group(1)) for m in re.finditer(r"<stdin>:(\d+):\d+: error", p.stderr))
    encs = re.findall(r"encoding: \[([^\]]*)\]", p.stdout)
    res, it = [], iter(encs)
    for n in range(1, len(lines) + 1):
        if n in bad:
            res.append(None)
            continue
        try:
            e = next(it)
        except StopIteration:
            raise Broken("llvm-mc produced fewer encodings than accepted lines:\n" + p.stderr[-800:])
        b = [int(x, 16) for x in e.split(",")]
        w = b[0] | b[1] << 8 | b[2] << 16 | b[3] << 24
        res.append([[w & 0xFFFF, w >> 16]])
    if next(it, None) is not None:
        raise Broken("llvm-mc produced more encodings than accepted lines")
    return res


def fp_text(bits):
    import struct
    return repr(struct.unpack("<d", struct.pack("<Q", bits))[0])


def validate_spec_with_llvm(ctx, logvals, fpvals, seed):
    import random
    rnd = random.Random(seed)
    asm, recs = [], []

    def add(text, rec):
        asm.append(text)
        recs.append(rec)

    for w in (32, 64):
        vals = [v for (ww, v) in logvals if ww == w]
        sample = rnd.sample(vals, 150) + [v ^ (1 << rnd.randrange(w)) for v in rnd.sample(vals, 80)] + [0, (1 << w) - 1]
        r, rn = ("x3", "x5") if w == 64 else ("w3", "w5")
        for v in sample:
            for inst in ("and", "orr", "eor", "ands"):
                add(f"{inst} {r}, {rn}, #0x{v:x}", {"k": "logi", "inst": inst, "w": w, "v": limbs(v)})
            add(f"tst {rn}, #0x{v:x}", {"k": "logi", "inst": "tst", "w": w, "v": limbs(v)})
    for (inst, n, d) in (("b", 26, 2), ("bl", 26, 2), ("b.ne", 19, 2), ("cbz", 19, 2), ("cbnz", 19, 2), ("tbz", 14, 2), ("tbnz", 14, 2),
                         ("adr", 21, 0), ("adrp", 21, 12), ("ldr", 19, 2), ("ldrw", 19, 2), ("ldrsw", 19, 2)):
        lim = 1 << (n + d - 1)
        xs = {0, 4 << d >> 2, -(1 << d), lim - (1 << d), -lim, 1 << d}
        xs |= {rnd.randrange(-lim, lim) & ~((1 << d) - 1) for _ in range(40)}
        # out-of-range / misaligned values are left out: llvm-mc's diagnostics for them are not uniform (some wrap)
        txt = {"b": "b #{}", "bl": "bl #{}", "b.ne": "b.ne #{}", "cbz": "cbz x3, #{}", "cbnz": "cbnz w3, #{}", "tbz": "tbz x3, #37, #{}",
               "tbnz": "tbnz w3, #5, #{}", "adr": "adr x3, #{}", "adrp": "adrp x3, #{}", "ldr": "ldr x3, #{}", "ldrw": "ldr w3, #{}",
               "ldrsw": "ldrsw x3, #{}"}[inst]
        for x in sorted(xs):
            add(txt.format(x), {"k": "rel", "inst": inst, "x": limbs(x & (2**64 - 1))})
    for sf, r, rn, size in ((0, "w3", "w5", 32), (1, "x3", "x5", 64)):
        for inst in ("lsl", "lsr", "asr", "ror"):
            for a in list(range(0, size, 5)) + [size - 1, size]:
                add(f"{inst} {r}, {rn}, #{a}", {"k": "bitfield", "inst": inst, "sf": sf, "a": a, "b": 0})
        for inst in ("ubfx", "sbfx", "bfxil", "ubfiz", "sbfiz", "bfi", "ubfm", "sbfm", "bfm"):
            for _ in range(60):
                a, b = rnd.randrange(0, size + 1), rnd.randrange(0, size + 2)
                add(f"{inst} {r}, {rn}, #{a}, #{b}", {"k": "bitfield", "inst": inst, "sf": sf, "a": a, "b": b})
        for v in [0, 1, 4095, 4096, 4097, 0x5000, 0xFFF000, 0x1000000, 0x801000] + [rnd.randrange(0, 1 << 25) for _ in range(20)]:
            for inst in ("add", "sub", "adds", "subs"):
                add(f"{inst} {r}, {rn}, #{v}", {"k": "addsub", "inst": inst, "sf": sf, "sh": -1, "v": limbs(v)})
            for inst in ("cmp", "cmn"):
                add(f"{inst} {rn}, #{v}", {"k": "addsub", "inst": inst, "sf": sf, "sh": -1, "v": limbs(v)})
    for (w, v, i) in fpvals:
        if w != 64 or i % 3:
            continue
        for inst, reg in (("fmov_d", "d3"), ("fmov_s", "s3"), ("fmov_h", "h3"), ("fmov_2d", "v3.2d"), ("fmov_4s", "v3.4s"), ("fmov_2s", "v3.2s"),
                          ("fmov_8h", "v3.8h"), ("fmov_4h", "v3.4h")):
            add(f"fmov {reg}, #{fp_text(v)}", {"k": "fmov", "inst": inst, "v": limbs(v)})
    for v in (0x1234, 0x12340000, 0x1234 << 32, 0x1234 << 48, 0xFFFFFFFFFFFF1234, 0xFFFF1234FFFFFFFF, 0x00FF00FF00FF00FF, 0xFFFF0000FFFF0000):
        add(f"mov x3, #0x{v:x}", {"k": "mov", "sf": 1, "v": limbs(v)})
    for v in (0x1234, 0x12340000, 0xFFFF1234, 0x00FF00FF, 0xFFFFFFFE):
        add(f"mov w3, #0x{v:x}", {"k": "mov", "sf": 0, "v": limbs(v)})
    out = llvm_assemble(asm)
    lines = []
    nacc = 0
    for rec, words in zip(recs, out):
        rec["ok"] = words is not None
        rec["words"] = words or []
        nacc += rec["ok"]
        if rec["k"] == "mov" and not rec["ok"]:
            continue
        lines.append(json.dumps(rec, separators=(",", ":")))
    rj = tlc_pointwise(ctx, IMM_MOD, IMM_CFG, lines, "llvm", 4)
    if rj:
        raise Broken("spec/codec/A64Imm.tla disagrees with llvm-mc (spec bug, not a finding): " +
                     "; ".join(f"{key_of(o, c)} {describe(o)}" for o, c in rj[:5]))
    ctx.extra["spec_validation_llvm_mc"] = {"lines": len(lines), "accepted_by_llvm": nacc, "disagreements": 0}
    ctx.log(f"spec validation: {len(lines)} llvm-mc results ({nacc} accepted) agree with A64Imm.tla / OffsetCodec.tla")


# ----------------------------------------------------------------------------------------------------------------
def run(ctx):
    q = ctx.quick
    import shutil
    shutil.rmtree(ctx.out + ".replay", ignore_errors=True)
    # plain (unsanitized) build: Support::ror(x, 0) in encode_aarch32_imm shifts by 32 (UB, support.h:322), which a
    # UBSan build turns into an abort for A32_ADR inputs; that is outside C17 and must not break this check.
    bdir = ctx.build("plain", "codec")
    bplain = bdir

    # 1. spec-level theorems of OffsetCodec (in the background; independent of the code)
    design = {}

    def design_job():
        dcfg = ctx.path("design.cfg")
        open(dcfg, "w").write(open(os.path.join(SPEC, "OffsetCodecMC.cfg")).read().replace("Dense = TRUE", "Dense = " + ("FALSE" if q else "TRUE")))
        design["r"] = vlib.run_tlc(ctx, os.path.join(SPEC, "OffsetCodecMC.tla"), dcfg, workers=6,
                                   timeout=1500, tag="design")
    th = threading.Thread(target=design_job)
    th.start()

    # 2. spec -> code: TLC enumerates the architecture's value sets
    gcfg = ctx.path("gen.cfg")
    lane = (ctx.seed * 40503 + 0xBEEF) % 65536
    open(gcfg, "w").write(f"SPECIFICATION Spec\nCONSTANT RandomLane = {lane}\n")
    r = vlib.run_tlc(ctx, os.path.join(SPEC, "A64ImmGen.tla"), gcfg, workers=2, timeout=600, tag="gen")
    vlib.tlc_must_ok(ctx, r, "A64ImmGen (enumeration + theorems Counts/FPSameNumber/FPShape/Literals)")
    logvals, fpvals, movvals = set(), [], []
    nenc = collections.Counter()
    for ln in r.out.splitlines():
        if ln.startswith('<<"LOG"'):
            a = json.loads(ln.replace("<<", "[").replace(">>", "]"))
            logvals.add((a[1], unlimbs(a[2])))
            nenc[a[1]] += 1
        elif ln.startswith('<<"FP8"'):
            a = json.loads(ln.replace("<<", "[").replace(">>", "]"))
            fpvals.append((a[1], unlimbs(a[2]), a[3]))
        elif ln.startswith('<<"MOV"'):
            a = json.loads(ln.replace("<<", "[").replace(">>", "]"))
            movvals.append(unlimbs(a[1]))
    n64, n32 = sum(1 for w, _ in logvals if w == 64), sum(1 for w, _ in logvals if w == 32)
    if (n64, n32, len(fpvals), len(movvals)) != (5334, 1302, 768, 256) or nenc[64] != 7680 or nenc[32] != 3648:
        raise Broken(f"enumeration incomplete: {n64} {n32} {len(fpvals)} {len(movvals)} {dict(nenc)}")
    ctx.log(f"TLC enumerated {nenc[64]}/{nenc[32]} valid logical encodings = {n64}/{n32} distinct 64/32-bit values, 768 fp8 values, 256 lane constants")
    logvals = sorted(logvals)
    vlib.write_ndjson(ctx.path("feed_log.ndjson"), [{"w": w, "v": limbs(v)} for w, v in logvals])
    vlib.write_ndjson(ctx.path("feed_fp8.ndjson"), [{"w": w, "v": limbs(v), "i": i} for w, v, i in fpvals])
    vlib.write_ndjson(ctx.path("feed_mov.ndjson"), [{"v": limbs(v)} for v in movvals])

    # 3. model validation of the spec against llvm-mc
    validate_spec_with_llvm(ctx, logvals, fpvals, ctx.seed)

    # 4. code -> spec: observations of the real code
    env = {"VERIF_SEED": ctx.seed}
    jobs = [("offsets", ["observe", "offsets", ctx.path("obs_offsets.ndjson"), 300 if q else 20000]),
            ("rel", ["observe", "rel", ctx.path("obs_rel.ndjson"), 300 if q else 20000]),
            ("addsub", ["observe", "addsub", ctx.path("obs_addsub.ndjson")]),
            ("bitfield", ["observe", "bitfield", ctx.path("obs_bitfield.ndjson")]),
            ("logical", ["feed", "logical", ctx.path("feed_log.ndjson"), ctx.path("obs_logical.ndjson"), 64 if q else 4]),
            ("fp8", ["feed", "fp8", ctx.path("feed_fp8.ndjson"), ctx.path("obs_fp8.ndjson")]),
            ("mov", ["feed", "mov", ctx.path("feed_mov.ndjson"), ctx.path("obs_mov.ndjson"), 3000 if q else 100000])]
    files = {}
    for name, args in jobs:
        rc, _, err = vlib.run_harness(ctx, bdir, "codec", args, timeout=1200, env=env)
        if rc != 0:
            raise Broken(f"harness codec {' '.join(map(str, args[:2]))} failed rc={rc}: {err[-1500:]}")
        outp = args[2] if args[0] == "observe" else args[3]
        files[name] = [l for l in open(outp).read().splitlines() if l]
        if any('"e":"ABORT"' in l for l in files[name][-2:]):
            raise Broken(f"harness aborted (sanitizer) during {name}: {err[-1500:]}")
    counts = {k: len(v) for k, v in files.items()}
    ctx.log(f"observations: {counts}")
    ctx.extra["observations"] = counts

    # 5. TLC judges every observation
    off_rej = tlc_pointwise(ctx, OFF_MOD, OFF_CFG, files["offsets"], "off", 16)
    ctx.log(f"offset observations judged: {len(files['offsets'])}, rejected {len(off_rej)}")
    imm_lines = [l for k in ("rel", "addsub", "bitfield", "logical", "fp8", "mov") for l in files[k]]
    imm_rej = tlc_pointwise(ctx, IMM_MOD, IMM_CFG, imm_lines, "imm", 16)
    ctx.log(f"a64 immediate / instruction observations judged: {len(imm_lines)}, rejected {len(imm_rej)}")

    # 6. thorough: exhaustive decision function (run-length coded) for every format with n + d <= maxbits
    run_lines, run_rej = [], []
    if not q:
        maxbits = int(os.environ.get("C17_RUN_BITS", "28"))
        rp = ctx.path("obs_runs.ndjson")
        rc, _, err = vlib.run_harness(ctx, bplain, "codec", ["observe", "runs", rp, maxbits, 1 << 17], timeout=1500)
        if rc != 0:
            raise Broken(f"harness runs failed rc={rc}: {err[-500:]}")
        m = re.search(r"calls=(\d+)", err)
        run_lines = [l for l in open(rp).read().splitlines() if l]
        run_rej = tlc_pointwise(ctx, OFF_MOD, OFF_CFG, run_lines, "runs", 16, timeout=1700)
        covered = sum(json.loads(l)["hi"] - json.loads(l)["lo"] + 1 for l in run_lines)
        ctx.extra["exhaustive_decision"] = {
            "max_field_plus_discard_bits": maxbits, "displacements_decided_by_TLC": covered, "write_offset_calls": int(m.group(1)) if m else None,
            "formats": sorted({json.dumps(json.loads(l)["f"], sort_keys=True) for l in run_lines}),
            "note": "decision ok<=>Representable for EVERY displacement of the representable hull +-64 steps, all residues modulo 2^discard; "
                    "A32_ADR (32-bit modified immediate) and fields wider than 29 bits are sampled only"}
        ctx.evaluations += covered
        ctx.log(f"exhaustive decision sweep: {covered} displacements in {len(run_lines)} runs, rejected runs {len(run_rej)}")

    th.join()
    vlib.tlc_must_ok(ctx, design["r"], "OffsetCodecMC (RoundTrip/FieldOnly/Sound/Tight/IntAgrees)")
    ctx.extra["design_formats_checked"] = design["r"].distinct
    ctx.log(f"spec-level theorems hold on {design['r'].distinct} format states")

    # 7. classify
    report(ctx, bdir, off_rej + run_rej, OFF_MOD, OFF_CFG, "offset codec")
    report(ctx, bdir, imm_rej, IMM_MOD, IMM_CFG, "a64 immediates")

    ctx.evaluations += len(files["offsets"]) + len(imm_lines)
    for l in files["offsets"] + imm_lines:
        pass
    seen = set()
    for name, ls in files.items():
        for l in ls:
            o = json.loads(l)
            if "f" in o:
                ctx.distinct.add(("off", o["f"]["t"], o["f"]["vs"], o["f"]["n"], o["f"]["sh"], o["f"]["d"], tuple(o["x"])))
            else:
                ctx.distinct.add((o["k"], o.get("inst"), o.get("w", o.get("sf")), tuple(o.get("v", o.get("x", (o.get("a"), o.get("b")))))))
            if name not in seen:
                seen.add(name)
                ctx.add_sample({"source": name, "observation": o}, limit=8)
    ctx.traces = 0
    ctx.assumptions += [
        "write_offset ORs the field into the word: the field bits of `before` are zero (what the assemblers emit); all other bits random; the spec re-checks this precondition",
        "T32/A32 formats have no in-tree backend: their parameters (bit count, discard) are the ones fixup.h documents; T32 words are hw1:hw2 as drawn in the Arm ARM",
        "INT64_MIN is not fed to sign+magnitude formats (negation overflows; no such displacement exists on a 32-bit target)",
        "a64 instruction-level observations use Rd=3, Rn=5, tbz bit 37/5, b.ne; pc-relative forms are assembled at base 0x4000000000 with absolute targets (EmitOp_DispImm) and literal loads through [label, #off]",
        "observed code is the plain -O1 build (a UBSan build aborts in Support::ror(x,0) reached from encode_aarch32_imm, unrelated to C17)",
    ]
    vlib.write_evidence(
        ctx, "model_checking",
        rule="evaluations = observations of the real code judged by TLC (one initial state each) + displacements covered by run-length coded "
             "exhaustive sweeps (thorough); distinct = distinct (format|instruction, value) inputs; states/transitions from TLC summaries",
        explanation="pointwise conformance checking: the TLA+ specs are pure functions (no behaviours beyond one step); TLC evaluates the conformance "
                    "invariant on every observation as an initial state and model-checks the spec-level theorems on the spec alone",
        exhaustive=False,
        trusted_base=["TLC", "spec/codec/OffsetCodec.tla + A64Imm.tla (validated against llvm-mc 14 for A64; T32/A32 diagrams from the Arm ARM, unvalidated by a tool)",
                      "harness/codec.cpp (records inputs/outputs, clears field bits of `before`)"])


def replay(ctx, path):
    bdir = ctx.build("plain", "codec")
    again = ctx.path("replay.again.ndjson")
    rc, _, err = vlib.run_harness(ctx, bdir, "codec", ["replay", path, again], timeout=600)
    if rc != 0:
        raise Broken(f"harness replay failed rc={rc}: {err[-800:]}")
    lines = [l for l in open(again).read().splitlines() if l]
    off = [l for l in lines if '"f":' in l]
    imm = [l for l in lines if '"f":' not in l]
    rej = tlc_pointwise(ctx, OFF_MOD, OFF_CFG, off, "replay_off", 1) + tlc_pointwise(ctx, IMM_MOD, IMM_CFG, imm, "replay_imm", 1)
    for o, clause in rej:
        ctx.violation(f"{key_of(o, clause)}: {describe(o)}", again)
        break
    ctx.evaluations = len(lines)
