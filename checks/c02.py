"""C02 - the AArch64 assembler emits a correct encoding of every instruction it accepts.

Decided by TLC on spec/isa/A64Enc.tla (Matches / Refused, written from the Arm ARM encoding rules and parameterised by
the bit templates of db/isa_aarch64.json exported by tools/db_export_a64.js), bound to the code POINTWISE:

  sweep    this file instantiates every exported database row x register ids x SP/ZR x arrangements/lanes x shift /
           extend kinds and amounts x addressing modes and boundary offsets x immediates at their limits (one
           dimension at a time around a baseline plus seeded random combinations);
  code     harness/a64sweep.cpp executes each case on the real a64::Assembler through emit_op_array(inst id, operands)
           and records (error, appended words);
  llvm-mc  the same case is rendered to assembly text by the printer below (driven by the operand descriptors only,
           never asmjit's formatter) and assembled by llvm-mc-14, thousands of lines per invocation;
  TLC      every observation (row candidates, operands, asmjit answer, llvm-mc answer) is an initial state of
           spec/isa/A64EncObs.tla; the invariant is evaluated on all of them (sharded JVMs).

Verdict.  TLC evaluates `ok => Matches(row, ops, word)` and `Refused(row, ops) => ~ok` for asmjit's answer AND for
llvm-mc's answer.  A rejection of asmjit's answer is a VIOLATION only when the independent assembler corroborates the
specification on the very same operands (its word matches the template / it refuses the text as well).  Where the spec
rejects both assemblers, or only llvm-mc, the row/clause is listed in the evidence as `unjudged` (database row or
field rule contradicted by an independent assembler - never reported as a violation)."""
import collections, concurrent.futures, json, os, random, re, struct, subprocess, threading, time
import vlib
from vlib import Broken

SPEC = os.path.join(vlib.VERIF, "spec", "isa")
OBS_MOD, OBS_CFG = os.path.join(SPEC, "A64EncObs.tla"), os.path.join(SPEC, "A64EncObs.cfg")
LLVM_MC = "llvm-mc-14"
MATTR = ("+v8.8a,+v9.3a,+neon,+fp-armv8,+fullfp16,+fp16fml,+crc,+lse,+rdm,+dotprod,+sha3,+sm4,+aes,+sha2,+crypto,+bf16,+i8mm,+mte,"
         "+pauth,+rcpc,+rcpc-immo,+flagm,+altnzcv,+fptoint,+jsconv,+complxnum,+mops,+ls64,+lor,+sb,+ssbs,+predres,+bti,+rand,+tme,"
         "+wfxt,+xs,+hbc,+brbe,+spe,+ras,+ccdp,+ccpp,+tlb-rmi,+pan,+pan-rwv,+uaops,+dit,+sel2,+tracev8.4,+am,+nv,+ccidx")
_lock = threading.Lock()
M64 = (1 << 64) - 1
COND = ["eq", "ne", "cs", "cc", "mi", "pl", "vs", "vc", "hi", "ls", "ge", "lt", "gt", "le", "al", "nv"]
ESZ = {"B": 0, "H": 1, "S": 2, "D": 3, "Q": 4}
LDUR_OF = {"ldr": "ldur", "ldrb": "ldurb", "ldrh": "ldurh", "ldrsb": "ldursb", "ldrsh": "ldursh", "ldrsw": "ldursw",
           "str": "stur", "strb": "sturb", "strh": "sturh", "prfm": "prfum"}


def limbs(v):
    v &= M64
    return [(v >> (16 * i)) & 0xFFFF for i in range(4)]


def word_of(w):
    return w[0] | (w[1] << 16)


# ----------------------------------------------------------------------------------------------------------------
# rows
# ----------------------------------------------------------------------------------------------------------------
def inst_ids(repo):
    """name -> {'gp': id, 'v': id} from the public enum a64::Inst::Id (ordinal = value; kIdNone = 0)."""
    txt = open(os.path.join(repo, "asmjit", "arm", "a64globals.h")).read()
    m = re.search(r"\$\{InstId:Begin\}(.*?)\$\{InstId:End\}", txt, re.S)
    if not m:
        raise Broken("cannot find the Inst::Id enum in a64globals.h")
    res, n = {}, 0
    for ln in m.group(1).splitlines():
        q = re.match(r"\s*(kId\w+)\s*(?:=\s*0)?\s*,\s*//!< Instruction '([^']*)'", ln)
        if q:
            if q.group(2):
                res.setdefault(q.group(2), {})["v" if q.group(1).endswith("_v") else "gp"] = n
            n += 1
        elif re.match(r"\s*_kIdCount", ln):
            break
    return res


def load_rows(ctx, repo):
    rp = ctx.path("rows.json")
    p = subprocess.run(["node", os.path.join(vlib.VERIF, "tools", "db_export_a64.js"), os.path.join(repo, "db", "isa_aarch64.json"), rp],
                       capture_output=True, text=True, timeout=120)
    if p.returncode != 0:
        raise Broken("db_export_a64.js failed: " + p.stderr[-800:])
    return json.load(open(rp))


def is_vec_row(r):
    def v(o):
        return o["k"] in ("vs", "va", "ve") or (o["k"] == "list" and o["elem"]["k"] in ("va", "ve"))
    return any(v(o) for o in r["ops"])


# ----------------------------------------------------------------------------------------------------------------
# operand values
# ----------------------------------------------------------------------------------------------------------------
def R(t, i, sp=0):
    return {"k": "r", "t": t, "id": i, "sp": sp}


def V(t, i, arr="", ei=-1):
    return {"k": "v", "t": t, "id": i, "arr": arr, "ei": ei}


def I(v):
    big = 0 if -(1 << 30) < v < (1 << 30) else 1
    return {"k": "i", "v": v if not big else 0, "big": big, "l": limbs(v)}


def S(op, amt=-1):
    return {"k": "s", "op": op, "amt": amt}


ABSENT = {"k": "-"}


def Mem(b=5, bsp=0, mode="o", off=0, xi=-1, xt="", xsp=0, sh="", amt=-1):
    return {"k": "m", "b": b, "bsp": bsp, "mode": mode, "off": off, "xi": xi, "xt": xt, "xsp": xsp, "sh": sh, "amt": amt}


def decode_bit_masks(N, imms, immr, M):
    """only used to GENERATE interesting inputs (never to judge)"""
    c = (N << 6) | (~imms & 63)
    ln = c.bit_length() - 1
    if ln < 1 or M < (1 << ln):
        return None
    lev = (1 << ln) - 1
    s, r, es = imms & lev, immr & lev, 1 << ln
    if s == lev:
        return None
    e = (1 << (s + 1)) - 1
    e = ((e >> r) | (e << (es - r))) & ((1 << es) - 1)
    v = 0
    for k in range(M // es):
        v |= e << (k * es)
    return v


def logical_samples(M, rnd, n):
    enc = [(N, r, s) for N in (0, 1) for r in range(64) for s in range(64) if decode_bit_masks(N, s, r, M) is not None]
    vals = sorted({decode_bit_masks(N, s, r, M) for (N, r, s) in enc})
    top = (1 << M) - 1
    corners = [1, 1 << (M - 1), top >> 1, top - 1, 0x5555555555555555 & top, 0xAAAAAAAAAAAAAAAA & top, 0x00FF00FF00FF00FF & top,
               0xFFFF0000FFFF0000 & top, 0x0000FFFF, 0xFFFFFFFE & top, 0x80000001, (0x8000000000000001 & top), 0xF000000F, 3 << (M - 2),
               0x0101010101010101 & top, 0xFEFEFEFEFEFEFEFE & top, 0x7FFF7FFF7FFF7FFF & top, 0x00000001FFFFFFFF & top, 0xFFFFFFFF00000000 & top]
    bad = [0, top, 0x1234, 0x5A5A5A5B & top, 0x0000000100000002 & top, 5, 0xFFFF0001]
    out = [v for v in corners if v in set(vals)] + bad + rnd.sample(vals, min(n, len(vals)))
    out += [v ^ (1 << rnd.randrange(M)) for v in rnd.sample(vals, min(n // 2, len(vals)))]
    return out


def fp8_value(i):
    a, bcd, efgh = (i >> 7) & 1, (i >> 4) & 7, i & 15
    b = (bcd >> 2) & 1
    exp = ((1 - b) << 10) | ((0xFF if b else 0) << 2) | (bcd & 3)
    return (a << 63) | (exp << 52) | (efgh << 48)


class Gen:
    def __init__(self, rows, ids, quick, seed):
        self.rows, self.ids, self.quick = rows, ids, quick
        self.rnd = random.Random(seed)
        self.gp_ids = [0, 1, 15, 16, 29, 30] if quick else list(range(31))
        self.v_ids = [0, 1, 15, 16, 30, 31] if quick else list(range(32))
        self.log = {32: logical_samples(32, self.rnd, 24 if quick else 400), 64: logical_samples(64, self.rnd, 30 if quick else 800)}
        self.byname = collections.defaultdict(list)
        for r in rows:
            for n in r["names"]:
                self.byname[n].append(r)
        self.allbyname = collections.defaultdict(list)      # every database row of a mnemonic (also rows without field rules)
        self.opaque = set()                                  # mnemonics with a row whose operand signature could not be parsed

    def index_all(self, rows_all):
        for r in rows_all:
            for n in r["names"]:
                if "ops" in r and "ov" in r:
                    self.allbyname[n].append(r)
                else:
                    self.opaque.add(n)

    ARRS = ["8B", "16B", "4H", "8H", "2S", "4S", "1D", "2D"]

    def perturbations(self, row, base):
        """operand lists with the KINDS of the row but another element type / arrangement / lane access / register view / width.
        Nothing here says what is legal: whatever the assembler accepts is judged (AcceptedDenotesRow)."""
        out = []
        vpos = [k for k, v in enumerate(base) if v["k"] == "v"]
        gpos = [k for k, v in enumerate(base) if v["k"] == "r" and "ids" not in v]

        def vec(v, t, arr, ei):
            d = dict(v)
            d.update({"t": t, "arr": arr, "ei": ei})
            return d
        forms = [("v", a, -1) for a in self.ARRS] + [(t, "", -1) for t in "bhsdq"] + [("v", e, 1) for e in "BHSD"]
        if not self.quick:
            forms += [("v", "2H", -1), ("v", "4B", -1)] + [("v", e, 0) for e in "BHSD"]
        for k in vpos:                                       # one operand at a time
            for t, a, ei in forms:
                if "ids" in base[k] and t != "v":
                    continue
                c = list(base)
                c[k] = vec(base[k], t, a, ei)
                out.append(c)
        if len(vpos) > 1:                                    # all vector operands together
            for t, a, ei in forms:
                if ei >= 0 or any("ids" in base[k] and t != "v" for k in vpos):
                    continue
                c = list(base)
                for k in vpos:
                    c[k] = vec(base[k], t, a, -1)
                out.append(c)
            for e in "BHSD":                                 # last vector operand by element, the others in every arrangement of that element
                for a in self.ARRS:
                    if a[-1] != e:
                        continue
                    c = list(base)
                    for k in vpos[:-1]:
                        if "ids" not in base[k]:
                            c[k] = vec(base[k], "v", a, -1)
                    if "ids" not in base[vpos[-1]]:
                        c[vpos[-1]] = vec(base[vpos[-1]], "v", e, 1)
                        out.append(c)
        flip = {"w": "x", "x": "w"}
        for k in gpos:
            c = list(base)
            c[k] = dict(base[k], t=flip[base[k]["t"]])
            out.append(c)
        if len(gpos) > 1:
            c = list(base)
            for k in gpos:
                c[k] = dict(base[k], t=flip[base[k]["t"]])
            out.append(c)
        return out

    def view_alternatives(self, name, ops):
        """other writings of the SAME registers (same register number, same register width, no lane):
             v<n>.<arrangement> of 64/128/32 bits  =  d<n> / q<n> / s<n>      (e.g. v3.1d is d3, ldr v3.8b is ldr d3)
             untyped d<n> / q<n>                   =  v<n>.8b / v<n>.16b      (bytewise operations: and, bic, cnt, ext, rev16 ...)
             a single arranged register            =  the one-register list { v<n>.<T> }   (ld1/st1 API form)"""
        WID = {"8B": "d", "4H": "d", "2S": "d", "1D": "d", "16B": "q", "8H": "q", "4S": "q", "2D": "q", "2H": "s", "4B": "s"}
        vpos = [k for k, v in enumerate(ops) if v["k"] == "v" and "ids" not in v and v["ei"] < 0]
        cands = []
        if 0 < len(vpos) <= 4:
            import itertools
            for mask in itertools.product((0, 1), repeat=len(vpos)):
                if not any(mask):
                    continue
                c, okc = list(ops), True
                for m, k in zip(mask, vpos):
                    if m:
                        v = ops[k]
                        if v["t"] == "v" and v["arr"] in WID:
                            c[k] = dict(v, t=WID[v["arr"]], arr="")
                        else:
                            okc = False
                if okc:
                    cands.append(c)
            c = [dict(v, t="v", arr={"d": "8B", "q": "16B"}[v["t"]]) if k in vpos and v["t"] in "dq" else v for k, v in enumerate(ops)]
            if c != ops:
                cands.append(c)
            c = [dict(v, ids=[v["id"]]) if k in vpos and v["t"] == "v" else v for k, v in enumerate(ops)]
            if c != ops:
                cands.append(c)
        alts = []
        for c in cands:
            okr, _ = self.fit_any(name, c)
            if okr:
                alts.append({"rs": okr, "o": c})
        return alts

    def fit_any(self, name, ops):
        """(rows with field rules that fit, does a row WITHOUT rules fit)"""
        okr, other = [], False
        for r in self.allbyname[name]:
            if self.fits(r, ops):
                if r.get("ok"):
                    okr.append(r["ix"])
                else:
                    other = True
        return okr, other

    # -- grids ---------------------------------------------------------------------------------------------------
    def gp_grid(self, w, base):
        g = [R(w, base)] + [R(w, i) for i in self.gp_ids if i != base] + [R(w, 31, 0), R(w, 31, 1), R(w, 33)]
        return g

    def rules_of(self, row, pos):
        return [f for f in row["f"] if f["a"] == pos]

    def esize_options(self, row):
        """list of dicts {position: arrangement} the row's vector operands can take"""
        res = []
        if row.get("tlist"):
            for e in row["tlist"]:
                d = {}
                for k, ov in enumerate(row["ov"]):
                    if ov:
                        d[k] = e[1] if ov == "tb" else e[0]
                res.append(d)
        return res or [{}]

    def min_esize(self, row, arrs):
        es = []
        for k, o in enumerate(row["ops"]):
            e = o["elem"] if o["k"] == "list" else o
            if e["k"] == "vs":
                es.append(ESZ[e["t"].upper()])
            elif e["k"] == "va":
                a = arrs.get(k, e["arr"])
                m = re.match(r"\d+([BHSDQ])$", a)
                if m:
                    es.append(ESZ[m.group(1)])
            elif e["k"] == "ve":
                es.append(ESZ.get(e["et"][-1], 0))
        return min(es) if es else 0

    def imm_grid(self, row, pos, o, arrs):
        rules = self.rules_of(row, pos + 1)
        rn = rules[0]["rule"] if rules else ""
        f = rules[0] if rules else None
        rnd = self.rnd
        if rn in ("imm_u", "imm_u_opt"):
            p = f["p"]
            top = (1 << p) - 1
            g = [min(5, top), 0, 1, top, top + 1, -1, top // 2 + 1, 2 * top + 1]
            if rn == "imm_u_opt":
                return [I(x) for x in g] + [ABSENT]
            return [I(x) for x in g]
        if rn == "imm_s":
            p = f["p"]
            lo, hi = -(1 << (p - 1)), (1 << (p - 1)) - 1
            return [I(x) for x in (3, 0, -1, lo, lo - 1, hi, hi + 1, -5)]
        if rn == "imm_u_lt":
            p = f["p"]
            return [I(x) for x in (3, 0, 1, p - 1, p, p + 1, p // 2, p // 2 + 1, 2 * p - 1, 2 * p + 3, -1)]
        if rn == "imm_fixed":
            return [I(f["p"]), I(f["p"] + 1)]
        if rn == "sysreg16":     # SysReg::encode(op0, op1, CRn, CRm, op2) of the public API: op0:op1:CRn:CRm:op2 (16 bits, op0<1> = 1)
            enc = lambda a, b, c, d, e: (a << 14) | (b << 11) | (c << 7) | (d << 3) | e
            vals = [enc(3, 3, 13, 0, 2), 0x8000, 0xFFFF, enc(2, 0, 0, 2, 2), enc(3, 0, 1, 0, 0), enc(3, 7, 15, 15, 7), enc(2, 7, 15, 15, 7), enc(3, 4, 2, 0, 1),
                    0x7FFF, 0x10000, 0, enc(1, 0, 7, 5, 0)]
            return [dict(I(v), sys=1) for v in vals]
        if rn == "logimm13":
            return [I(v) for v in self.log[f["p"]]]
        if rn == "fbits_scale":
            p = f["p"]
            return [I(x) for x in (3, 1, p, p + 1, 0, p // 2, 64, 65)]
        if rn in ("simd_sh_h", "simd_sh_b"):
            es = 8 << self.min_esize(row, arrs)
            return [I(x) for x in (1, 0, es - 1, es, es + 1, 2 * es - 1, 2 * es, es // 2, 3)]
        return [I(0), I(1), I(-1), I(7), I(255), I(65536)]

    # -- cases for one row ---------------------------------------------------------------------------------------
    def slots(self, row, arrs):
        """list of slots; a slot = (positions, [value tuples]); first tuple = baseline"""
        ops = row["ops"]
        slots = []
        skip = set()
        name = row["names"][0]
        base_ids = [3, 5, 7, 9, 11, 13]
        rw = 64 if any(o["k"] == "gp" and o["w"] == "x" for o in ops) else 32
        q = self.quick
        for k, o in enumerate(ops):
            if k in skip:
                continue
            bid = base_ids[k % 6]
            kind = o["k"]
            if kind == "gp":
                w = o["w"]
                nxt = ops[k + 1] if k + 1 < len(ops) else None
                if nxt and nxt["k"] == "mod" and nxt.get("ext"):
                    # Rm + extend: register width follows the extend kind (Arm ARM: X only for UXTX/SXTX/LSL in the 64-bit form)
                    vals = []
                    for op in ["uxtw", "uxtb", "uxth", "uxtx", "sxtb", "sxth", "sxtw", "sxtx", "lsl"]:
                        for amt in (-1, 0, 1, 4, 5):
                            t = "x" if (rw == 64 and op in ("uxtx", "sxtx", "lsl")) else "w"
                            vals.append((R(t, bid), S(op, amt)))
                    vals.insert(1, (R("x" if rw == 64 else "w", bid), ABSENT))
                    for i in self.gp_ids[:4] + [31]:
                        vals.append((R("w", i), S("uxtw", 2)))
                    slots.append(((k, k + 1), vals))
                    skip.add(k + 1)
                    continue
                if w == "r":
                    w = "x"
                slots.append(((k,), [(x,) for x in self.gp_grid(w, bid)]))
            elif kind == "vs":
                slots.append(((k,), [(V(o["t"], i),) for i in [bid] + [i for i in self.v_ids if i != bid] + [33]]))
            elif kind == "va":
                arr = arrs.get(k, o["arr"])
                slots.append(((k,), [(V("v", i, arr),) for i in [bid] + [i for i in self.v_ids if i != bid] + [33]]))
            elif kind == "ve":
                et = o["et"]
                mx = {"B": 15, "H": 7, "S": 3, "D": 1, "4B": 3, "2H": 3}[et]
                if o.get("idx"):
                    idxs = list(range(min(mx + 2, 16)))      # (the operand signature holds a 4-bit lane number)
                else:
                    idxs = [o["fixed"], 1 - o["fixed"] if o["fixed"] in (0, 1) else 0]
                vals = [(V("v", bid, et, i),) for i in idxs] + [(V("v", i, et, idxs[min(1, len(idxs) - 1)]),) for i in self.v_ids + [33]]
                slots.append(((k,), vals))
            elif kind == "list":
                e = o["elem"]
                n = o["n"]
                firsts = [bid, 0, 15, 30, 31, 32 - n] if e["k"] != "gp" else [4, 0, 2, 28, 30, 5]
                vals = []
                for f0 in firsts:
                    if e["k"] == "gp":
                        ids = [f0 + j for j in range(n)]
                        vals.append(({"k": "r", "t": e["w"], "id": f0, "sp": 0, "ids": ids},))
                    else:
                        ids = [(f0 + j) % 32 for j in range(n)]
                        if e["k"] == "va":
                            d = V("v", f0, arrs.get(k, e["arr"]))
                        else:
                            d = V("v", f0, e["et"], 0)
                        d["ids"] = ids
                        vals.append((d,))
                if n > 1:                                  # a non-consecutive list must be refused
                    bad = json.loads(json.dumps(vals[0][0]))
                    bad["ids"][1] = (bad["ids"][1] + 1) % (31 if e["k"] == "gp" else 32)
                    vals.append((bad,))
                if e["k"] == "ve":
                    mx = {"B": 15, "H": 7, "S": 3, "D": 1}[e["et"]]
                    for i in range(1, min(mx + 2, 16)):
                        d = json.loads(json.dumps(vals[0][0]))
                        d["ei"] = i
                        vals.append((d,))
                slots.append(((k,), vals))
            elif kind == "cond":
                slots.append(((k,), [({"k": "c", "c": c},) for c in [1, 0] + list(range(2, 16))]))
            elif kind == "cc":
                slots.append(((k,), [({"k": "cc", "c": c},) for c in [1, 0] + list(range(2, 14)) + [15]]))
            elif kind == "rel":
                f = self.rules_of(row, k + 1)[0]
                p, w_ = f["p"], f["q"]
                if f["rule"] == "rel_page":
                    p = 4096
                hi = ((1 << (w_ - 1)) - 1) * p
                lo = -(1 << (w_ - 1)) * p
                xs = [8 * (p // 4 if p >= 4 else 1), 0, p, -p, hi, hi + p, lo, lo - p, p // 2 if p > 1 else 1, 1 if p > 1 else 3, 5 * p, -7 * p]
                xs = [x for x in xs if -(1 << 30) < x < (1 << 30)]
                pg = 1 if f["rule"] == "rel_page" else 0
                vals = [({"k": "l", "v": x, "page": pg},) for x in xs]
                # the same targets given as a LABEL: bound before the instruction (backward, resolved at emit time) and after it
                # (forward, resolved by the fixup at bind time); distances up to the format limits (capped at 2 MiB of padding)
                cap = 1 << 21
                step = p
                back = [0, step, 2 * step, 1024 * step if 1024 * step <= cap else 256 * step, min(-lo, cap), min(-lo, cap) + step]
                fwd = [step, 2 * step, 7 * step, min(hi, cap), min(hi, cap) + step]
                if p > 1 and not pg:
                    back.append(p // 2)          # label at a misaligned distance: must be refused
                    fwd.append(p + p // 2)
                for d in back:
                    pc_ = d + 8
                    vals.append(({"k": "l", "v": -d, "page": pg, "lab": 1, "lpos": pc_ - d, "pc": pc_},))
                for d in fwd:
                    vals.append(({"k": "l", "v": d, "page": pg, "lab": 1, "lpos": 12 + d, "pc": 12},))
                slots.append(((k,), vals))
            elif kind == "fimm":
                good = [fp8_value(i) for i in ([0x70, 0x00, 0xFF, 0x80, 0x7F, 0x3C, 0xC1, 0x0F] + ([] if q else list(range(0, 256, 7))))]
                bad = [0, 1 << 63, fp8_value(0x70) | 1, fp8_value(0x70) | (1 << 47), 0x7FF0000000000000, fp8_value(0x7F) + (1 << 52), 0x3FF8000000000001]
                slots.append(((k,), [({"k": "f", "l": limbs(v)},) for v in good + bad]))
            elif kind == "imm":
                nxt = ops[k + 1] if k + 1 < len(ops) else None
                rules = self.rules_of(row, k + 1)
                rn = rules[0]["rule"] if rules else ""
                if rn in ("addsub_imm12", "addsub_sh"):
                    vals = []
                    for v in (5, 0, 1, 4095, 4096, 4097, 0x5000, 0xFFF000, 0x1000000, 0x801000, -1, -4096, 1 << 33):
                        vals.append((I(v), ABSENT))
                    for v in (5, 0, 4095, 4096, 0x5000):
                        for m in (S("lsl", 0), S("lsl", 12), S("lsl", 1), S("lsl", 24), S("lsr", 12)):
                            vals.append((I(v), m))
                    slots.append(((k, k + 1), vals))
                    skip.add(k + 1)
                    continue
                if nxt and nxt["k"] == "mod" and any(f["rule"] == "hw" for f in row["f"]):
                    vals = [(I(v), ABSENT) for v in (0x1234, 0, 0xFFFF, 0x10000, -1)]
                    for sh in (0, 16, 32, 48, 64, 8, 17):
                        for v in (0x1234, 0xFFFF):
                            vals.append((I(v), S("lsl", sh)))
                    vals.append((I(1), S("lsr", 16)))
                    slots.append(((k, k + 1), vals))
                    skip.add(k + 1)
                    continue
                if rn in ("bf_immr", "bf_imms"):
                    size = rules[0]["p"]
                    second = rules[0]["b"] != 0
                    if not second:
                        vals = [(I(a),) for a in (3, 0, 1, size - 1, size, size + 1, size // 2, 2 * size - 1, -1, 64, 65)]
                        slots.append(((k,), vals))
                    else:
                        prs = [(5, 7), (0, 1), (0, size), (size - 1, 1), (size - 1, 2), (1, size), (0, 0), (size, 1), (1, size - 1), (size // 2, size // 2),
                               (size // 2, size // 2 + 1), (0, size + 1), (-1, 1), (3, 0), (size - 1, size - 1), (31, 31), (32, 1), (63, 1), (0, 63), (0, 31)]
                        slots.append(((k, k + 1), [(I(a), I(b)) for a, b in prs]))
                        skip.add(k + 1)
                    continue
                slots.append(((k,), [(x,) for x in self.imm_grid(row, k, o, arrs)]))
            elif kind == "mod":
                prev = ops[k - 1] if k else None
                rules = [f for f in row["f"] if f["a"] == k + 1]
                rn = {f["rule"] for f in rules}
                vals = [(ABSENT,)]
                if "sop" in rn or "shamt" in rn:
                    for op in ("lsl", "lsr", "asr", "ror"):
                        for amt in (0, 1, 3, rw - 1, rw, rw + 1, 31, 32, 33, 63, 64, 65):
                            vals.append((S(op, amt),))
                    vals.insert(0, (S("lsl", 3),))
                elif "lsl_amount" in rn:
                    for amt in (2, 0, 1, 7, 8, 9):
                        vals.append((S("lsl", amt),))
                    vals.append((S("lsr", 1),))
                else:
                    for amt in (0, 8, 16, 24, 32):
                        vals.append((S("lsl", amt),))
                slots.append(((k,), vals))
            elif kind == "mem":
                vals = []
                offr = [f for f in row["f"] if f["a"] == k + 1 and f["rule"] in ("off_s", "off_u")]
                modes = o["modes"]
                m0 = modes[0]
                if o.get("pc"):
                    # label-based memory operand a64::Mem(label, moff): target = label position + moff.  Label bound before
                    # (several distances incl. the format limits) and after the instruction, each with several offsets.
                    f = offr[0]
                    sc, w_ = f["p"], f["q"]
                    lo, hi = -(1 << (w_ - 1)) * sc, ((1 << (w_ - 1)) - 1) * sc
                    moffs = [8, 0, 4, -4, 0xFFC, 4 * self.rnd.randrange(-2000, 2000), 2]
                    def LM(pc_, lpos, moff):
                        d = Mem(b=-1, off=lpos + moff - pc_)
                        d.update({"pcrel": 1, "lab": 1, "lpos": lpos, "pc": pc_, "moff": moff})
                        return (d,)
                    for moff in moffs:
                        for d_ in (16, 0, 4096, 4):                 # backward
                            vals.append(LM(d_ + 8, 8, moff))
                        for d_ in (4, 64, 8192):                    # forward
                            vals.append(LM(12, 12 + d_, moff))
                    for moff in (0, 8, -4):                         # format limits (label +- 1 MiB), one beyond
                        vals.append(LM(-lo + 16, 16 - moff if 16 - moff >= 0 else 16, moff))
                        vals.append(LM(-lo + 16, 12 - moff if 12 - moff >= 0 else 12, moff))
                        vals.append(LM(12, 12 + hi - moff, moff))
                        vals.append(LM(12, 12 + hi - moff + sc, moff))
                    slots.append(((k,), vals))
                    continue
                if o.get("idx"):
                    lg = [f for f in row["f"] if f["rule"] == "idx_s"]
                    L = lg[0]["p"] if lg else 0
                    if o["idx"].get("mod"):
                        combos = [("x", "", -1), ("x", "lsl", L), ("x", "lsl", 0), ("w", "uxtw", -1), ("w", "uxtw", L), ("w", "uxtw", 0), ("w", "sxtw", -1),
                                  ("w", "sxtw", L), ("x", "sxtx", -1), ("x", "sxtx", L), ("x", "lsl", L + 1), ("x", "lsl", 1 if L != 1 else 2),
                                  ("w", "sxtw", L + 1), ("x", "uxtx", 0), ("x", "lsr", L), ("x", "lsl", 7)]
                        for xt, sh, amt in combos:
                            vals.append((Mem(b=bid, xi=7, xt=xt, sh=sh, amt=amt),))
                        for i in self.gp_ids[:5]:
                            vals.append((Mem(b=bid, xi=i, xt="x", sh="lsl", amt=L),))
                        vals.append((Mem(b=bid, xi=31, xt="x", xsp=0),))
                        vals.append((Mem(b=bid, xi=31, xt="x", xsp=1),))
                    else:                                   # post-index by register  [Xn], Xm
                        for i in [7] + self.gp_ids[:5]:
                            vals.append((Mem(b=bid, mode="post", xi=i, xt="x"),))
                        vals.append((Mem(b=bid, mode="post", xi=31, xt="x", xsp=0),))
                        vals.append((Mem(b=bid, mode="post", xi=31, xt="x", xsp=1),))
                        vals.append((Mem(b=bid, mode="post", xi=7, xt="w"),))
                        vals.append((Mem(b=bid, mode="o", xi=7, xt="x"),))
                    for i in self.gp_ids:
                        vals.append((Mem(b=i, mode=vals[0][0]["mode"], xi=7, xt=vals[0][0]["xt"], sh=vals[0][0]["sh"], amt=vals[0][0]["amt"]),))
                    vals.append((Mem(b=31, bsp=1, mode=vals[0][0]["mode"], xi=7, xt=vals[0][0]["xt"], sh=vals[0][0]["sh"], amt=vals[0][0]["amt"]),))
                    vals.append((Mem(b=31, bsp=0, mode=vals[0][0]["mode"], xi=7, xt=vals[0][0]["xt"], sh=vals[0][0]["sh"], amt=vals[0][0]["amt"]),))
                else:
                    if offr:
                        f = offr[0]
                        sc, w_ = f["p"], f["q"]
                        if f["rule"] == "off_s":
                            lo, hi = -(1 << (w_ - 1)) * sc, ((1 << (w_ - 1)) - 1) * sc
                        else:
                            lo, hi = 0, ((1 << w_) - 1) * sc
                        offs = [2 * sc, 0, sc, -sc, hi, hi + sc, lo, lo - sc, 1, sc + 1, sc // 2 if sc > 1 else 3, 255, 256, -256, -257, 3 * sc, 4 * sc, hi - sc, 16 * sc,
                                32 * sc, 64 * sc, -64 * sc, -65 * sc, 63 * sc, 128 * sc]
                    else:
                        fx = [f for f in row["f"] if f["a"] == k + 1 and f["rule"] in ("off_fixed", "off_fixed_shl")]
                        p = fx[0]["p"] if fx else 0
                        if fx and fx[0]["rule"] == "off_fixed_shl":
                            p = p << self.min_esize(row, arrs)
                        offs = [p, 0, p + 1, 2 * p if p else 8, 1, -p if p else -8]
                    seen = set()
                    for md in modes + [m for m in ("o", "pre", "post") if m not in modes]:
                        for off in offs:
                            if (md, off) in seen or (md != "o" and off == 0):
                                continue
                            seen.add((md, off))
                            vals.append((Mem(b=bid, mode=md, off=off),))
                            if md != m0 and len([1 for v in vals if v[0]["mode"] == md]) >= (4 if md in modes else 2):
                                break
                    b0 = vals[0][0]
                    for i in self.gp_ids:
                        vals.append((Mem(b=i, mode=b0["mode"], off=b0["off"]),))
                    vals.append((Mem(b=31, bsp=1, mode=b0["mode"], off=b0["off"]),))
                    vals.append((Mem(b=31, bsp=0, mode=b0["mode"], off=b0["off"]),))
                    vals.append((Mem(b=33, mode=b0["mode"], off=b0["off"]),))
                slots.append(((k,), vals))
            else:
                return None
        return slots

    def cases_for_row(self, ri, row):
        out = []
        nrand = 6 if self.quick else 60
        for arrs in self.esize_options(row):
            sl = self.slots(row, arrs)
            if sl is None:
                return None
            n = len(row["ops"])
            base = [None] * n
            for pos, vals in sl:
                for p, v in zip(pos, vals[0]):
                    base[p] = v
            out.append(list(base))
            for pos, vals in sl:
                for tup in vals[1:]:
                    c = list(base)
                    for p, v in zip(pos, tup):
                        c[p] = v
                    out.append(c)
            for _ in range(nrand):
                c = list(base)
                for pos, vals in sl:
                    tup = self.rnd.choice(vals)
                    for p, v in zip(pos, tup):
                        c[p] = v
                out.append(c)
        # a pre/post-index flag with a zero offset on an instruction that has no writeback form denotes the same access as
        # the plain form; asmjit accepts it as such - not judged (documented limit), so it is not generated
        def zero_wb(c):
            for o, v in zip(row["ops"], c):
                if o["k"] == "mem" and v["k"] == "m" and v["mode"] != "o" and v["off"] == 0 and v["xi"] < 0:
                    return True
            return False
        out = [c for c in out if not zero_wb(c)]
        return out

    # -- candidate rows ------------------------------------------------------------------------------------------
    def fits(self, row, ops):
        d = row["ops"]
        if len(d) != len(ops):
            return False
        for k, (o, v) in enumerate(zip(d, ops)):
            kind, vk = o["k"], v["k"]
            if kind == "gp":
                if vk != "r" or "ids" in v or (o["w"] != "r" and o["w"] != v["t"]):
                    return False
            elif kind == "vs":
                if vk != "v" or v["t"] != o["t"] or "ids" in v:
                    return False
            elif kind == "va":
                if vk != "v" or v["t"] != "v" or v["ei"] >= 0 or "ids" in v:
                    return False
                if row["ov"][k]:
                    j = 1 if row["ov"][k] == "tb" else 0
                    tl = row.get("tlist")
                    if tl and all(len(e) > j for e in tl) and not any(e[j] == v["arr"] for e in tl):
                        return False          # (a row without a usable arrangement list fits any arrangement: nothing is concluded from it)
                elif v["arr"] != o["arr"]:
                    return False
            elif kind == "ve":
                if vk != "v" or v["ei"] < 0 or v["arr"] != o["et"] or "ids" in v:
                    return False
            elif kind == "list":
                if vk not in ("v", "r") or "ids" not in v or len(v["ids"]) != o["n"]:
                    return False
                e = o["elem"]
                if e["k"] == "gp":
                    if vk != "r" or v["t"] != e["w"]:
                        return False
                elif e["k"] == "va":
                    if vk != "v" or v["ei"] >= 0:
                        return False
                    if row["ov"][k]:
                        if row.get("tlist") and not any(x[0] == v["arr"] for x in row["tlist"]):
                            return False
                    elif v["arr"] != e["arr"]:
                        return False
                else:
                    if vk != "v" or v["ei"] < 0 or v["arr"] != e["et"]:
                        return False
            elif kind == "imm":
                if vk == "-":
                    if not o.get("opt"):
                        return False
                elif vk != "i":
                    return False
            elif kind == "mod":
                if vk not in ("s", "-"):
                    return False
            elif kind == "mem":
                if vk != "m" or bool(o.get("pc")) != bool(v.get("pcrel")):
                    return False
                if o.get("pc"):
                    continue
                if (v["xi"] >= 0) != bool(o.get("idx")):
                    return False
                if v["xi"] >= 0 and bool(o["idx"].get("mod")) != (v["mode"] != "post"):
                    return False
            elif kind == "cond":
                if vk != "c":
                    return False
            elif kind == "cc":
                if vk != "cc":
                    return False
            elif kind == "rel":
                if vk != "l":
                    return False
            elif kind == "fimm":
                if vk != "f":
                    return False
            else:
                return False
        return True

    def candidates(self, name, ops, primary):
        res = [primary["ix"]]
        for r in self.byname[name]:
            if r is not primary and self.fits(r, ops):
                res.append(r["ix"])
        alt = LDUR_OF.get(name)
        if alt and any(o["k"] == "m" and o["mode"] == "o" and o["xi"] < 0 for o in ops):
            for r in self.byname[alt]:
                if self.fits(r, ops):
                    res.append(r["ix"])
        return res


# ----------------------------------------------------------------------------------------------------------------
# the assembly-text printer (independent of asmjit): operand descriptors -> GNU/LLVM syntax
# ----------------------------------------------------------------------------------------------------------------
def reg_text(v):
    if v["id"] > 31:
        return None
    if v["id"] == 31:
        return ("sp" if v["t"] == "x" else "wsp") if v["sp"] else ("xzr" if v["t"] == "x" else "wzr")
    return f"{v['t']}{v['id']}"


def vec_text(v, i=None):
    i = v["id"] if i is None else i
    if i > 31:
        return None
    if v["t"] != "v":
        return f"{v['t']}{i}"
    if v["ei"] >= 0 and "ids" not in v:
        return f"v{i}.{v['arr'].lower()}[{v['ei']}]"
    return f"v{i}.{v['arr'].lower()}"


def render(name, ops):
    parts = []
    suffix = ""
    for o in ops:
        k = o["k"]
        if k == "-":
            continue
        if k == "cc":
            suffix = "." + COND[o["c"]]
            continue
        if k == "r":
            if "ids" in o:
                ts = [reg_text({"t": o["t"], "id": i, "sp": 0}) for i in o["ids"]]
                if None in ts:
                    return None
                parts += ts
            else:
                t = reg_text(o)
                if t is None:
                    return None
                parts.append(t)
        elif k == "v":
            if "ids" in o:
                ts = [vec_text(o, i) for i in o["ids"]]
                if None in ts:
                    return None
                parts.append("{ " + ", ".join(ts) + " }" + (f"[{o['ei']}]" if o["ei"] >= 0 else ""))
            else:
                t = vec_text(o)
                if t is None:
                    return None
                parts.append(t)
        elif k == "i" and o.get("sys"):
            v = sum(x << (16 * j) for j, x in enumerate(o["l"]))
            if not 0 <= v < 65536:
                return None
            parts.append(f"S{v >> 14}_{(v >> 11) & 7}_C{(v >> 7) & 15}_C{(v >> 3) & 15}_{v & 7}")
        elif k == "i":
            v = sum(x << (16 * j) for j, x in enumerate(o["l"]))
            if v >= 1 << 63:
                v -= 1 << 64
            parts.append(f"#{v}" if -(1 << 31) <= v < (1 << 31) else f"#0x{v & M64:x}")
        elif k == "f":
            bits = sum(x << (16 * j) for j, x in enumerate(o["l"]))
            x = struct.unpack("<d", struct.pack("<Q", bits))[0]
            if x != x or x in (float("inf"), float("-inf")):
                return None
            parts.append("#" + repr(x))
        elif k == "s":
            parts.append(o["op"] if o["amt"] < 0 else f"{o['op']} #{o['amt']}")
        elif k == "c":
            parts.append(COND[o["c"]])
        elif k == "l":
            parts.append(f"#{o['v']}")
        elif k == "m" and o.get("pcrel"):
            parts.append(f"#{o['off']}")
        elif k == "m":
            b = reg_text({"t": "x", "id": o["b"], "sp": o["bsp"]})
            if b is None:
                return None
            if o["xi"] >= 0:
                x = reg_text({"t": o["xt"], "id": o["xi"], "sp": o["xsp"]})
                if x is None:
                    return None
                if o["mode"] == "post":
                    parts.append(f"[{b}], {x}")
                else:
                    ext = "" if not o["sh"] and o["amt"] < 0 else ", " + (o["sh"] or "lsl") + (f" #{o['amt']}" if o["amt"] >= 0 else "")
                    parts.append(f"[{b}, {x}{ext}]" + ("!" if o["mode"] == "pre" else ""))
            elif o["mode"] == "post":
                parts.append(f"[{b}], #{o['off']}")
            elif o["mode"] == "pre":
                parts.append(f"[{b}, #{o['off']}]!")
            else:
                parts.append(f"[{b}]" if o["off"] == 0 else f"[{b}, #{o['off']}]")
        else:
            return None
    nm = name.split(".")[0] if "<cond>" in name else name
    return nm + suffix + (" " + ", ".join(parts) if parts else "")


def llvm_disassemble(words):
    """decoder corroboration for the reports: what the emitted word really is"""
    src = "\n".join(" ".join(f"0x{(w >> (8 * k)) & 255:02x}" for k in range(4)) for w in words) + "\n"
    p = subprocess.run([LLVM_MC, "-triple=aarch64", "-mattr=" + MATTR, "--disassemble"], input=src, stdout=subprocess.PIPE, stderr=subprocess.PIPE,
                       text=True, timeout=120)
    lines = [l.strip() for l in p.stdout.splitlines() if l.strip() and not l.strip().startswith(".")]
    return [re.sub(r"\s+", " ", l) for l in lines] + ["(undecodable)"] * (len(words) - len(lines)) if len(lines) <= len(words) else lines[:len(words)]


def llvm_assemble(texts):
    """texts: list of str; returns list of (ok, [word limbs]) - one llvm-mc process per chunk"""
    res = [None] * len(texts)
    CH = 20000

    def one(lo):
        chunk = texts[lo:lo + CH]
        p = subprocess.run([LLVM_MC, "-triple=aarch64", "-mattr=" + MATTR, "-show-encoding"], input="\n".join(chunk) + "\n",
                           stdout=subprocess.PIPE, stderr=subprocess.PIPE, text=True, timeout=600)
        bad = set(int(m.group(1)) for m in re.finditer(r"<stdin>:(\d+):\d+: error", p.stderr))
        encs = re.findall(r"encoding: \[([^\]]*)\]", p.stdout)
        it = iter(encs)
        out = []
        for n in range(1, len(chunk) + 1):
            if n in bad:
                out.append((False, []))
                continue
            e = next(it, None)
            if e is None:
                raise Broken("llvm-mc produced fewer encodings than accepted lines: " + p.stderr[-400:])
            b = [int(x, 16) for x in e.split(",")]
            out.append((True, [[b[0] | b[1] << 8, b[2] | b[3] << 8]]))
        if next(it, None) is not None:
            raise Broken("llvm-mc produced more encodings than accepted lines")
        return lo, out

    with concurrent.futures.ThreadPoolExecutor(max_workers=8) as ex:
        for lo, out in ex.map(one, range(0, len(texts), CH)):
            res[lo:lo + len(out)] = out
    return res


# ----------------------------------------------------------------------------------------------------------------
# TLC pointwise
# ----------------------------------------------------------------------------------------------------------------
def tlc_pointwise(ctx, lines, tag, shards, rows_tla, timeout=2400, heap="3g", workers=2):
    shards = max(1, min(shards, (len(lines) + 2999) // 3000))
    parts = [lines[i::shards] for i in range(shards)]
    paths = []
    for i, p in enumerate(parts):
        path = ctx.path(f"{tag}_shard{i}.ndjson")
        with open(path, "w") as f:
            f.write("\n".join(p) + "\n")
        paths.append(path)

    def one(i):
        return i, vlib.run_tlc(ctx, OBS_MOD, OBS_CFG, workers=workers, timeout=timeout, env={"OBS": paths[i], "ROWS": rows_tla}, heap=heap,
                               tag=f"{tag}{i}", extra=["-continue"])

    rejects, nviol = [], 0
    with concurrent.futures.ThreadPoolExecutor(max_workers=8) as ex:
        for i, r in ex.map(one, range(shards)):
            if r.kind in ("timeout", "error") or "Finished computing initial states" not in r.out:
                raise Broken(f"TLC {tag} shard {i}: kind={r.kind} rc={r.rc}\n" + "\n".join(r.out.splitlines()[-25:]))
            if r.distinct != len(parts[i]):
                raise Broken(f"TLC {tag} shard {i}: {r.distinct} observations evaluated, {len(parts[i])} expected")
            with _lock:
                ctx.states += r.distinct
                ctx.transitions += r.generated
            nv = len(re.findall(r"Invariant Conforms is violated", r.out))
            rj = re.findall(r'<<"REJECT", (\d+), "([^"]*)", "([^"]*)", "([^"]*)", "([^"]*)", (TRUE|FALSE)>>', r.out)
            nc = sum(1 for x in rj if x[5] == "TRUE")
            if nv != nc:
                raise Broken(f"TLC {tag} shard {i}: {nv} invariant violations but {nc} corroborated REJECT lines")
            for ln, va, vaf, vl, vlf, cor in rj:
                rejects.append((json.loads(parts[i][int(ln) - 1]), va, vaf, vl, vlf, cor == "TRUE"))
    return rejects


def obs_text(o):
    t = render(o["n"], o["o"])
    aw = ",".join(f"{word_of(w):08x}" for w in o["w"]) or "-"
    lw = ",".join(f"{word_of(w):08x}" for w in o.get("lw", [])) or "-"
    return (f"{t or o['n'] + ' ' + json.dumps(o['o'])}  asmjit: {'ok ' + aw if o['ok'] else 'error ' + str(o.get('err'))}"
            f"  llvm-mc: {('ok ' + lw if o.get('lok') else 'refused') if o.get('lx') else 'n/a'}")


def why_refused(o, field, rows):
    """which operand situation has no encoding (names the operand the failing rule reads)"""
    row = rows[o["r"] - 1]
    fs = [f for f in row["f"] if f["n"] == field]
    if not fs or not fs[0]["a"]:
        return "-"
    v = o["o"][fs[0]["a"] - 1]
    k = v["k"]
    if k == "r":
        return "id>31" if v["id"] > 31 else "sp-where-zr" if v["id"] == 31 and v["sp"] else "zr-where-sp" if v["id"] == 31 else "reg"
    if k == "v":
        if fs[0]["rule"] in ("eidx", "eidx_fixed"):
            return "lane-out-of-range"
        return "id>31" if v["id"] > 31 else "id>15" if v["id"] > 15 and fs[0]["p"] == 15 else "id>7" if v["id"] > 7 and fs[0]["p"] == 7 else "reg"
    if k == "m":
        r = fs[0]["rule"]
        if r == "membase":
            return "base-id>31" if v["b"] > 31 else "base-zr"
        if r == "memidx":
            return "index-id>31" if v["xi"] > 31 else "index-sp"
        if r in ("off_s", "off_u", "off_fixed", "off_fixed_shl"):
            return "offset-misaligned" if fs[0]["p"] > 1 and v["off"] % fs[0]["p"] else "offset-out-of-range"
        return r
    if k == "s":
        return f"{v['op']}-amount" if fs[0]["rule"] in ("shamt", "ext_amount", "lsl_amount", "hw") else f"{v['op']}-kind"
    if k in ("i", "f"):
        return "immediate"
    if k == "l":
        return "displacement-misaligned" if fs[0]["p"] > 1 and v["v"] % fs[0]["p"] else "displacement-out-of-range"
    return k


def sig_operands(o):
    """stable, narrow description of WHICH operand situation fails (used in the finding key)"""
    bits = []
    for v in o["o"]:
        k = v["k"]
        if k == "r":
            bits.append(v["t"] + ("sp" if v["id"] == 31 and v["sp"] else "zr" if v["id"] == 31 else "N" if v["id"] < 31 else "BAD"))
        elif k == "v":
            bits.append((v["t"] if v["t"] != "v" else v["arr"]) + ("[i]" if v["ei"] >= 0 else "") + ("x%d" % len(v["ids"]) if "ids" in v else ""))
        elif k == "m":
            bits.append("m" + v["mode"] + ("x" if v["xi"] >= 0 else ""))
        elif k in ("i", "f"):
            bits.append("#")
        elif k == "s":
            bits.append(v["op"])
        elif k == "-":
            bits.append("_")
        else:
            bits.append(k)
    return ",".join(bits)


# ----------------------------------------------------------------------------------------------------------------
def run(ctx):
    q = ctx.quick
    repo = os.environ.get("VERIF_REPO", "/repo")
    rows_all = load_rows(ctx, repo)
    ids = inst_ids(repo)
    total = len(rows_all)
    not_cov = collections.OrderedDict()          # reason -> [signatures]
    rows = []
    for r in rows_all:
        if not r["ok"]:
            not_cov.setdefault(r["why"], []).append(r["sig"])
            continue
        rows.append(r)
    for ix, r in enumerate(rows):
        r["ix"] = ix + 1
    rows_tla = ctx.path("rows_tla.json")
    json.dump([{"mask": r["mask"], "val": r["val"], "f": r["f"], "tl": r["tlist"] or [], "ov": r["ov"]} for r in rows], open(rows_tla, "w"),
              separators=(",", ":"))
    ctx.log(f"database: {total} rows, {len(rows)} exported with complete field rules, {total - len(rows)} not covered ({len(not_cov)} reasons)")

    # ---- sweep -------------------------------------------------------------------------------------------------
    gen = Gen(rows, ids, q, ctx.seed)
    cases = []
    no_id, no_gen = [], []
    for r in rows:
        vec = is_vec_row(r)
        cs = None
        for name in r["names"]:
            base = name.split(".")[0] if "<cond>" in name else name
            ent = ids.get(base)
            if not ent:
                no_id.append(r["sig"])
                continue
            iid = ent.get("v" if vec else "gp", ent.get("gp", ent.get("v")))
            if cs is None:
                cs = gen.cases_for_row(r["ix"], r)
            if cs is None:
                no_gen.append(r["sig"])
                break
            for ops in cs:
                cases.append({"n": name, "iid": iid, "r": r["ix"], "rs": gen.candidates(name, ops, r), "o": ops})
    # mov Rd, #imm : any value, one to four words (movz/movn/movk/orr) - judged by the MovWide evaluator (A64Imm!MovEval)
    mov_id = ids.get("mov", {}).get("gp")
    nmov = 0
    if mov_id:
        rnd = random.Random(ctx.seed + 7)
        lanes = [0, 0xFFFF, 0x1234, 0x8000]
        xs = {sum(l[k] << (16 * k) for k in range(4)) for l in ([a, b, c, d] for a in lanes for b in lanes for c in lanes for d in lanes)}
        xs |= set(gen.log[64][:40]) | {rnd.getrandbits(64) for _ in range(40 if q else 2000)} | {(1 << 64) - 1 - (0x1234 << s_) for s_ in (0, 16, 32, 48)}
        ws = {v & 0xFFFFFFFF for v in xs} | set(gen.log[32][:30])
        for t, vals in (("x", sorted(xs)), ("w", sorted(ws))):
            for n_, v in enumerate(vals):
                rid_ = 3 if n_ % 7 else [0, 15, 30, 31, 16][n_ // 7 % 5]
                cases.append({"n": "mov", "iid": mov_id, "r": 0, "rs": [], "o": [R(t, rid_), I(v)], "cls": "mov"})
                nmov += 1
    # perturbation leg (AcceptedDenotesRow): same operand kinds, other arrangement / element type / lane access / register view
    gen.index_all(rows_all)
    base_seen = {c["n"] + json.dumps(c["o"], sort_keys=True) for c in cases}
    pcases, pskip = [], set()
    for r in rows:
        vec = is_vec_row(r)
        for name in r["names"]:
            if "<cond>" in name:
                continue
            ent = ids.get(name)
            if not ent:
                continue
            if name in gen.opaque:
                pskip.add(name)
                continue
            iid = ent.get("v" if vec else "gp", ent.get("gp", ent.get("v")))
            for arrs in gen.esize_options(r)[:1 if q else None]:
                sl = gen.slots(r, arrs)
                if sl is None:
                    continue
                base = [None] * len(r["ops"])
                for pos, vals in sl:
                    for p_, v in zip(pos, vals[0]):
                        base[p_] = v
                for ops in gen.perturbations(r, base):
                    key = name + json.dumps(ops, sort_keys=True)
                    if key in base_seen:
                        continue
                    base_seen.add(key)
                    okr, other = gen.fit_any(name, ops)
                    if other and not okr:
                        continue                       # fits only a row this check has no rules for: not judged
                    pc_ = {"n": name, "iid": iid, "r": r["ix"], "rs": okr, "o": ops, "pt": 1}
                    if not okr:
                        pc_["alts"] = gen.view_alternatives(name, ops)
                    pcases.append(pc_)
    if pskip:
        not_cov["perturbation leg skipped: the mnemonic has a database row whose operand signature is not parsed"] = sorted(pskip)
    cases += pcases
    if no_id:
        not_cov["mnemonic has no a64::Inst id in the pinned asmjit"] = sorted(set(no_id))
    if no_gen:
        not_cov["no sweep generator for the operand shape (PC-relative literal)"] = sorted(set(no_gen))
    # de-duplicate identical (name, operands)
    seen, uniq = set(), []
    for c in cases:
        key = c["n"] + json.dumps(c["o"], sort_keys=True)
        if key in seen:
            continue
        seen.add(key)
        uniq.append(c)
    cases = uniq
    nlab = sum(1 for c in cases if any(isinstance(v, dict) and v.get("lab") for v in c["o"]))
    ctx.log(f"sweep: {len(cases)} distinct cases over {len({c['r'] for c in cases if c['r']})} rows (+{nmov} mov-immediate sequences; "
            f"{nlab} with a bound/unbound label operand; {len(pcases)} perturbed-operand cases)")
    cp, op = ctx.path("cases.ndjson"), ctx.path("obs.ndjson")
    with open(cp, "w") as f:
        for c in cases:
            f.write(json.dumps(c, separators=(",", ":")) + "\n")
    bdir = ctx.build("plain", "a64sweep")
    rc, _, err = vlib.run_harness(ctx, bdir, "a64sweep", ["run", cp, op], timeout=1500)
    if rc != 0:
        raise Broken(f"a64sweep failed rc={rc}: {err[-600:]}")
    obs = [json.loads(l) for l in open(op)]
    if len(obs) != len(cases):
        raise Broken("harness answered a different number of cases")
    # a perturbed case the assembler REFUSES says nothing about C02 (only what is accepted is judged): counted, not evaluated further
    npt = sum(1 for o in obs if o.get("pt"))
    nref = sum(1 for o in obs if o.get("pt") and not o["ok"])
    obs = [o for o in obs if not (o.get("pt") and not o["ok"])]
    ctx.extra["perturbed_cases"] = {"executed": npt, "refused_by_asmjit_not_judged": nref, "accepted_and_judged": npt - nref}
    ctx.log(f"perturbation leg: {npt} cases executed, {nref} refused by asmjit (not judged), {npt - nref} accepted and judged")

    # ---- llvm-mc leg -------------------------------------------------------------------------------------------
    texts, where = [], []
    for k, o in enumerate(obs):
        t = render(o["n"], o["o"])
        o["lx"], o["lok"], o["lw"], o["nl"] = 0, False, [], 0
        if t is None:
            o["nl"] = 1                      # the operands cannot be written in assembly (register number > 31)
            continue
        texts.append(t)
        where.append(k)
    t0 = time.time()
    lres = llvm_assemble(texts)
    for k, (ok, ws) in zip(where, lres):
        obs[k]["lx"], obs[k]["lok"], obs[k]["lw"] = 1, ok, ws
    ctx.log(f"llvm-mc: {len(texts)} lines assembled in {time.time() - t0:.1f}s, {sum(1 for ok, _ in lres if ok)} accepted")

    # ---- TLC ---------------------------------------------------------------------------------------------------
    for o in obs:
        o.setdefault("cls", "enc")
        o.setdefault("alts", [])
    lines = [json.dumps({k: o[k] for k in ("n", "rs", "o", "ok", "w", "lx", "lok", "lw", "nl", "cls", "r", "alts")}, separators=(",", ":")) for o in obs]
    t0 = time.time()
    rejects = tlc_pointwise(ctx, lines, "obs", 8 if q else 12, rows_tla)
    ctx.log(f"TLC: {len(lines)} observations evaluated in {time.time() - t0:.1f}s, {len(rejects)} REJECT lines")
    classify(ctx, rows, obs, rejects, not_cov, total)


def classify(ctx, rows, obs, rejects, not_cov, total):
    accepted_rows = {o["r"] for o in obs if o["ok"] and o["r"] and not o.get("pt")}
    exercised_rows = {o["r"] for o in obs if o["r"] and not o.get("pt")}
    db_incomplete = collections.OrderedDict()
    eqview = collections.OrderedDict()
    ctx.extra["mov_immediate_sequences_judged"] = sum(1 for o in obs if o["ok"] and not o["r"])
    viol = collections.OrderedDict()
    unjudged = collections.OrderedDict()
    llvm_only = collections.OrderedDict()
    bad_rows = set()
    for o, va, vaf, vl, vlf, cor in rejects:
        sig = rows[o["r"] - 1]["sig"] if o["r"] else "mov Rd, #imm (movz/movn/movk/orr sequence)"
        if va == "equivalent-view":
            eqview.setdefault(f"{o['n']} {sig_operands(o)}", []).append(o)
            continue
        if va == "accepted-non-form":
            # accepted, but no database row has this operand pattern.  llvm-mc refuses the text as well -> the assembler accepted a
            # non-existent form (violation).  llvm-mc assembles it -> the DATABASE lacks the row (information, never a violation).
            if cor:
                viol.setdefault(f"accepted-non-form:{o['n']}:{sig_operands(o)}", []).append(o)
            else:
                same = o.get("lok") and o.get("lw") == o["w"]
                db_incomplete.setdefault(f"{o['n']} {sig_operands(o)} | " + ("db-row-incomplete (llvm-mc emits the same word)" if same else
                                         "no database row; llvm-mc accepts the text with another word (not judged)"), []).append(o)
            continue
        if va and cor:
            why = (why_refused(o, vaf, rows) if va == "accepts-unencodable" else "wrong-bits") if o["r"] else "sequence-value"
            key = f"{va}:{o['n']}:{vaf}:{why}"
            viol.setdefault(key, []).append(o)
        elif va:
            unjudged.setdefault(f"{sig} | {va}:{vaf} (llvm-mc: {vl or 'agrees with asmjit' if o['lx'] else 'n/a'}{':' + vlf if vlf else ''})", []).append(o)
            bad_rows.add(o["r"])
        else:
            llvm_only.setdefault(f"{sig} | llvm-mc {vl}:{vlf}", []).append(o)
    for o in obs:
        if o["ok"]:
            ctx.distinct.add((o["n"], tuple(word_of(w) for w in o["w"])))
    ctx.evaluations = len(obs)
    judged = accepted_rows - bad_rows
    ctx.extra["rows_total"] = total
    ctx.extra["rows_with_field_rules"] = len(rows)
    ctx.extra["rows_exercised"] = len(exercised_rows)
    ctx.extra["rows_accepted_by_asmjit_and_judged"] = len(judged)
    ctx.extra["observations_accepted_by_asmjit"] = sum(1 for o in obs if o["ok"])
    ctx.extra["observations_corroborated_by_llvm_mc"] = sum(1 for o in obs if o["ok"] and o["lx"] and o["lok"] and o["lw"] == o["w"])
    never = sorted({rows[i - 1]["sig"] for i in exercised_rows - accepted_rows})
    ctx.extra["not_covered"] = {k: {"rows": len(v), "names": sorted({s.split(" ")[0] for s in v})[:400]} for k, v in not_cov.items()}
    ctx.extra["rows_never_accepted_by_asmjit_in_the_sweep"] = {"rows": len(never), "signatures": never[:600]}
    ctx.extra["unjudged_spec_or_db_disagrees_with_both_assemblers"] = {k: len(v) for k, v in list(unjudged.items())[:400]}
    ctx.extra["llvm_mc_only_disagreements"] = {k: len(v) for k, v in list(llvm_only.items())[:400]}
    covered_names = sorted({n for i in judged for n in rows[i - 1]["names"]})
    ctx.extra["covered_mnemonics"] = covered_names
    ctx.log(f"rows judged {len(judged)}/{total}; unjudged groups {len(unjudged)}, llvm-only groups {len(llvm_only)}, violation groups {len(viol)}")
    for k, v in list(unjudged.items())[:12]:
        ctx.log(f"  unjudged: {k}  x{len(v)}  e.g. {obs_text(v[0])}")
    for k, v in list(llvm_only.items())[:8]:
        ctx.log(f"  llvm-only: {k}  x{len(v)}  e.g. {obs_text(v[0])}")
    # Full signature of a rejected case:  <clause>:<mnemonic>:<field>:<situation>.  A KNOWN_FINDINGS key is matched against it
    # with fnmatch, so one defect site shared by many mnemonics is one line (e.g. accepts-unencodable:*:Vm:id>31).
    # Unknown signatures are reported as one VIOLATION per (clause, field, situation) listing the mnemonics.
    import fnmatch
    groups = collections.OrderedDict()
    known_hits = collections.OrderedDict()
    nonform = collections.OrderedDict()
    for key, v in viol.items():
        ctx.extra.setdefault("rejected_groups", {})[key] = len(v)
        kk = next((k for k in ctx.known if fnmatch.fnmatchcase(key, k)), None)
        if kk:
            known_hits.setdefault(kk, []).append((key, len(v)))
        elif key.startswith("accepted-non-form:"):
            nonform.setdefault(key.split(":")[1], []).append((key, v))
        else:
            cl, mn, fld, why = key.split(":", 3)
            groups.setdefault(f"{cl}:{fld}:{why}", []).append((mn, v))
    ctx.extra["equivalent_view_information"] = {"patterns": len(eqview), "what": "accepted writings of the same registers (v<n>.1d = d<n>; untyped d/q = .8b/.16b) "
                                                "whose word is the database row's encoding of the rewritten operands", "examples": list(eqview)[:60]}
    ctx.extra["db_row_incomplete_information"] = {k: len(v) for k, v in list(db_incomplete.items())[:400]}
    if db_incomplete:
        ctx.log(f"  information: {len(db_incomplete)} accepted operand patterns without a database row that llvm-mc assembles as well (db-row-incomplete), e.g. "
                + "; ".join(f"{k} [{obs_text(v[0])}]" for k, v in list(db_incomplete.items())[:3]))
    for mn, members in nonform.items():                      # accepted-non-form:<inst>:<signature>, one report per mnemonic
        rp = ctx.path(f"reject_accepted-non-form_{re.sub(r'[^A-Za-z0-9_.-]', '_', mn)}.ndjson")
        vlib.write_ndjson(rp, [o for _, v in members for o in v[:3]][:60])
        first = members[0][1][0]
        dis = llvm_disassemble([word_of(first["w"][0])])[0] if first["w"] else "?"
        ctx.violation(f"accepted-non-form:{mn}: the assembler accepts operand patterns no database row (and no llvm-mc form) has: "
                      + " ".join(k.split(":", 2)[2] for k, _ in members[:24]) + (" ..." if len(members) > 24 else "")
                      + f"; e.g. {obs_text(first)}; llvm-mc decodes {word_of(first['w'][0]):08x} as '{dis}'", rp)
    for kk, hits in known_hits.items():
        ctx.known_finding(kk, ctx.known[kk] + f" [{sum(n for _, n in hits)} observations, {len(hits)} signature(s) in this run, e.g. {hits[0][0]}]")
    for g, members in groups.items():
        safe = re.sub(r"[^A-Za-z0-9_.-]", "_", g)[:120]
        rp = ctx.path(f"reject_{safe}.ndjson")
        allobs = [o for _, v in members for o in v[:3]]
        vlib.write_ndjson(rp, allobs[:60])
        names = [m for m, _ in members]
        ex = [obs_text(v[0]) for _, v in members[:3]]
        cl, fld, why = g.split(":", 2)
        ctx.violation(f"{g} (signatures {cl}:<mnemonic>:{fld}:{why}): {sum(len(v) for _, v in members)} rejected observation(s) over {len(names)} mnemonic(s) "
                      f"[{' '.join(names[:40])}{' ...' if len(names) > 40 else ''}], e.g. " + " || ".join(ex), rp)
    for o in [o for o in obs if o["ok"]][:4]:
        ctx.add_sample(obs_text(o))
    ctx.assumptions += [
        "a case is attributed to database rows by mnemonic and operand kinds only (every row with the mnemonic whose signature the operands fit is a candidate); "
        "a word is accepted when it matches ANY encodable candidate row",
        "asmjit refusing an encodable instruction is not judged here (C13)",
        "a spec rejection counts only when llvm-mc 14 corroborates the spec on the same operands; rows where the spec disagrees with both assemblers "
        "(database template / rule contradicted) are listed as unjudged, never reported",
        "a64::Inst ids are the ordinals of the public enum in a64globals.h (InstAPI::string_to_inst_id is not used)",
        "label operands: the label is bound at a recorded section offset before (backward) or after (forward, fixup) the instruction; the word is read "
        "after the bind; the spec states decoded target = label position + memory-operand offset",
        "perturbation leg: operand patterns outside the database forms are executed; only what asmjit ACCEPTS is judged (a matching database row must "
        "exist and match); accepted patterns that llvm-mc assembles too are reported as db-row-incomplete (information)",
    ]
    vlib.write_evidence(ctx, "other",
        rule="evaluations = sweep cases executed on a64::Assembler and evaluated by TLC (asmjit leg + llvm-mc leg); distinct = distinct (mnemonic, emitted words) "
             "accepted by asmjit; rows judged = database rows with at least one accepted observation and no spec-vs-independent-assembler disagreement",
        explanation="pointwise model checking: every observation is an initial state of A64EncObs.tla and TLC evaluates the invariant "
                    "(Matches/Refused of A64Enc.tla through the database template) on all of them; llvm-mc is a second, independent leg judged by the same predicate",
        trusted_base=["TLC 1.8.0", "spec/isa/A64Enc.tla field rules (Arm ARM)", "db/isa_aarch64.json templates as read by tools/db_export_a64.js",
                      "llvm-mc 14 (corroboration)", "harness/a64sweep.cpp operand construction", "checks/c02.py assembly printer"])


def replay(ctx, path):
    repo = os.environ.get("VERIF_REPO", "/repo")
    rows_all = load_rows(ctx, repo)
    rows = [r for r in rows_all if r["ok"]]
    for ix, r in enumerate(rows):
        r["ix"] = ix + 1
    rows_tla = ctx.path("rows_tla.json")
    json.dump([{"mask": r["mask"], "val": r["val"], "f": r["f"], "tl": r["tlist"] or [], "ov": r["ov"]} for r in rows], open(rows_tla, "w"))
    recs = vlib.read_ndjson(path)
    cp, op = ctx.path("cases.ndjson"), ctx.path("obs.ndjson")
    vlib.write_ndjson(cp, [{k: r[k] for k in ("n", "iid", "r", "rs", "o", "cls", "pt", "alts") if k in r} for r in recs])
    bdir = ctx.build("plain", "a64sweep")
    rc, _, err = vlib.run_harness(ctx, bdir, "a64sweep", ["run", cp, op], timeout=600)
    if rc != 0:
        raise Broken("a64sweep failed: " + err[-400:])
    obs = [json.loads(l) for l in open(op)]
    texts = [render(o["n"], o["o"]) for o in obs]
    lres = llvm_assemble([t for t in texts if t])
    it = iter(lres)
    for o, t in zip(obs, texts):
        o["lx"], o["lok"], o["lw"], o["nl"] = 0, False, [], 1
        o.setdefault("cls", "enc")
        o.setdefault("alts", [])
        if t:
            ok, ws = next(it)
            o["lx"], o["lok"], o["lw"], o["nl"] = 1, ok, ws, 0
    lines = [json.dumps({k: o[k] for k in ("n", "rs", "o", "ok", "w", "lx", "lok", "lw", "nl", "cls", "r", "alts")}, separators=(",", ":")) for o in obs]
    rj = tlc_pointwise(ctx, lines, "replay", 1, rows_tla)
    for o, va, vaf, vl, vlf, cor in rj:
        print("  ", va, vaf, "corroborated" if cor else "uncorroborated", obs_text(o))
        if va and cor:
            ctx.violation(f"{o['n']}:{va}:{vaf}: {obs_text(o)}", path)
