"""X01 - VirtMem and JitRuntime: virtual-memory mappings follow the documented life cycle.

Decided by
 (1) TLC, design level: spec/vm/VirtMemImpl.tla - the fall-back logic of virtmem.cpp (hardened-runtime probe,
     memfd_create / shm_open / tmp-file strategy with its detection mmap, EEXIST retry, large pages, dual mapping
     and its clean-up paths) and the block handling of JitAllocator/JitRuntime, transcribed at the granularity of
     one OS request per step, run against an abstract OS in which every request may fail and against every
     simulated environment; every event the transcription emits is judged by the CONTRACT spec/vm/VirtMem.tla
     (invariant Accepted + the contract's own state invariants).  Negative controls (the transcription with a
     seeded clean-up slip) must be rejected.
 (2) Trace validation against the same contract: harness/virtmem.cpp interposes the libc functions and the public
     VirtMem functions at link time inside the harness executable and records Os / Vm / Rt events of executions of
     the real code - systematic scenarios with EVERY fault position k, behaviours exported by TLC from (1), and
     seeded random scenarios - each execution in a fresh process.  VirtMemTrace.tla accepts an execution iff every
     event is allowed by the contract.
"""
import json, os, random, re, shutil
import vlib
from vlib import Broken

SPEC = os.path.join(vlib.VERIF, "spec", "vm")
MOD_T, CFG_T = os.path.join(SPEC, "VirtMemTrace.tla"), os.path.join(SPEC, "VirtMemTrace.cfg")
MOD_MC = os.path.join(SPEC, "VirtMemMC.tla")

ADDR_KEYS = ("a", "p", "rx", "rw", "qrx", "qrw", "base")
LEN_KEYS = ("n", "qn", "size")
PAGE = 4096
GAP = 16            # pages kept between clusters that are not adjacent in memory


# ----------------------------------------------------------------------------------------------------------
# Address compression: order preserving, exact inside every range an event mentions, adjacency preserving.
# ----------------------------------------------------------------------------------------------------------
def compress_execution(recs):
    iv = []
    for r in recs:
        ln = max([int(r[k]) for k in LEN_KEYS if isinstance(r.get(k), int)] + [1])
        for k in ADDR_KEYS:
            v = r.get(k)
            if isinstance(v, int) and v > 0:
                iv.append((v // PAGE, (v + ln + PAGE - 1) // PAGE))
    iv.sort()
    clusters = []
    for lo, hi in iv:
        if clusters and lo <= clusters[-1][1]:
            clusters[-1][1] = max(clusters[-1][1], hi)
        else:
            clusters.append([lo, hi])
    base, cur, prev_hi = {}, 16, None
    starts = []
    for lo, hi in clusters:
        if prev_hi is not None:
            cur += min(lo - prev_hi, GAP)
        starts.append((lo, hi, cur))
        cur += hi - lo
        prev_hi = hi
    if cur * PAGE >= 2 ** 31:
        raise Broken("address compression overflow")

    def conv(v):
        pg = v // PAGE
        for lo, hi, c in starts:
            if lo <= pg < hi:
                return (c + pg - lo) * PAGE + v % PAGE
        raise Broken(f"address {v} not in any cluster")
    out = []
    for r in recs:
        r = dict(r)
        for k in ADDR_KEYS:
            v = r.get(k)
            if isinstance(v, int) and v > 0:
                r[k] = conv(v)
        out.append(r)
    return out


def normalise(raw_path, out_path):
    recs = vlib.read_ndjson(raw_path)
    execs = vlib.split_executions(recs)
    res = []
    for e in execs:
        res += compress_execution(e)
    vlib.write_ndjson(out_path, res)
    return execs, res


# ----------------------------------------------------------------------------------------------------------
# Trace validation: one TLC pass reports every rejected event of a file as <<"REJ", line, event, {reasons}>>.
# ----------------------------------------------------------------------------------------------------------
def rej_lines(out):
    """<<"REJ", line, "VmRet", {"...", "..."}>> possibly wrapped over several lines"""
    res = []
    txt = out.replace("\n", " ")
    for m in re.finditer(r'<<\s*"REJ",\s*(\d+),\s*"(\w+)",\s*\{(.*?)\}\s*>>', txt):
        reasons = re.findall(r'"((?:[^"\\]|\\.)*)"', m.group(3))
        res.append((int(m.group(1)), m.group(2), reasons))
    return res


def validate(ctx, norm_path, tag, timeout=2400, strict=False):
    """-> (number of executions, list of rejected executions {x, fail, env, start, line, event, reasons, records})"""
    recs = vlib.read_ndjson(norm_path)
    if not recs or recs[-1].get("e") != "Reset" or recs[-1].get("x") != "<eof>":
        recs.append({"e": "Reset", "x": "<eof>", "page": PAGE})
        vlib.write_ndjson(norm_path, recs)
    env = {"TRACE": norm_path}
    if strict:
        env["STRICT"] = "1"
    r = vlib.run_tlc(ctx, MOD_T, CFG_T, workers=1, timeout=timeout, env=env, heap="4g", tag=tag)
    ctx.states += r.distinct
    ctx.transitions += r.generated
    mm = re.search(r'<<"MAXL", (\d+), (\d+)>>', r.out)
    if strict and r.kind == "error" and "Postcondition" in r.out and mm:
        return len(recs), [{"line": int(mm.group(1)), "reasons": ["strict mode: stuck"], "x": "?", "event": "?"}]
    if r.kind != "ok" or not mm or int(mm.group(1)) != int(mm.group(2)) + 1:
        raise Broken(f"trace validation {tag} failed to run: kind={r.kind} rc={r.rc} violated={r.violated}\n" + "\n".join(r.out.splitlines()[-30:]))
    starts = [i for i, x in enumerate(recs) if x.get("e") == "Reset"]          # 0-based indices of Reset lines
    nexec = len(starts) - 1
    by_exec = {}
    import bisect
    for ln, evname, reasons in rej_lines(r.out):
        idx = ln - 1
        k = bisect.bisect_right(starts, idx) - 1
        if recs[idx].get("e") == "Reset":          # invariant of the state the previous execution left
            k -= 1
        if k < 0:
            raise Broken(f"rejection at line {ln} before any execution")
        d = by_exec.setdefault(k, {"line": ln, "event": evname, "reasons": [], "first": None})
        if d["first"] is None:
            d["first"] = recs[idx]
        for why in reasons:
            if why not in d["reasons"]:
                d["reasons"].append(why)
    out = []
    for k in sorted(by_exec):
        d = by_exec[k]
        head = recs[starts[k]]
        d.update({"x": head.get("x", "?"), "fail": head.get("fail", []), "env": head.get("env", {}), "sticky": head.get("sticky", False),
                  "records": recs[starts[k]:starts[k + 1]], "rel": d["line"] - 1 - starts[k]})
        out.append(d)
    return nexec, out


# ----------------------------------------------------------------------------------------------------------
# Scenarios
# ----------------------------------------------------------------------------------------------------------
ENVS = {
    "std": {},
    "oldkernel": {"oldkernel": True},
    "nomemfd": {"memfd": False},
    "nomemfd_noexec": {"memfd": False, "shmexec": False},
    "nomemfd_eexist2": {"memfd": False, "eexist": 2},
    "nomemfd_noexec_eexist3": {"memfd": False, "shmexec": False, "eexist": 3},
    "nomemfd_eexist_all": {"memfd": False, "eexist": 1000},
    "hardened": {"rwx": False},
    "hardened_nomemfd": {"rwx": False, "memfd": False},
    "hugesim": {"hugesim": True},
}


def A(n, acc, s, **kw):
    return dict({"op": "alloc", "n": n, "acc": acc, "s": s}, **kw)


def D(n, acc, s, **kw):
    return dict({"op": "dual", "n": n, "acc": acc, "s": s}, **kw)


def REL(s, **kw):
    return dict({"op": "release", "s": s}, **kw)


def RD(s):
    return {"op": "reldual", "s": s}


def PROT(s, acc, off=0, n=0, **kw):
    return dict({"op": "protect", "s": s, "acc": acc, "off": off, "n": n}, **kw)


def RTNEW(**kw):
    d = {"op": "rt_new", "dual": False, "multi": False, "fill": False, "imm": False, "nopad": False, "lp": False, "alignlp": False, "gran": 0, "block": 0}
    d.update(kw)
    return d


def ADD(s, kind=1, K=11, pad=0):
    return {"op": "rt_add", "s": s, "kind": kind, "K": K, "pad": pad}


def RREL(s, **kw):
    return dict({"op": "rt_release", "s": s}, **kw)


RESET_S, RESET_H, DEL = {"op": "rt_reset", "hard": False}, {"op": "rt_reset", "hard": True}, {"op": "rt_del"}
LP = 2 * 1024 * 1024


def vm_scenarios():
    """name -> (envs, ops)"""
    sc = {}
    sc["v_basic"] = (["std", "hardened"], [{"op": "info"}, {"op": "lps"}, {"op": "hri"}, A(65536, 7, 0), PROT(0, 5, 4096, 8192), PROT(0, 3),
                                         {"op": "info"}, {"op": "lps"}, {"op": "hri"}, REL(0)])
    sc["v_access"] = (["std"], [A(8192, acc, acc) for acc in range(8)] + [PROT(1, 0), PROT(2, 1), PROT(3, 4), PROT(5, 6)] + [REL(acc) for acc in range(8)])
    sc["v_dual"] = (["std", "oldkernel", "nomemfd", "nomemfd_noexec", "nomemfd_eexist2", "nomemfd_noexec_eexist3", "nomemfd_eexist_all", "hardened", "hardened_nomemfd"],
                    [D(65536, 7, 0), RD(0)])
    sc["v_dual2"] = (["std", "nomemfd", "nomemfd_noexec"], [D(65536, 7, 0), D(16384, 7, 1), A(4096, 3, 2), RD(0), D(8192, 5, 0), RD(1), REL(2), RD(0)])
    sc["v_dual_tmp"] = (["std", "nomemfd", "nomemfd_eexist2", "nomemfd_noexec"], [D(65536, 7, 0, tmp=True), D(4096, 7, 1), RD(0), RD(1)])
    sc["v_dual_acc"] = (["std", "nomemfd"], [D(8192, 3, 0), D(8192, 5, 1), D(8192, 1, 2), D(8192, 6, 3), RD(0), RD(1), RD(2), RD(3)])
    sc["v_dual_prot"] = (["std"], [D(16384, 7, 0), PROT(0, 1, 0, 4096, view="rx"), PROT(0, 1, 4096, 4096, view="rw"), RD(0)])
    sc["v_huge"] = (["std", "hugesim"], [{"op": "lps"}, A(LP, 7, 0, huge=True), A(LP + 4096, 3, 1, huge=True), A(4096, 3, 2, huge=True), REL(0), REL(1), REL(2)])
    sc["v_args"] = (["std"], [A(0, 3, 0), D(0, 7, 1), A(100, 3, 2), REL(2), A(4096, 3, 3), REL(3, bogus="unaligned"), REL(3, bogus="null"), REL(3),
                              A(12288, 3, 4, sh=True), REL(4), A(8192, 3, 5, maxacc=7), PROT(5, 5), REL(5)])
    sc["v_jit"] = (["std"], [A(8192, 7, 0), {"op": "scope", "s": 0, "policy": 0}, {"op": "unscope"}, {"op": "scope", "s": 0, "policy": 2}, {"op": "unscope"},
                             {"op": "jit", "acc": "RW"}, {"op": "jit", "acc": "RX"}, {"op": "flush", "s": 0}, REL(0)])
    return sc


def rt_scenarios():
    sc = {}
    life = [ADD(0, 1, 11), ADD(1, 7, 22, 200000), ADD(2, 3, 33, 100), RREL(0), ADD(0, 1, 44), RREL(1), RREL(0), RREL(2)]
    sc["r_default"] = (["std", "hardened"], [RTNEW()] + life + [DEL])
    sc["r_dual_fill_imm"] = (["std", "nomemfd", "nomemfd_noexec"], [RTNEW(dual=True, fill=True, imm=True)] + life + [DEL])
    sc["r_dual"] = (["std"], [RTNEW(dual=True)] + life + [RESET_S, ADD(0, 5, 55), DEL])
    sc["r_fill"] = (["std"], [RTNEW(fill=True), ADD(0, 1, 1, 500), ADD(1, 2, 2), RREL(0), ADD(0, 1, 3, 500), RESET_S, ADD(0, 7, 4), RESET_H, ADD(1, 1, 5), DEL])
    sc["r_imm"] = (["std"], [RTNEW(imm=True), ADD(0, 1, 1), RREL(0), ADD(0, 1, 2), ADD(1, 1, 3, 70000), RREL(1), RESET_S, ADD(0, 1, 4), DEL])
    sc["r_multi_nopad"] = (["std"], [RTNEW(multi=True, nopad=True, gran=128, block=131072), ADD(0, 1, 1), ADD(1, 1, 2, 200), ADD(2, 1, 3, 900), ADD(3, 3, 4, 3000),
                                     RREL(1), RREL(3), RESET_S, ADD(0, 1, 5), RESET_H, DEL])
    sc["r_large"] = (["std", "hugesim"], [RTNEW(lp=True, alignlp=True), ADD(0, 1, 1), ADD(1, 7, 2, 70000), RREL(0), RREL(1), DEL])
    sc["r_large2"] = (["hugesim"], [RTNEW(lp=True, block=4194304), ADD(0, 1, 1), RESET_S, ADD(0, 1, 2), DEL])
    sc["r_args"] = (["std"], [RTNEW(gran=100, block=1000), ADD(0, -1), RREL(0, bogus="null"), RREL(0, bogus="foreign"), ADD(0, 1, 1), RREL(1, bogus="foreign"),
                              ADD(1, -1), RREL(0), DEL, RTNEW(dual=True, gran=256, block=65536), ADD(0, 1, 9), DEL])
    return sc


def cycle_scripts(seed, quick):
    """no descriptor / mapping leak across N cycles (and with a failure somewhere in the middle)"""
    rng = random.Random(seed * 7 + 1)
    vm_cycle = []
    for i in range(12):
        vm_cycle += [D(65536, 7, 0, tmp=i % 3 == 2), A(16384, 7, 1), RD(0), REL(1)]
    rt_cycle = [RTNEW(dual=True, fill=True)]
    for i in range(10):
        rt_cycle += [ADD(0, 7, i, 300), ADD(1, 1, i + 50, 70000), RREL(0), RREL(1)] + ([RESET_S] if i % 4 == 3 else [])
    rt_cycle += [RESET_H, ADD(0, 1, 1), DEL]
    rt_cycle2 = [RTNEW(imm=True)] + rt_cycle[1:]
    out = []
    for name, envs, ops in (("c_vm", ["std", "nomemfd", "nomemfd_noexec", "hardened"], vm_cycle), ("c_rt", ["std", "nomemfd", "hardened"], rt_cycle),
                            ("c_rt_imm", ["std"], rt_cycle2)):
        for env in envs:
            out.append({"x": f"{name}/{env}", "env": ENVS[env], "fail": [], "ops": ops})
            for j in range(3 if quick else 12):
                out.append({"x": f"{name}+f{j}/{env}", "env": ENVS[env], "fail": [[rng.randint(1, 120), rng.choice(["ENOMEM", "EMFILE", "EINVAL", "EEXIST"])]],
                            "sticky": j % 3 == 2, "ops": ops})
    return out


def systematic_scripts(quick):
    scripts = []
    for group in (vm_scenarios(), rt_scenarios()):
        for name, (envs, ops) in group.items():
            for env in envs:
                scripts.append({"x": f"{name}/{env}", "env": ENVS[env], "fail": "each", "errnos": "first" if quick else "all", "ops": ops})
    return scripts


def random_scripts(seed, count):
    rng = random.Random(seed)
    scripts = []
    errs = ["ENOMEM", "EINVAL", "EACCES", "EMFILE", "EEXIST", "ENOSYS", "ENOSPC", "EIO", "EAGAIN"]
    envs = list(ENVS)
    for i in range(count):
        ops = []
        env = rng.choice(envs) if rng.random() < 0.6 else "std"
        if rng.random() < 0.5:
            for _ in range(rng.randint(3, 12)):
                c = rng.random()
                s = rng.randint(0, 3)
                if c < 0.25:
                    ops.append(A(rng.choice([4096, 8192, 65536, 100, 12288]), rng.randint(0, 7), s, sh=rng.random() < 0.2,
                                 huge=rng.random() < 0.1))
                elif c < 0.5:
                    ops.append(D(rng.choice([4096, 16384, 65536]), rng.choice([1, 3, 5, 7, 7, 7]), s, tmp=rng.random() < 0.3))
                elif c < 0.62:
                    ops.append(REL(s))
                elif c < 0.74:
                    ops.append(RD(s))
                elif c < 0.86:
                    ops.append(PROT(s, rng.randint(0, 7), rng.choice([0, 4096]), rng.choice([0, 4096]), view=rng.choice(["rx", "rw"])))
                else:
                    ops.append({"op": rng.choice(["info", "lps", "hri"])})
            ops += [REL(s) for s in range(4)] + [RD(s) for s in range(4)]
        else:
            huge = env == "hugesim" and rng.random() < 0.7
            ops.append(RTNEW(dual=rng.random() < 0.4, multi=rng.random() < 0.3, fill=rng.random() < 0.4, imm=rng.random() < 0.4,
                             nopad=rng.random() < 0.3, lp=huge or rng.random() < 0.1, alignlp=huge and rng.random() < 0.5,
                             gran=rng.choice([0, 64, 128, 256, 100]), block=rng.choice([0, 65536, 131072, 1000])))
            for _ in range(rng.randint(3, 12)):
                c = rng.random()
                s = rng.randint(0, 4)
                if c < 0.5:
                    ops.append(ADD(s, rng.choice([-1, 0, 1, 1, 2, 3, 5, 7, 7]), rng.randint(1, 1000), rng.choice([0, 0, 100, 700, 5000, 70000])))
                elif c < 0.8:
                    ops.append(RREL(s) if rng.random() < 0.9 else RREL(s, bogus=rng.choice(["null", "foreign"])))
                elif c < 0.9:
                    ops.append(RESET_S)
                else:
                    ops.append(RESET_H)
            if rng.random() < 0.3:
                ops += [RREL(s) for s in range(5)]
            ops.append(DEL)
        c = rng.random()
        fail = []
        if c < 0.6:
            fail = [[rng.randint(1, 40), rng.choice(errs)]]
        elif c < 0.8:
            fail = sorted([[rng.randint(1, 40), rng.choice(errs)] for _ in range(2)])
        scripts.append({"x": f"rnd{seed}_{i}/{env}", "env": ENVS[env], "fail": fail, "sticky": bool(fail) and rng.random() < 0.2, "ops": ops})
    return scripts


# ----------------------------------------------------------------------------------------------------------
# Known findings: reason -> key (a rejected execution is a known finding iff all its reasons are listed)
# ----------------------------------------------------------------------------------------------------------
REASON_KEYS = {
    "reset: kFillUnusedMemory, but memory of a kept block was not wiped": "reset-soft:kFillUnusedMemory:kept-block-keeps-old-code",
}


def record_and_validate(ctx, bdir, scripts, tag, timeout=2400):
    """-> (executions, events, rejected executions)"""
    sp, raw, norm = ctx.path(f"{tag}_scripts.ndjson"), ctx.path(f"{tag}_raw.ndjson"), ctx.path(f"{tag}_norm.ndjson")
    tmpd = ctx.path(f"{tag}_tmp")
    os.makedirs(tmpd, exist_ok=True)
    vlib.write_ndjson(sp, scripts)
    vlib.record_trace(ctx, bdir, "virtmem", ["run", sp, raw], raw, timeout=timeout, env={"TMPDIR": tmpd, "VERIF_SEED": ctx.seed})
    left = os.listdir(tmpd)
    execs, recs = normalise(raw, norm)
    # hygiene: shared-memory names the traced code created and did not unlink (only happens when the property is broken)
    names = set()
    for r in recs:
        if r.get("e") == "Os" and r.get("ok"):
            if r.get("fn") == "shm_open":
                names.add(r["name"])
            elif r.get("fn") == "shm_unlink":
                names.discard(r["name"])
    for nm in names:
        try:
            os.unlink("/dev/shm/" + nm.lstrip("/"))
        except OSError:
            pass
    shutil.rmtree(tmpd, ignore_errors=True)
    n, rej = validate(ctx, norm, tag, timeout=timeout)
    return n, recs, rej, left


def report(ctx, scripts, rej, tag):
    by_x = {s["x"]: s for s in scripts}
    nviol = 0
    for d in rej:
        keys = [REASON_KEYS.get(w) for w in d["reasons"]]
        if all(k is not None and k in ctx.known for k in keys):
            for k in set(keys):
                ctx.known_finding(k, ctx.known[k])
            continue
        nviol += 1
        if nviol > 12:
            continue
        sc = by_x.get(d["x"], {"ops": []})
        rp = ctx.path(f"{tag}_replay_{nviol}.ndjson")
        vlib.write_ndjson(rp, [{"x": d["x"], "env": d["env"], "fail": d["fail"], "sticky": d.get("sticky", False), "ops": sc["ops"]}])
        unknown = [w for w in d["reasons"] if REASON_KEYS.get(w) not in ctx.known]
        ctx.violation(f"{d['x']} fail={json.dumps(d['fail'])} rejected at event {d['rel']} ({d['event']}): " + "; ".join(unknown[:4]) +
                      f"   event={json.dumps(d['first'])[:240]}", rp)
    return nviol


# ----------------------------------------------------------------------------------------------------------
# Design level: the transcription (VirtMemImpl) against the contract, negative controls, coverage, export
# ----------------------------------------------------------------------------------------------------------
MC_TMPL = """SPECIFICATION ISpec
CONSTANTS
  Grans = {{2, 4}}
  DefGran = 2
  MinBlock = 8
  MaxBlock = 64
  MaxOps = {ops}
  MaxFaults = {faults}
  Level = "{level}"
  Bug = "{bug}"
  EnvSet <- {envs}
INVARIANTS {inv}
"""
ALL_INV = "Accepted CInv WXEnforced"
BUG_ONLY_ACTIONS = {"RaNested"}


def mc(ctx, tag, level, ops, faults, bug="none", envs="EnvsSome", inv=ALL_INV, workers=6, coverage=False, timeout=2400, simulate=None, depth=None):
    cfg = ctx.path(f"mc_{tag}.cfg")
    open(cfg, "w").write(MC_TMPL.format(ops=ops, faults=faults, level=level, bug=bug, envs=envs, inv=inv))
    return vlib.run_tlc(ctx, MOD_MC, cfg, workers=workers, timeout=timeout, heap="6g", tag=tag, coverage=coverage, simulate=simulate, depth=depth,
                        seed=ctx.seed if simulate else None)


def actions_taken(out):
    """-> {action: taken?} from TLC -coverage output"""
    res = {}
    for m in re.finditer(r"^<(\w+) line \d+, col \d+ to line \d+, col \d+ of module VirtMemImpl>: (\d+):(\d+)", out, re.M):
        res[m.group(1)] = res.get(m.group(1), False) or int(m.group(3)) > 0
    return res


def design(ctx):
    """-> behaviours [(level, [env, hist, faults])] exported by the exhaustive runs"""
    import concurrent.futures
    q = ctx.quick
    taken = {}
    behs = []
    runs = [("vm", "vm", 2, 1, "EnvsSome" if q else "EnvsAll"), ("rt", "rt", 3 if q else 4, 1, "EnvsSome")]
    if not q:
        runs.append(("vm2f", "vm", 2, 2, "EnvsSome"))
    negs = [("leakFirstView", "vm", 2), ("noUnlink", "vm", 2), ("leakOnMallocFail", "rt", 3), ("noFallback", "rt", 3), ("relocRw", "rt", 3),
            ("keepEmpty", "rt", 3), ("noFlush", "rt", 3), ("nestedScope", "rt", 3)]
    if q:
        negs = [n for n in negs if n[0] in ("leakFirstView", "leakOnMallocFail", "relocRw", "nestedScope")]
    with concurrent.futures.ThreadPoolExecutor(max_workers=6) as ex:
        fd = {tag: ex.submit(mc, ctx, f"design_{tag}", level, ops, faults, "none", envs, ALL_INV + " Export", 5, True) for tag, level, ops, faults, envs in runs}
        fn = {bug: ex.submit(mc, ctx, f"neg_{bug}", level, ops, 1, bug, "EnvsSome", ALL_INV, 2, False, 900) for bug, level, ops in negs}
        for tag, level, ops, faults, envs in runs:
            r = fd[tag].result()
            vlib.tlc_must_ok(ctx, r, f"design {tag} (VirtMemImpl against the contract, every fault position, {envs})")
            behs += [(level, b) for b in vlib.parse_beh(r.out)]
            ctx.log(f"design {tag}: {r.distinct} distinct states, Accepted + CInv + WXEnforced hold (MaxOps={ops}, <={faults} injected failure(s), {envs})")
            ctx.extra[f"design_{tag}_states"] = r.distinct
            for a, t in actions_taken(r.out).items():
                taken[a] = taken.get(a, False) or t
        never = sorted(a for a, t in taken.items() if not t and a not in BUG_ONLY_ACTIONS)
        if never or len(taken) < 60:
            raise Broken(f"coverage: actions never taken: {never} (actions seen: {len(taken)})")
        ctx.log(f"coverage: all {len(taken) - len(BUG_ONLY_ACTIONS & set(taken))} actions of the transcription taken")
        # negative controls: the seeded slips must be rejected by the contract
        for bug, level, ops in negs:
            r = fn[bug].result()
            if r.kind != "violation" or r.violated not in ("Accepted", "CInv"):
                raise Broken(f"negative control '{bug}' was not rejected (kind={r.kind} violated={r.violated})")
    ctx.log(f"{len(negs)} negative controls rejected: " + ", ".join(n[0] for n in negs))
    return behs


def model_scripts(ctx, quick, behs):
    """behaviours of the transcription -> scripts for the real code"""
    rng = random.Random(ctx.seed)
    behs = list(behs)
    if not quick:
        r = mc(ctx, "sim_rt", "rt", 6, 2, inv="Export", envs="EnvsAll", simulate=6000, depth=400, workers=4)
        if r.kind != "ok":
            raise Broken("simulation export failed: " + r.out[-800:])
        behs += [("rt", b) for b in vlib.parse_beh(r.out)]
    total = len(behs)
    uniq = {}
    for lvl, b in behs:
        if b[1]:
            uniq[json.dumps(b)] = (lvl, b)
    behs = [uniq[k] for k in sorted(uniq)]
    # complete behaviours first (longest histories), those with an injected failure preferred
    full = [x for x in behs if len(x[1][1]) >= (2 if x[0] == "vm" else 3)]
    rng.shuffle(full)
    want = 500 if quick else 12000
    pick = full[:want]
    scripts = []
    for i, (lvl, (envt, hist, fk)) in enumerate(pick):
        env = {"memfd": envt[0], "shmexec": envt[1], "rwx": envt[2], "hugesim": envt[3], "lpfile": envt[4]}
        ops = []
        for op in hist:
            k = op[0]
            if k == "alloc":
                n = LP if op[3] else op[1] * 1024
                ops.append(A(n, op[2], op[4], huge=op[3]))
            elif k == "dual":
                ops.append(D(op[1] * 1024, op[2], op[4], tmp=op[3]))
            elif k == "release":
                ops.append(REL(op[1]))
            elif k == "reldual":
                ops.append(RD(op[1]))
            elif k == "protect":
                ops.append(PROT(op[1], op[2], 0, PAGE))
            elif k in ("hri", "lps"):
                ops.append({"op": k})
            elif k == "rt_new":
                ops.append(RTNEW(dual=op[1], fill=op[2], imm=op[3], lp=op[4], alignlp=op[4]))
            elif k == "rt_add":
                ops.append(ADD(op[2], -1 if op[1] == 0 else (1 if op[1] == 2 else 7), 100 + i % 800, 0 if op[1] <= 2 else 50000))
            elif k == "rt_release":
                ops.append(RREL(op[1]))
            elif k == "rt_reset":
                ops.append(RESET_H if op[1] else RESET_S)
            elif k == "rt_del":
                ops.append(DEL)
            else:
                raise Broken(f"unknown model op {op}")
        scripts.append({"x": f"beh{i}/{lvl}", "env": env, "fail": [[f[0], f[1], f[2]] for f in fk], "ops": ops})
    return total, len(behs), scripts


# ----------------------------------------------------------------------------------------------------------
# Negative controls of the trace specification (non-vacuity): these executions MUST be rejected
# ----------------------------------------------------------------------------------------------------------
def trace_negative_controls(ctx, bdir):
    # (a) real code, misused by the driver: a ProtectJitReadWriteScope opened inside an open one
    nested = {"x": "neg_nested/std", "env": {}, "fail": [], "ops": [A(8192, 7, 0), {"op": "scope", "s": 0, "policy": 0}, {"op": "scope", "s": 0, "policy": 0},
                                                                 {"op": "unscope"}, {"op": "unscope"}, REL(0)]}
    good = {"x": "neg_base/std", "env": {}, "fail": [], "ops": [D(65536, 7, 0), A(8192, 3, 1), RD(0), REL(1), RTNEW(dual=True), ADD(0, 7, 5, 100), RREL(0), DEL]}
    sp, raw = ctx.path("negctl_scripts.ndjson"), ctx.path("negctl_raw.ndjson")
    vlib.write_ndjson(sp, [nested, good])
    os.makedirs(ctx.path("negctl_tmp"), exist_ok=True)
    vlib.record_trace(ctx, bdir, "virtmem", ["run", sp, raw], raw, timeout=120, env={"TMPDIR": ctx.path("negctl_tmp")})
    recs = vlib.read_ndjson(raw)
    execs = vlib.split_executions(recs)
    if len(execs) != 2:
        raise Broken("negative controls: expected two executions")
    base = execs[1]

    def mutate(name, fn):
        out, done = [], False
        for r in base:
            r2 = fn(dict(r), done)
            if r2 is None:
                done = True
                continue
            if r2 is not r and r2 != r:
                done = True
            out.append(r2)
        if not done:
            raise Broken(f"negative control {name}: nothing to corrupt")
        out[0] = dict(out[0], x=f"neg_{name}/std")
        return out
    variants = [execs[0], [dict(base[0], x="neg_none/std")] + base[1:]]
    # (b) a recorded execution with one event removed / one field changed
    muts = [("lost_munmap", lambda r, d: None if (not d and r.get("fn") == "munmap" and r.get("n") == 65536) else r),
            ("lost_close", lambda r, d: None if (not d and r.get("fn") == "close") else r),
            ("wrong_base", lambda r, d: dict(r, base=r["qrw"]) if (r.get("e") == "RtRet" and r.get("api") == "add") else r),
            ("wrong_prot", lambda r, d: dict(r, prot=7) if (not d and r.get("fn") == "mmap" and r.get("prot") == 5 and r.get("n") == 65536) else r),
            ("no_flush", lambda r, d: None if (r.get("e") == "Flush" and r.get("n", 0) < 4096) else r),
            ("crash", lambda r, d: {"e": "ABORT", "why": "signal 11"} if (not d and r.get("e") == "VmRet" and r.get("api") == "dual") else r)]
    failed = []
    for name, fn in muts:
        try:
            variants.append(mutate(name, fn))
        except Broken as ex:
            failed.append(str(ex))
    norm = ctx.path("negctl_norm.ndjson")
    res = []
    for v in variants:
        res += compress_execution(v)
    vlib.write_ndjson(norm, res)
    n, rej = validate(ctx, norm, "negctl", timeout=300)
    rejected = {d["x"] for d in rej}
    if "neg_none/std" in rejected:
        # the unmodified execution of the real code is itself rejected: that is a verdict about the code, not about the controls
        report(ctx, [dict(good, x="neg_none/std")], [d for d in rej if d["x"] == "neg_none/std"], "negctl")
        return
    if failed:
        raise Broken("; ".join(failed))
    want = {"neg_nested/std", "neg_lost_munmap/std", "neg_lost_close/std", "neg_wrong_base/std", "neg_wrong_prot/std", "neg_no_flush/std", "neg_crash/std"}
    if rejected != want:
        raise Broken(f"trace-specification negative controls: rejected {sorted(rejected)}, expected {sorted(want)}")
    ctx.log(f"trace specification: {len(want)} corrupted / misused executions rejected, the unmodified one accepted")


def run(ctx):
    import concurrent.futures
    q = ctx.quick
    bdir = ctx.build("asan", "virtmem")
    # 1. design
    behs = design(ctx)
    # 2. non-vacuity of the trace specification
    trace_negative_controls(ctx, bdir)
    # 3. scenarios: systematic (every fault position), model behaviours, random
    sysx = systematic_scripts(q)
    if not q:
        sysx += [dict(s, x=s["x"].replace("/", "+sticky/"), sticky=True, errnos="first") for s in sysx]
    sysx += cycle_scripts(ctx.seed, q)
    total_beh, uniq_beh, behx = model_scripts(ctx, q, behs)
    rndx = random_scripts(ctx.seed, 300 if q else 12000)
    nshard = 4 if q else 6
    jobs = []
    sysx_sorted = sorted(sysx, key=lambda s: -len(s["ops"]))
    for i in range(nshard):
        jobs.append((f"sys{i}", sysx_sorted[i::nshard]))
    jobs.append(("beh", behx))
    nr = 1 if q else 4
    for i in range(nr):
        jobs.append((f"rnd{i}", rndx[i::nr]))
    results = {}
    with concurrent.futures.ThreadPoolExecutor(max_workers=5) as ex:
        futs = {ex.submit(record_and_validate, ctx, bdir, scripts, tag, 2400 if q else 5000): (tag, scripts) for tag, scripts in jobs}
        for f in concurrent.futures.as_completed(futs):
            tag, scripts = futs[f]
            results[tag] = (scripts, f.result())
    nexec = nev = 0
    outcomes = {}
    leftovers = []
    for tag, (scripts, (n, recs, rej, left)) in sorted(results.items()):
        nexec += n
        nev += len(recs)
        leftovers += left
        x = None
        plan = ()
        for r in recs:
            if r.get("e") == "Reset":
                x, plan = r.get("x", "?").split("/")[0], json.dumps(r.get("fail", []))
                ctx.distinct.add((r.get("x"), plan, r.get("sticky", False)))
            elif r.get("e") in ("VmRet", "RtRet"):
                k = (r["e"], r["api"], r["r"])
                outcomes[k] = outcomes.get(k, 0) + 1
        nv = report(ctx, scripts, rej, tag)
        ctx.log(f"{tag}: {n} executions, {len(recs)} events, {len(rej)} rejected executions ({nv} not known)")
        for d in rej[:1]:
            ctx.add_sample({"source": tag, "x": d["x"], "fail": d["fail"], "rejected": d["reasons"][:2]})
    if leftovers:
        # independent of the specification: files the component left behind in its tmp directory
        ctx.violation(f"files left in TMPDIR after the runs: {leftovers[:5]}", ctx.path("sys0_scripts.ndjson"))
    ctx.traces = nexec - sum(len(v[1][2]) for v in results.values())
    ctx.evaluations = nev
    ctx.extra["executions"] = nexec
    ctx.extra["api_outcomes"] = {f"{k[0]}:{k[1]}:{k[2]}": v for k, v in sorted(outcomes.items())}
    ctx.extra["model_behaviours_exported"] = total_beh
    ctx.extra["model_behaviours_replayed"] = len(behx)
    ctx.samples.insert(0, {"source": "scenario", "example": sysx[0]["x"], "ops": sysx[0]["ops"][:4]})
    some = results["sys0"][1][1]
    i0 = next((i for i, r in enumerate(some) if r.get("e") == "Reset" and r.get("fail")), 0)
    ctx.samples.insert(1, {"source": "recorded events (addresses compressed)", "events": some[i0:i0 + 7]})
    ctx.assumptions += [
        "Linux/x86-64 branch of virtmem.cpp only (the Windows, Apple MAP_JIT / mach_vm_remap and NetBSD MAP_REMAPDUP branches are not compiled here)",
        "OS requests are seen through link-time interposition (--wrap) of the libc entry points virtmem.cpp/osutils.cpp/jitallocator.cpp reference; "
        "a request issued through another entry point would be invisible - the End event cross-checks with /proc/self/fd and /proc/self/maps",
        "environments without memfd_create, with noexec /dev/shm, with W^X enforcement and with huge pages are simulated inside the interposition layer",
        "addresses are compressed per execution (order, adjacency and all distances inside mentioned ranges preserved) by checks/x01.py",
        "munmap failures are injected only into release / release_dual_mapping called by the driver (the allocator cannot react to a failing munmap)",
        "ASan/UBSan build is the environment; a crash / sanitizer report / timeout of the traced process becomes an ABORT line that no action consumes",
    ]
    vlib.write_evidence(ctx, "model_checking",
        rule="events = Os/Vm/Rt/Jit/Flush events recorded from executions of the real code, each judged by the contract VirtMem.tla; "
             "distinct = distinct (scenario, fault plan) executions; scenarios = hand-written life cycles x simulated environments x EVERY fault position "
             "(x errno), behaviours exported by TLC from the transcription VirtMemImpl, seeded random scripts with random fault plans",
        trusted_base=["TLC 1.8.0", "spec/vm/VirtMem.tla (contract)", "harness/virtmem.cpp interposition layer + observations (/proc/self/maps, use of the memory, "
                      "reference image)", "checks/x01.py address compression"])


def replay(ctx, path):
    """path: a scenario file (one script per line, explicit fault plan) written by a previous run"""
    bdir = ctx.build("asan", "virtmem")
    scripts = vlib.read_ndjson(path)
    n, recs, rej, left = record_and_validate(ctx, bdir, scripts, "replay", 900)
    nv = report(ctx, scripts, rej, "replay")
    ctx.log(f"replay: {n} executions, {len(rej)} rejected, {nv} not known")
