"""X01 - VirtMem and JitRuntime: virtual-memory mappings follow the documented life cycle.

Decided by
 (1) TLC, design level: spec/vm/VirtMemImpl.tla - the fall-back logic of virtmem.cpp (hardened-runtime probe,
     memfd_create / shm_open / tmp-file strategy with its detection mmap, EEXIST retry, large pages, dual mapping
     and its clean-up paths) and the block handling of JitAllocator/JitRuntime, transcribed at the granularity of
     one OS request per step, run against an abstract OS in which every request may fail and against every
     simulated environment; every event the transcription emits is judged by the CONTRACT spec/vm/VirtMem.tla
     (invariant Accepted + the contract's own state invariants).  Negative controls (the transcription with a
     seeded clean-up slip) must be rejected.
 (2) Trace validation against the same contract: harness/virtmem.cpp interposes the libc functions and the public
     VirtMem functions at link time inside the harness executable and records Os / Vm / Rt events of executions of
     the real code - systematic scenarios with EVERY fault position k, behaviours exported by TLC from (1), and
     seeded random scenarios - each execution in a fresh process.  VirtMemTrace.tla accepts an execution iff every
     event is allowed by the contract.
"""
import json, os, random, re, shutil
import vlib
from vlib import Broken

SPEC = os.path.join(vlib.VERIF, "spec", "vm")
MOD_T, CFG_T = os.path.join(SPEC, "VirtMemTrace.tla"), os.path.join(SPEC, "VirtMemTrace.cfg")
MOD_MC = os.path.join(SPEC, "VirtMemMC.tla")

ADDR_KEYS = ("a", "p", "rx", "rw", "qrx", "qrw", "base")
LEN_KEYS = ("n", "qn", "size")
PAGE = 4096
GAP = 16            # pages kept between clusters that are not adjacent in memory


# ----------------------------------------------------------------------------------------------------------
# Address compression: order preserving, exact inside every range an event mentions, adjacency preserving.
# ----------------------------------------------------------------------------------------------------------
def compress_execution(recs):
    iv = []
    for r in recs:
        ln = max([int(r[k]) for k in LEN_KEYS if isinstance(r.get(k), int)] + [1])
        for k in ADDR_KEYS:
            v = r.get(k)
            if isinstance(v, int) and v > 0:
                iv.append((v // PAGE, (v + ln + PAGE - 1) // PAGE))
    iv.sort()
    clusters = []
    for lo, hi in iv:
        if clusters and lo <= clusters[-1][1]:
            clusters[-1][1] = max(clusters[-1][1], hi)
        else:
            clusters.append([lo, hi])
    base, cur, prev_hi = {}, 16, None
    starts = []
    for lo, hi in clusters:
        if prev_hi is not None:
            cur += min(lo - prev_hi, GAP)
        starts.append((lo, hi, cur))
        cur += hi - lo
        prev_hi = hi
    if cur * PAGE >= 2 ** 31:
        raise Broken("address compression overflow")

    def conv(v):
        pg = v // PAGE
        for lo, hi, c in starts:
            if lo <= pg < hi:
                return (c + pg - lo) * PAGE + v % PAGE
        raise Broken(f"address {v} not in any cluster")
    out = []
    for r in recs:
        r = dict(r)
        for k in ADDR_KEYS:
            v = r.get(k)
            if isinstance(v, int) and v > 0:
                r[k] = conv(v)
        out.append(r)
    return out


def normalise(raw_path, out_path):
    recs = vlib.read_ndjson(raw_path)
    execs = vlib.split_executions(recs)
    res = []
    for e in execs:
        res += compress_execution(e)
    vlib.write_ndjson(out_path, res)
    return execs, res


# ----------------------------------------------------------------------------------------------------------
# Trace validation: one TLC pass reports every rejected event of a file as <<"REJ", line, event, {reasons}>>.
# ----------------------------------------------------------------------------------------------------------
def rej_lines(out):
    """<<"REJ", line, "VmRet", {"...", "..."}>> possibly wrapped over several lines"""
    res = []
    txt = out.replace("\n", " ")
    for m in re.finditer(r'<<\s*"REJ",\s*(\d+),\s*"(\w+)",\s*\{(.*?)\}\s*>>', txt):
        reasons = re.findall(r'"((?:[^"\\]|\\.)*)"', m.group(3))
        res.append((int(m.group(1)), m.group(2), reasons))
    return res


def validate(ctx, norm_path, tag, timeout=2400, strict=False):
    """-> (number of executions, list of rejected executions {x, fail, env, start, line, event, reasons, records})"""
    recs = vlib.read_ndjson(norm_path)
    if not recs or recs[-1].get("e") != "Reset" or recs[-1].get("x") != "<eof>":
        recs.append({"e": "Reset", "x": "<eof>", "page": PAGE})
        vlib.write_ndjson(norm_path, recs)
    env = {"TRACE": norm_path}
    if strict:
        env["STRICT"] = "1"
    r = vlib.run_tlc(ctx, MOD_T, CFG_T, workers=1, timeout=timeout, env=env, heap="4g", tag=tag)
    ctx.states += r.distinct
    ctx.transitions += r.generated
    mm = re.search(r'<<"MAXL", (\d+), (\d+)>>', r.out)
    if strict and r.kind == "error" and "Postcondition" in r.out and mm:
        return len(recs), [{"line": int(mm.group(1)), "reasons": ["strict mode: stuck"], "x": "?", "event": "?"}]
    if r.kind != "ok" or not mm or int(mm.group(1)) != int(mm.group(2)) + 1:
        raise Broken(f"trace validation {tag} failed to run: kind={r.kind} rc={r.rc} violated={r.violated}\n" + "\n".join(r.out.splitlines()[-30:]))
    starts = [i for i, x in enumerate(recs) if x.get("e") == "Reset"]          # 0-based indices of Reset lines
    nexec = len(starts) - 1
    by_exec = {}
    import bisect
    for ln, evname, reasons in rej_lines(r.out):
        idx = ln - 1
        k = bisect.bisect_right(starts, idx) - 1
        if recs[idx].get("e") == "Reset":          # invariant of the state the previous execution left
            k -= 1
        if k < 0:
            raise Broken(f"rejection at line {ln} before any execution")
        d = by_exec.setdefault(k, {"line": ln, "event": evname, "reasons": [], "first": None})
        if d["first"] is None:
            d["first"] = recs[idx]
        for why in reasons:
            if why not in d["reasons"]:
                d["reasons"].append(why)
    out = []
    for k in sorted(by_exec):
        d = by_exec[k]
        head = recs[starts[k]]
        d.update({"x": head.get("x", "?"), "fail": head.get("fail", []), "env": head.get("env", {}), "sticky": head.get("sticky", False),
                  "records": recs[starts[k]:starts[k + 1]], "rel": d["line"] - 1 - starts[k]})
        out.append(d)
    return nexec, out


# ----------------------------------------------------------------------------------------------------------
# Scenarios
# ----------------------------------------------------------------------------------------------------------
ENVS = {
    "std": {},
    "oldkernel": {"oldkernel": True},
    "nomemfd": {"memfd": False},
    "nomemfd_noexec": {"memfd": False, "shmexec": False},
    "nomemfd_eexist2": {"memfd": False, "eexist": 2},
    "nomemfd_noexec_eexist3": {"memfd": False, "shmexec": False, "eexist": 3},
    "nomemfd_eexist_all": {"memfd": False, "eexist": 1000},
    "hardened": {"rwx": False},
    "hardened_nomemfd": {"rwx": False, "memfd": False},
    "hugesim": {"hugesim": True},
}


def A(n, acc, s, **kw):
    return dict({"op": "alloc", "n": n, "acc": acc, "s": s}, **kw)


def D(n, acc, s, **kw):
    return dict({"op": "dual", "n": n, "acc": acc, "s": s}, **kw)


def REL(s, **kw):
    return dict({"op": "release", "s": s}, **kw)


def RD(s):
    return {"op": "reldual", "s": s}


def PROT(s, acc, off=0, n=0, **kw):
    return dict({"op": "protect", "s": s, "acc": acc, "off": off, "n": n}, **kw)


def RTNEW(**kw):
    d = {"op": "rt_new", "dual": False, "multi": False, "fill": False, "imm": False, "nopad": False, "lp": False, "alignlp": False, "gran": 0, "block": 0}
    d.update(kw)
    return d


def ADD(s, kind=1, K=11, pad=0):
    return {"op": "rt_add", "s": s, "kind": kind, "K": K, "pad": pad}


def RREL(s, **kw):
    return dict({"op": "rt_release", "s": s}, **kw)


RESET_S, RESET_H, DEL = {"op": "rt_reset", "hard": False}, {"op": "rt_reset", "hard": True}, {"op": "rt_del"}
LP = 2 * 1024 * 1024


def vm_scenarios():
    """name -> (envs, ops)"""
    sc = {}
    sc["v_basic"] = (["std", "hardened"], [{"op": "info"}, {"op": "lps"}, {"op": "hri"}, A(65536, 7, 0), PROT(0, 5, 4096, 8192), PROT(0, 3),
                                         {"op": "info"}, {"op": "lps"}, {"op": "hri"}, REL(0)])
    sc["v_access"] = (["std"], [A(8192, acc, acc) for acc in range(8)] + [PROT(1, 0), PROT(2, 1), PROT(3, 4), PROT(5, 6)] + [REL(acc) for acc in range(8)])
    sc["v_dual"] = (["std", "oldkernel", "nomemfd", "nomemfd_noexec", "nomemfd_eexist2", "nomemfd_noexec_eexist3", "nomemfd_eexist_all", "hardened", "hardened_nomemfd"],
                    [D(65536, 7, 0), RD(0)])
    sc["v_dual2"] = (["std", "nomemfd", "nomemfd_noexec"], [D(65536, 7, 0), D(16384, 7, 1), A(4096, 3, 2), RD(0), D(8192, 5, 0), RD(1), REL(2), RD(0)])
    sc["v_dual_tmp"] = (["std", "nomemfd", "nomemfd_eexist2", "nomemfd_noexec"], [D(65536, 7, 0, tmp=True), D(4096, 7, 1), RD(0), RD(1)])
    sc["v_dual_acc"] = (["std", "nomemfd"], [D(8192, 3, 0), D(8192, 5, 1), D(8192, 1, 2), D(8192, 6, 3), RD(0), RD(1), RD(2), RD(3)])
    sc["v_dual_prot"] = (["std"], [D(16384, 7, 0), PROT(0, 1, 0, 4096, view="rx"), PROT(0, 1, 4096, 4096, view="rw"), RD(0)])
    sc["v_huge"] = (["std", "hugesim"], [{"op": "lps"}, A(LP, 7, 0, huge=True), A(LP + 4096, 3, 1, huge=True), A(4096, 3, 2, huge=True), REL(0), REL(1), REL(2)])
    sc["v_args"] = (["std"], [A(0, 3, 0), D(0, 7, 1), A(100, 3, 2), REL(2), A(4096, 3, 3), REL(3, bogus="unaligned"), REL(3, bogus="null"), REL(3),
                              A(12288, 3, 4, sh=True), REL(4)])
    sc["v_jit"] = (["std"], [A(8192, 7, 0), {"op": "scope", "s": 0, "policy": 0}, {"op": "unscope"}, {"op": "scope", "s": 0, "policy": 2}, {"op": "unscope"},
                             {"op": "jit", "acc": "RW"}, {"op": "jit", "acc": "RX"}, {"op": "flush", "s": 0}, REL(0)])
    return sc


def rt_scenarios():
    sc = {}
    life = [ADD(0, 1, 11), ADD(1, 7, 22, 200000), ADD(2, 3, 33, 100), RREL(0), ADD(0, 1, 44), RREL(1), RREL(0), RREL(2)]
    sc["r_default"] = (["std", "hardened"], [RTNEW()] + life + [DEL])
    sc["r_dual_fill_imm"] = (["std", "nomemfd", "nomemfd_noexec"], [RTNEW(dual=True, fill=True, imm=True)] + life + [DEL])
    sc["r_dual"] = (["std"], [RTNEW(dual=True)] + life + [RESET_S, ADD(0, 5, 55), DEL])
    sc["r_fill"] = (["std"], [RTNEW(fill=True), ADD(0, 1, 1, 500), ADD(1, 2, 2), RREL(0), ADD(0, 1, 3, 500), RESET_S, ADD(0, 7, 4), RESET_H, ADD(1, 1, 5), DEL])
    sc["r_imm"] = (["std"], [RTNEW(imm=True), ADD(0, 1, 1), RREL(0), ADD(0, 1, 2), ADD(1, 1, 3, 70000), RREL(1), RESET_S, ADD(0, 1, 4), DEL])
    sc["r_multi_nopad"] = (["std"], [RTNEW(multi=True, nopad=True, gran=128, block=131072), ADD(0, 1, 1), ADD(1, 1, 2, 200), ADD(2, 1, 3, 900), ADD(3, 3, 4, 3000),
                                     RREL(1), RREL(3), RESET_S, ADD(0, 1, 5), RESET_H, DEL])
    sc["r_large"] = (["std", "hugesim"], [RTNEW(lp=True, alignlp=True), ADD(0, 1, 1), ADD(1, 7, 2, 70000), RREL(0), RREL(1), DEL])
    sc["r_large2"] = (["hugesim"], [RTNEW(lp=True, block=4194304), ADD(0, 1, 1), RESET_S, ADD(0, 1, 2), DEL])
    sc["r_args"] = (["std"], [RTNEW(gran=100, block=1000), ADD(0, -1), RREL(0, bogus="null"), RREL(0, bogus="foreign"), ADD(0, 1, 1), RREL(1, bogus="foreign"),
                              ADD(1, -1), RREL(0), DEL, RTNEW(dual=True, gran=256, block=65536), ADD(0, 1, 9), DEL])
    return sc


def systematic_scripts(quick):
    scripts = []
    for group in (vm_scenarios(), rt_scenarios()):
        for name, (envs, ops) in group.items():
            for env in envs:
                scripts.append({"x": f"{name}/{env}", "env": ENVS[env], "fail": "each", "errnos": "first" if quick else "all", "ops": ops})
    return scripts


def random_scripts(seed, count):
    rng = random.Random(seed)
    scripts = []
    errs = ["ENOMEM", "EINVAL", "EACCES", "EMFILE", "EEXIST", "ENOSYS", "ENOSPC", "EIO", "EAGAIN"]
    envs = list(ENVS)
    for i in range(count):
        ops = []
        env = rng.choice(envs) if rng.random() < 0.6 else "std"
        if rng.random() < 0.5:
            for _ in range(rng.randint(3, 12)):
                c = rng.random()
                s = rng.randint(0, 3)
                if c < 0.25:
                    ops.append(A(rng.choice([4096, 8192, 65536, 100, 12288]), rng.randint(0, 7), s, sh=rng.random() < 0.2,
                                 huge=rng.random() < 0.1))
                elif c < 0.5:
                    ops.append(D(rng.choice([4096, 16384, 65536]), rng.choice([1, 3, 5, 7, 7, 7]), s, tmp=rng.random() < 0.3))
                elif c < 0.62:
                    ops.append(REL(s))
                elif c < 0.74:
                    ops.append(RD(s))
                elif c < 0.86:
                    ops.append(PROT(s, rng.randint(0, 7), rng.choice([0, 4096]), rng.choice([0, 4096]), view=rng.choice(["rx", "rw"])))
                else:
                    ops.append({"op": rng.choice(["info", "lps", "hri"])})
            ops += [REL(s) for s in range(4)] + [RD(s) for s in range(4)]
        else:
            huge = env == "hugesim" and rng.random() < 0.7
            ops.append(RTNEW(dual=rng.random() < 0.4, multi=rng.random() < 0.3, fill=rng.random() < 0.4, imm=rng.random() < 0.4,
                             nopad=rng.random() < 0.3, lp=huge or rng.random() < 0.1, alignlp=huge and rng.random() < 0.5,
                             gran=rng.choice([0, 64, 128, 256, 100]), block=rng.choice([0, 65536, 131072, 1000])))
            for _ in range(rng.randint(3, 12)):
                c = rng.random()
                s = rng.randint(0, 4)
                if c < 0.5:
                    ops.append(ADD(s, rng.choice([-1, 0, 1, 1, 2, 3, 5, 7, 7]), rng.randint(1, 1000), rng.choice([0, 0, 100, 700, 5000, 70000])))
                elif c < 0.8:
                    ops.append(RREL(s) if rng.random() < 0.9 else RREL(s, bogus=rng.choice(["null", "foreign"])))
                elif c < 0.9:
                    ops.append(RESET_S)
                else:
                    ops.append(RESET_H)
            if rng.random() < 0.3:
                ops += [RREL(s) for s in range(5)]
            ops.append(DEL)
        c = rng.random()
        fail = []
        if c < 0.6:
            fail = [[rng.randint(1, 40), rng.choice(errs)]]
        elif c < 0.8:
            fail = sorted([[rng.randint(1, 40), rng.choice(errs)] for _ in range(2)])
        scripts.append({"x": f"rnd{seed}_{i}/{env}", "env": ENVS[env], "fail": fail, "sticky": bool(fail) and rng.random() < 0.2, "ops": ops})
    return scripts


# ----------------------------------------------------------------------------------------------------------
# Known findings: reason -> key (a rejected execution is a known finding iff all its reasons are listed)
# ----------------------------------------------------------------------------------------------------------
REASON_KEYS = {
    "reset: kFillUnusedMemory, but memory of a kept block was not wiped": "reset-soft:kFillUnusedMemory:kept-block-keeps-old-code",
}


def record_and_validate(ctx, bdir, scripts, tag, timeout=2400):
    """-> (executions, events, rejected executions)"""
    sp, raw, norm = ctx.path(f"{tag}_scripts.ndjson"), ctx.path(f"{tag}_raw.ndjson"), ctx.path(f"{tag}_norm.ndjson")
    tmpd = ctx.path(f"{tag}_tmp")
    os.makedirs(tmpd, exist_ok=True)
    vlib.write_ndjson(sp, scripts)
    vlib.record_trace(ctx, bdir, "virtmem", ["run", sp, raw], raw, timeout=timeout, env={"TMPDIR": tmpd, "VERIF_SEED": ctx.seed})
    left = os.listdir(tmpd)
    execs, recs = normalise(raw, norm)
    n, rej = validate(ctx, norm, tag, timeout=timeout)
    return n, recs, rej, left


def report(ctx, scripts, rej, tag):
    by_x = {s["x"]: s for s in scripts}
    nviol = 0
    for d in rej:
        keys = [REASON_KEYS.get(w) for w in d["reasons"]]
        if all(k is not None and k in ctx.known for k in keys):
            for k in set(keys):
                ctx.known_finding(k, ctx.known[k])
            continue
        nviol += 1
        if nviol > 12:
            continue
        sc = by_x.get(d["x"], {"ops": []})
        rp = ctx.path(f"{tag}_replay_{nviol}.ndjson")
        vlib.write_ndjson(rp, [{"x": d["x"], "env": d["env"], "fail": d["fail"], "sticky": d.get("sticky", False), "ops": sc["ops"]}])
        unknown = [w for w in d["reasons"] if REASON_KEYS.get(w) not in ctx.known]
        ctx.violation(f"{d['x']} fail={json.dumps(d['fail'])} rejected at event {d['rel']} ({d['event']}): " + "; ".join(unknown[:4]) +
                      f"   event={json.dumps(d['first'])[:240]}", rp)
    return nviol
