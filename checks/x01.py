"""X01 - VirtMem and JitRuntime: virtual-memory mappings follow the documented life cycle.

Decided by
 (1) TLC, design level: spec/vm/VirtMemImpl.tla - the fall-back logic of virtmem.cpp (hardened-runtime probe,
     memfd_create / shm_open / tmp-file strategy with its detection mmap, EEXIST retry, large pages, dual mapping
     and its clean-up paths) and the block handling of JitAllocator/JitRuntime, transcribed at the granularity of
     one OS request per step, run against an abstract OS in which every request may fail and against every
     simulated environment; every event the transcription emits is judged by the CONTRACT spec/vm/VirtMem.tla
     (invariant Accepted + the contract's own state invariants).  Negative controls (the transcription with a
     seeded clean-up slip) must be rejected.
 (2) Trace validation against the same contract: harness/virtmem.cpp interposes the libc functions and the public
     VirtMem functions at link time inside the harness executable and records Os / Vm / Rt events of executions of
     the real code - systematic scenarios with EVERY fault position k, behaviours exported by TLC from (1), and
     seeded random scenarios - each execution in a fresh process.  VirtMemTrace.tla accepts an execution iff every
     event is allowed by the contract.
"""
import json, os, random, re, shutil
import vlib
from vlib import Broken

SPEC = os.path.join(vlib.VERIF, "spec", "vm")
MOD_T, CFG_T = os.path.join(SPEC, "VirtMemTrace.tla"), os.path.join(SPEC, "VirtMemTrace.cfg")
MOD_MC = os.path.join(SPEC, "VirtMemMC.tla")

ADDR_KEYS = ("a", "p", "rx", "rw", "qrx", "qrw", "base")
LEN_KEYS = ("n", "qn", "size")
PAGE = 4096
GAP = 16            # pages kept between clusters that are not adjacent in memory


# ----------------------------------------------------------------------------------------------------------
# Address compression: order preserving, exact inside every range an event mentions, adjacency preserving.
# ----------------------------------------------------------------------------------------------------------
def compress_execution(recs):
    iv = []
    for r in recs:
        ln = max([int(r[k]) for k in LEN_KEYS if isinstance(r.get(k), int)] + [1])
        for k in ADDR_KEYS:
            v = r.get(k)
            if isinstance(v, int) and v > 0:
                iv.append((v // PAGE, (v + ln + PAGE - 1) // PAGE))
    iv.sort()
    clusters = []
    for lo, hi in iv:
        if clusters and lo <= clusters[-1][1]:
            clusters[-1][1] = max(clusters[-1][1], hi)
        else:
            clusters.append([lo, hi])
    base, cur, prev_hi = {}, 16, None
    starts = []
    for lo, hi in clusters:
        if prev_hi is not None:
            cur += min(lo - prev_hi, GAP)
        starts.append((lo, hi, cur))
        cur += hi - lo
        prev_hi = hi
    if cur * PAGE >= 2 ** 31:
        raise Broken("address compression overflow")

    def conv(v):
        pg = v // PAGE
        for lo, hi, c in starts:
            if lo <= pg < hi:
                return (c + pg - lo) * PAGE + v % PAGE
        raise Broken(f"address {v} not in any cluster")
    out = []
    for r in recs:
        r = dict(r)
        for k in ADDR_KEYS:
            v = r.get(k)
            if isinstance(v, int) and v > 0:
                r[k] = conv(v)
        out.append(r)
    return out


def normalise(raw_path, out_path):
    recs = vlib.read_ndjson(raw_path)
    execs = vlib.split_executions(recs)
    res = []
    for e in execs:
        res += compress_execution(e)
    vlib.write_ndjson(out_path, res)
    return execs, res


# ----------------------------------------------------------------------------------------------------------
# Trace validation: one TLC pass reports every rejected execution (REJ lines); an invariant violation cuts the
# execution it happened in and validation is repeated on the rest.
# ----------------------------------------------------------------------------------------------------------
def parse_rej(out):
    rej = []
    for v in vlib.parse_beh(out, tag="REJ"):
        # v = [line, event, {reasons}]  - the set prints as {"a", "b"}; parse_beh fails on sets -> handled below
        rej.append(v)
    return rej


def rej_lines(out):
    """<<"REJ", line, "VmRet", {"...", "..."}>> possibly wrapped over several lines"""
    res = []
    txt = out.replace("\n", " ")
    for m in re.finditer(r'<<\s*"REJ",\s*(\d+),\s*"(\w+)",\s*\{(.*?)\}\s*>>', txt):
        reasons = re.findall(r'"((?:[^"\\]|\\.)*)"', m.group(3))
        res.append((int(m.group(1)), m.group(2), reasons))
    return res


def validate(ctx, norm_path, tag, timeout=1500):
    """-> list of (lineno (1-based, in norm file), event name, [reasons])"""
    recs = vlib.read_ndjson(norm_path)
    rejected = []
    offset = 0
    work = recs
    for rnd in range(6):
        p = ctx.path(f"{tag}_v{rnd}.ndjson")
        vlib.write_ndjson(p, work)
        r = vlib.run_tlc(ctx, MOD_T, CFG_T, workers=1, timeout=timeout, env={"TRACE": p}, heap="4g", tag=f"{tag}{rnd}")
        ctx.states += r.distinct
        ctx.transitions += r.generated
        mm = re.search(r'<<"MAXL", (\d+), (\d+)>>', r.out)
        rej = rej_lines(r.out)
        if r.kind == "ok":
            if not mm or int(mm.group(1)) != int(mm.group(2)) + 1:
                raise Broken(f"trace validation {tag}: accepted without consuming the file\n" + r.out[-800:])
            rejected += [(ln + offset, ev, why) for ln, ev, why in rej]
            return rejected
        if r.kind == "violation":
            st = vlib.parse_state_dump(r.out)
            l = int(st.get("l", "0") or 0)
            if l < 2:
                raise Broken(f"trace validation {tag}: invariant violated at the start\n" + r.out[-1500:])
            bad = l - 1                         # the event whose effect produced the state
            rejected += [(ln + offset, ev, why) for ln, ev, why in rej if ln < bad]
            rejected.append((bad + offset, work[bad - 1].get("e", "?"), [f"state invariant {r.violated} violated"]))
            # resume after the execution containing `bad`
            nxt = next((i for i in range(bad, len(work)) if work[i].get("e") == "Reset"), len(work))
            offset += nxt
            work = work[nxt:]
            if not work:
                return rejected
            continue
        raise Broken(f"trace validation {tag} failed to run: kind={r.kind} rc={r.rc}\n" + "\n".join(r.out.splitlines()[-30:]))
    raise Broken("too many invariant violations in one file")


# ----------------------------------------------------------------------------------------------------------
# Scenarios
# ----------------------------------------------------------------------------------------------------------
ENVS = {
    "std": {},
    "oldkernel": {"oldkernel": True},
    "nomemfd": {"memfd": False},
    "nomemfd_noexec": {"memfd": False, "shmexec": False},
    "nomemfd_eexist2": {"memfd": False, "eexist": 2},
    "nomemfd_noexec_eexist3": {"memfd": False, "shmexec": False, "eexist": 3},
    "nomemfd_eexist_all": {"memfd": False, "eexist": 1000},
    "hardened": {"rwx": False},
    "hardened_nomemfd": {"rwx": False, "memfd": False},
    "hugesim": {"hugesim": True},
}


def A(n, acc, s, **kw):
    return dict({"op": "alloc", "n": n, "acc": acc, "s": s}, **kw)


def D(n, acc, s, **kw):
    return dict({"op": "dual", "n": n, "acc": acc, "s": s}, **kw)


def REL(s, **kw):
    return dict({"op": "release", "s": s}, **kw)


def RD(s):
    return {"op": "reldual", "s": s}


def PROT(s, acc, off=0, n=0, **kw):
    return dict({"op": "protect", "s": s, "acc": acc, "off": off, "n": n}, **kw)


def RTNEW(**kw):
    d = {"op": "rt_new", "dual": False, "multi": False, "fill": False, "imm": False, "nopad": False, "lp": False, "alignlp": False, "gran": 0, "block": 0}
    d.update(kw)
    return d


def ADD(s, kind=1, K=11, pad=0):
    return {"op": "rt_add", "s": s, "kind": kind, "K": K, "pad": pad}


def RREL(s, **kw):
    return dict({"op": "rt_release", "s": s}, **kw)


RESET_S, RESET_H, DEL = {"op": "rt_reset", "hard": False}, {"op": "rt_reset", "hard": True}, {"op": "rt_del"}
LP = 2 * 1024 * 1024


def vm_scenarios():
    """name -> (envs, ops)"""
    sc = {}
    sc["v_basic"] = (["std", "hardened"], [{"op": "info"}, {"op": "lps"}, {"op": "hri"}, A(65536, 7, 0), PROT(0, 5, 4096, 8192), PROT(0, 3),
                                         {"op": "info"}, {"op": "lps"}, {"op": "hri"}, REL(0)])
    sc["v_access"] = (["std"], [A(8192, acc, acc) for acc in range(8)] + [PROT(1, 0), PROT(2, 1), PROT(3, 4), PROT(5, 6)] + [REL(acc) for acc in range(8)])
    sc["v_dual"] = (["std", "oldkernel", "nomemfd", "nomemfd_noexec", "nomemfd_eexist2", "nomemfd_noexec_eexist3", "nomemfd_eexist_all", "hardened", "hardened_nomemfd"],
                    [D(65536, 7, 0), RD(0)])
    sc["v_dual2"] = (["std", "nomemfd", "nomemfd_noexec"], [D(65536, 7, 0), D(16384, 7, 1), A(4096, 3, 2), RD(0), D(8192, 5, 0), RD(1), REL(2), RD(0)])
    sc["v_dual_tmp"] = (["std", "nomemfd", "nomemfd_eexist2", "nomemfd_noexec"], [D(65536, 7, 0, tmp=True), D(4096, 7, 1), RD(0), RD(1)])
    sc["v_dual_acc"] = (["std", "nomemfd"], [D(8192, 3, 0), D(8192, 5, 1), D(8192, 1, 2), D(8192, 6, 3), RD(0), RD(1), RD(2), RD(3)])
    sc["v_dual_prot"] = (["std"], [D(16384, 7, 0), PROT(0, 1, 0, 4096, view="rx"), PROT(0, 1, 4096, 4096, view="rw"), RD(0)])
    sc["v_huge"] = (["std", "hugesim"], [{"op": "lps"}, A(LP, 7, 0, huge=True), A(LP + 4096, 3, 1, huge=True), A(4096, 3, 2, huge=True), REL(0), REL(1), REL(2)])
    sc["v_args"] = (["std"], [A(0, 3, 0), D(0, 7, 1), A(100, 3, 2), REL(2), A(4096, 3, 3), REL(3, bogus="unaligned"), REL(3, bogus="null"), REL(3),
                              A(12288, 3, 4, sh=True), REL(4)])
    sc["v_jit"] = (["std"], [A(8192, 7, 0), {"op": "scope", "s": 0, "policy": 0}, {"op": "unscope"}, {"op": "scope", "s": 0, "policy": 2}, {"op": "unscope"},
                             {"op": "jit", "acc": "RW"}, {"op": "jit", "acc": "RX"}, {"op": "flush", "s": 0}, REL(0)])
    return sc


def rt_scenarios():
    sc = {}
    life = [ADD(0, 1, 11), ADD(1, 7, 22, 200000), ADD(2, 3, 33, 100), RREL(0), ADD(0, 1, 44), RREL(1), RREL(0), RREL(2)]
    sc["r_default"] = (["std", "hardened"], [RTNEW()] + life + [DEL])
    sc["r_dual_fill_imm"] = (["std", "nomemfd", "nomemfd_noexec"], [RTNEW(dual=True, fill=True, imm=True)] + life + [DEL])
    sc["r_dual"] = (["std"], [RTNEW(dual=True)] + life + [RESET_S, ADD(0, 5, 55), DEL])
    sc["r_fill"] = (["std"], [RTNEW(fill=True), ADD(0, 1, 1, 500), ADD(1, 2, 2), RREL(0), ADD(0, 1, 3, 500), RESET_S, ADD(0, 7, 4), RESET_H, ADD(1, 1, 5), DEL])
    sc["r_imm"] = (["std"], [RTNEW(imm=True), ADD(0, 1, 1), RREL(0), ADD(0, 1, 2), ADD(1, 1, 3, 70000), RREL(1), RESET_S, ADD(0, 1, 4), DEL])
    sc["r_multi_nopad"] = (["std"], [RTNEW(multi=True, nopad=True, gran=128, block=131072), ADD(0, 1, 1), ADD(1, 1, 2, 200), ADD(2, 1, 3, 900), ADD(3, 3, 4, 3000),
                                     RREL(1), RREL(3), RESET_S, ADD(0, 1, 5), RESET_H, DEL])
    sc["r_large"] = (["std", "hugesim"], [RTNEW(lp=True, alignlp=True), ADD(0, 1, 1), ADD(1, 7, 2, 70000), RREL(0), RREL(1), DEL])
    sc["r_large2"] = (["hugesim"], [RTNEW(lp=True, block=4194304), ADD(0, 1, 1), RESET_S, ADD(0, 1, 2), DEL])
    sc["r_args"] = (["std"], [RTNEW(gran=100, block=1000), ADD(0, -1), RREL(0, bogus="null"), RREL(0, bogus="foreign"), ADD(0, 1, 1), RREL(1, bogus="foreign"),
                              ADD(1, -1), RREL(0), DEL, RTNEW(dual=True, gran=256, block=65536), ADD(0, 1, 9), DEL])
    return sc


def systematic_scripts(quick):
    scripts = []
    for group in (vm_scenarios(), rt_scenarios()):
        for name, (envs, ops) in group.items():
            for env in envs:
                scripts.append({"x": f"{name}/{env}", "env": ENVS[env], "fail": "each", "errnos": "first" if quick else "all", "ops": ops})
    return scripts
