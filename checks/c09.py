"""C09 - JitAllocator.  Decided by: (1) TLC: JitAllocImpl (the transcribed pool algorithm on tiny blocks) refines
the contract JitAlloc.tla for every history up to the bound, plus structural invariants; (2) trace validation:
TLC-generated histories (scaled to real block sizes) and long seeded random histories are executed on the real
allocator (all option sets x granularities x block sizes) and every recorded trace must be a behaviour of the
contract."""
import json, os, re
import vlib
from vlib import Broken

SPEC = os.path.join(vlib.VERIF, "spec", "alloc")
MOD_T, CFG_T = os.path.join(SPEC, "JitAllocTrace.tla"), os.path.join(SPEC, "JitAllocTrace.cfg")

MC_TMPL = """SPECIFICATION Spec
CONSTANTS
  B = 4
  MaxArea = 16
  Pad = {pad}
  Imm = {imm}
  Sizes = {{1, 2, 3, 5, 7, 9}}
  MaxLive = 4
  MaxOps = {ops}
{checks}
"""
CHECKS = "INVARIANTS UsedIsUnionOfLive StopMarksEnds CacheSound EmptyFlag EmptyCount CursorValid CountExact\nPROPERTY RefinesContract\nVIEW View"


def tla_to_py(txt):
    return json.loads(txt.replace("<<", "[").replace(">>", "]"))


def to_script(hist, scale, opts):
    """model history (span ids) -> harness script (indices into the live list, sizes in real granules)"""
    live = []
    ops = []
    nid = 1
    for h in hist:
        if h[0] == "A":
            ops.append(["A", h[1] * scale])
            live.append(nid)
            nid += 1
        elif h[0] == "R":
            ops.append(["R", live.index(h[1])])
            live.remove(h[1])
        elif h[0] == "S":
            ops.append(["S", live.index(h[1]), h[2] * scale])
        elif h[0] == "X":
            ops.append(["X", h[1]])
            live = []
    return {"opts": opts, "ops": ops}


def run(ctx):
    q = ctx.quick
    bdir = ctx.build("asan", "jitalloc")
    # ---- 1. design level ----
    depth = 5 if q else 7
    combos = [("TRUE", "FALSE"), ("FALSE", "TRUE")] if q else [("TRUE", "FALSE"), ("FALSE", "TRUE"), ("TRUE", "TRUE"), ("FALSE", "FALSE")]
    for pad, imm in combos:
        cfg = ctx.path(f"mc_{pad}_{imm}.cfg")
        open(cfg, "w").write(MC_TMPL.format(pad=pad, imm=imm, ops=depth, checks=CHECKS))
        r = vlib.run_tlc(ctx, os.path.join(SPEC, "JitAllocImpl.tla"), cfg, workers=16, timeout=3000, heap="16g", tag=f"design_{pad}_{imm}")
        vlib.tlc_must_ok(ctx, r, f"design Pad={pad} Imm={imm}")
        ctx.log(f"design Pad={pad} Imm={imm} depth={depth}: {r.distinct} distinct states; algorithm refines contract")
    ctx.extra["design_states"] = ctx.states

    # ---- 2. model behaviours -> real allocator ----
    scripts = []
    nsim = 400 if q else 6000
    for pad, imm in [("TRUE", "FALSE"), ("FALSE", "TRUE"), ("FALSE", "FALSE"), ("TRUE", "TRUE")]:
        cfg = ctx.path(f"sim_{pad}_{imm}.cfg")
        open(cfg, "w").write(MC_TMPL.format(pad=pad, imm=imm, ops=12, checks="INVARIANT Export"))
        r = vlib.run_tlc(ctx, os.path.join(SPEC, "JitAllocImpl.tla"), cfg, workers=4, timeout=900, tag=f"sim_{pad}_{imm}",
                         simulate=nsim // 16, depth=13, seed=ctx.seed)
        if r.kind != "ok":
            raise Broken("simulation export failed: " + r.out[-800:])
        hs = {json.dumps(h) for h in vlib.parse_beh(r.out)}
        k = 0
        for ln in sorted(hs):
            hist = json.loads(ln)
            for gran, block in ((256, 65536), (64, 65536), (128, 131072)):
                if (k + gran) % 3 == 0 or not q:
                    scale = (block // gran) // 4
                    opts = {"dual": (k % 5 == 0), "multi": False, "fill": (k % 2 == 0), "imm": imm == "TRUE", "nopad": pad == "FALSE",
                            "gran": gran, "block": block}
                    scripts.append(to_script(hist, scale, opts))
            k += 1
    ctx.log(f"{len(scripts)} model behaviours scaled to real block sizes")
    sp = ctx.path("scripts.ndjson")
    vlib.write_ndjson(sp, scripts)
    traces = []
    tr = ctx.path("trace_scripts.ndjson")
    vlib.record_trace(ctx, bdir, "jitalloc", ["script", sp, tr], tr, timeout=900, env={"VERIF_SEED": ctx.seed})
    traces.append(("scripts", tr))
    # ---- 3. random histories ----
    nexec, ops = (64, 160) if q else (640, 400)
    tr2 = ctx.path("trace_random.ndjson")
    vlib.record_trace(ctx, bdir, "jitalloc", ["random", tr2, nexec, ops], tr2, timeout=2400, env={"VERIF_SEED": ctx.seed})
    traces.append(("random", tr2))
    # ---- 4. validation ----
    oom = 0
    nrec = 0
    for tag, path in traces:
        recs = vlib.read_ndjson(path)
        nrec += len(recs)
        for rec in recs:
            if rec.get("e") == "Alloc":
                if rec["r"] == "OutOfMemory":
                    oom += 1
                ctx.distinct.add(("A", rec.get("req"), rec.get("rx", 0) % 65536, rec["r"]))
            elif rec.get("e") in ("Shrink", "Write"):
                ctx.distinct.add((rec["e"], rec.get("n", rec.get("trunc")), rec.get("len"), rec["r"]))
        rej = vlib.validate_executions(ctx, MOD_T, CFG_T, path, tag=tag, timeout=2400, heap="8g")
        for x in rej:
            bad = x["records"][x["index"]] if x["index"] < len(x["records"]) else {"e": "END-OF-TRACE (truncated/aborted)"}
            ctx.violation(f"trace rejected at event {x['index']}: {json.dumps(bad)[:400]} opts={json.dumps(x['records'][0].get('opts'))}", x["path"])
        if len(recs) > 4:
            ctx.add_sample({"source": tag, "events": recs[0:4]})
    if oom * 100 > max(nrec, 1):
        raise Broken(f"{oom} OutOfMemory answers from the OS - environment too small for this run")
    ctx.evaluations = nrec
    ctx.extra["os_out_of_memory_answers"] = oom
    ctx.assumptions += ["addresses normalised per execution by order-preserving 64 KiB chunk compression (harness)",
                        "contents/fill/aliasing are byte comparisons done by the harness and reported as booleans",
                        "large pages / hardened runtime paths are not available in this sandbox and not exercised",
                        "query of stale pointers is only required to fail when initial padding is disabled (a recycled mapping may place a padding granule under an old address)"]
    vlib.write_evidence(ctx, "model_checking",
        rule="events = allocator API calls executed on the real JitAllocator; distinct = distinct (op,size,offset-in-chunk,result) outcomes; "
             "histories = TLC-simulated behaviours of JitAllocImpl scaled to real blocks x {gran,block} + seeded random histories over all option sets",
        trusted_base=["TLC 1.8.0", "spec/alloc/JitAlloc.tla (contract)", "harness/jitalloc.cpp projection (public API + mincore)"])


def replay(ctx, path):
    ok, maxl, r = vlib.validate_trace_file(ctx, MOD_T, CFG_T, path)
    if not ok:
        ctx.violation(f"recorded trace rejected at line {maxl} (re-record with tools/check C09 for the current tree)", path)
