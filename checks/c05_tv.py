"""C05 Leg 1 glue: turns the raw before/after node lists written by `regalloc record` into the op list that
spec/machine/RegAlloc.tla explores.  Purely syntactic (operand positions, register ids, stack-pointer offsets,
liveness of virtual registers on the BEFORE list for pruning).  Anything this translator does not understand makes
the function `unsupported` (counted, never reported as a violation).

Soundness notes
 * liveness / must-definedness are computed on the BEFORE list; a read of a virtual register that is not defined on
   every path (ill-defined program, same-register idioms such as xor v,v, first partial write) is not required.
 * kill sets only remove facts from the location map, so they can cause rejections, never acceptances.
"""
import json


class Unsupported(Exception):
    pass


class Crashed(Exception):
    pass


X86_COPY = {"mov", "movzx", "movsx", "movsxd", "movd", "movq", "movss", "movsd", "movaps", "movups", "movapd", "movupd",
            "movdqa", "movdqu", "vmovd", "vmovq", "vmovss", "vmovsd", "vmovaps", "vmovups", "vmovapd", "vmovupd", "vmovdqa",
            "vmovdqu", "vmovdqa32", "vmovdqa64", "vmovdqu8", "vmovdqu16", "vmovdqu32", "vmovdqu64", "kmovb", "kmovw", "kmovd",
            "kmovq", "vmovw"}
A64_COPY = {"mov", "fmov", "ldr", "str", "ldur", "stur", "ldrb", "ldrh", "strb", "strh", "ldrsw", "ldrsb", "ldrsh"}
NOPS = {"nop", "endbr64", "endbr32", "emms"}


def is_x86(arch):
    return arch in ("x86", "x64")


class Fn:
    def __init__(self, rec):
        self.rec = rec
        self.arch = rec["arch"]
        self.W = rec["W"]
        self.x86 = is_x86(self.arch)
        self.sp_id = 4 if self.x86 else 31
        self.locs = {}            # key -> index (1-based)
        self.cells = {}           # offset -> size
        self.vregs = rec["vregs"]
        self.dropped_reads = 0

    # ---- locations ----
    def loc(self, key):
        if key not in self.locs:
            self.locs[key] = len(self.locs) + 1
        return self.locs[key]

    def rloc(self, r):
        if r["v"]:
            raise Unsupported("virtual register left in the final code")
        g = r["g"]
        if g > 3:
            raise Unsupported("register group %d" % g)
        return self.loc(("r", g, r["id"]))

    def cell(self, off, size):
        self.cells[off] = max(self.cells.get(off, 0), max(size, 1))
        return self.loc(("c", off))

    def is_sp(self, r):
        return r is not None and r["k"] == "r" and not r["v"] and r["g"] == 0 and r["id"] == self.sp_id

    def tracked(self, r):
        """virtual register operand that is an allocatable (non stack-area) register"""
        return r is not None and r["k"] == "r" and r["v"] and not self.vregs[r["id"]]["stack"]


# same-register idioms, justified by the ISA semantics (not read from asmjit's tables):
#   WO: the result does not depend on the register's old content;  RO: the register's content is not changed
def _fam(names, prefixes):
    return lambda nm: nm in names or any(nm.startswith(p) for p in prefixes)


X86_WO_SAME = _fam({"xor", "sub", "sbb", "pxor", "xorps", "xorpd", "vxorps", "vxorpd", "pandn", "andnps", "andnpd", "vandnps", "vandnpd"},
                   ("vpxor", "psub", "vpsub", "pcmpeq", "vpcmpeq", "pcmpgt", "vpcmpgt", "kxor", "kxnor", "vpandn"))
X86_RO_SAME = _fam({"and", "or", "andps", "andpd", "orps", "orpd", "pand", "por", "vandps", "vandpd", "vorps", "vorpd", "xchg", "mov"},
                   ("vpand", "vpor", "pmax", "pmin", "vpmax", "vpmin"))
X86_RO_IMM0 = {"add", "sub", "or", "xor", "shl", "shr", "sar", "rol", "ror", "and"}


# operand accesses taken from the Intel SDM instead of asmjit's query_rw_info (where the two are known to differ):
#   CMPXCHG r/m, r, <acc>: "if equal ... else the destination operand is loaded into the accumulator"
X86_RW_FROM_SDM = {("cmpxchg", 2): (True, True)}


NOT_JUMPS = {"adr", "adrp", "ldr", "ldrsw", "prfm", "lea", "mov"}


def is_jump(n):
    if n["t"] == "jump" or "annu" in n:
        return True
    if n["t"] == "inst" and n.get("i") in ("jmp", "br"):
        return True          # indirect jump without annotation (no label operand)
    ops = n.get("ops", [])
    return n["t"] == "inst" and bool(ops) and ops[-1]["k"] == "l" and n.get("i") not in NOT_JUMPS


def reg_size(r):
    return r.get("sz", 0) or 0


def translate(rec, want_debug=False):
    """-> dict for RegAlloc.tla, or raises Unsupported(reason)."""
    if "crashed" in rec:
        raise Crashed("allocator crashed / hung (signal %s)" % rec["crashed"])
    if rec.get("err", 0) != 0:
        raise Unsupported("compile error %s %s" % (rec.get("err"), rec.get("errmsg")))
    F = Fn(rec)
    before, after = rec["before"], rec["after"]
    funcs = [n for n in before if n["t"] == "func"]
    if len(funcs) != 1:
        raise Unsupported("%d functions in one compiler" % len(funcs))
    fn = funcs[0]
    bidx = {n["n"]: i for i, n in enumerate(before)}
    aidx = {n["n"]: i for i, n in enumerate(after)}
    bstart = bidx[fn["n"]]
    bend = bidx[fn["end"]]
    if fn["n"] not in aidx or fn["end"] not in aidx:
        raise Unsupported("function node missing")
    astart, aend = aidx[fn["n"]], aidx[fn["end"]]
    vsz = [v["sz"] for v in F.vregs]

    # -------------------------------------------------------------------------------------------------
    # BEFORE list: per node uses/defs of tracked virtual registers, CFG, liveness, must-definedness
    # -------------------------------------------------------------------------------------------------
    blabels = {}
    for i in range(bstart, bend + 1):
        n = before[i]
        if n["t"] in ("label", "func"):
            blabels[n["lab"]] = i
    exit_lab = fn["exit"]

    def opnd_accesses(n):
        """[(kind, operand index, which, vreg, r, w)]  which in {'reg','base','index','extra'}"""
        res = []
        ops = n.get("ops", [])
        rw = n.get("rw")
        if rw is None and ops:
            if n["t"] == "ret":
                rw = [{"r": True, "w": False, "wb": 0, "eb": 0, "wlo": 0, "mbr": True, "mbw": False, "mxr": True, "mxw": False} for _ in ops]
            else:
                raise Unsupported("no RW info for " + n.get("i", "?"))
        for k, op in enumerate(ops):
            if op["k"] == "r" and F.tracked(op):
                info = rw[k]
                r, w = info["r"], info["w"]
                if F.x86 and (n.get("i"), k) in X86_RW_FROM_SDM:
                    r, w = X86_RW_FROM_SDM[(n.get("i"), k)]
                if w and not r:
                    covered = info["wb"] + info["eb"]
                    if op["g"] == 0 and F.arch in ("x64", "a64"):
                        # ISA fact, not asmjit's RW info: a 32-bit GP write zero-extends to 64 bits; 8/16-bit writes do not
                        covered = 8 if reg_size(op) >= 4 else reg_size(op)
                    if info["wlo"] != 0 or covered < min(vsz[op["id"]], 64):
                        r = True        # partial write = read-modify-write of the same virtual register
                res.append(("reg", k, op["id"], r, w))
            elif op["k"] == "r" and op["v"]:
                raise Unsupported("stack-area register used as register")
            elif op["k"] == "m":
                b, x = op["b"], op["x"]
                if op["home"]:
                    if b is None or b["k"] != "r" or not b["v"]:
                        raise Unsupported("home flag without virtual base")
                    if not F.vregs[b["id"]]["stack"]:
                        raise Unsupported("explicit use of a register's home slot")
                else:
                    if F.tracked(b):
                        info = rw[k]
                        res.append(("base", k, b["id"], True, bool(info["mbw"])))
                    elif b is not None and b["k"] == "r" and b["v"]:
                        raise Unsupported("stack-area base without home flag")
                if F.tracked(x):
                    info = rw[k]
                    res.append(("index", k, x["id"], True, bool(info["mxw"])))
        ex = n.get("extra")
        if ex is not None and F.tracked(ex):
            res.append(("extra", -1, ex["id"], True, False))
        # same-register idioms
        nm = n.get("i", "")
        if F.x86 and n["t"] == "inst" and res and all(a[0] == "reg" for a in res) and len({a[2] for a in res}) == 1:
            v = res[0][2]
            regops = [o for o in ops if o["k"] == "r"]
            immops = [o for o in ops if o["k"] == "i"]
            others = [o for o in ops if o["k"] not in ("r", "i")]
            full = all(reg_size(o) >= min(vsz[v], 64) or (o["g"] == 0 and reg_size(o) == 4) for o in regops)
            # value-preserving only if no operand is a 32-bit view of a wider GP register (that write zero-extends)
            keeps = not any(o["g"] == 0 and reg_size(o) == 4 and vsz[v] > 4 for o in regops) or nm == "xchg"
            if not others and len(regops) == len(res):
                if len(regops) >= 2 and not immops and X86_WO_SAME(nm) and full:
                    res = [(a[0], a[1], a[2], False, a[4]) for a in res]
                elif len(regops) >= 2 and not immops and X86_RO_SAME(nm) and keeps:
                    res = [(a[0], a[1], a[2], a[3], False) for a in res]
                elif len(regops) == 1 and len(immops) == 1:
                    iv = immops[0]["v"]
                    if nm == "or" and full and iv in (-1, 0xFFFFFFFF, 0xFFFF if reg_size(regops[0]) == 2 else -1):
                        res = [(a[0], a[1], a[2], False, a[4]) for a in res]
                    elif keeps and ((nm in X86_RO_IMM0 and iv == 0 and nm != "and") or (nm == "and" and iv == -1)):
                        res = [(a[0], a[1], a[2], a[3], False) for a in res]
        return res

    acc = {}      # before index -> list of accesses
    uses, defs = {}, {}
    for i in range(bstart, bend + 1):
        n = before[i]
        u, d = set(), set()
        if n["t"] in ("inst", "jump", "ret", "invoke"):
            a = opnd_accesses(n)
            acc[i] = a
            for (_, _, v, r, w) in a:
                if r:
                    u.add(v)
                if w:
                    d.add(v)
            if n["t"] == "invoke":
                for ar in n["args"]:
                    if F.tracked(ar["op"]):
                        u.add(ar["op"]["id"])
                for rt in n["rets"]:
                    if F.tracked(rt["op"]):
                        d.add(rt["op"]["id"])
        uses[i], defs[i] = u, d

    def is_uncond(n):
        nm = n.get("i", "")
        if nm == "b":
            return n.get("cc", 0) in (0, 1)        # arm::CondCode::kAL = 0 (no condition), kNA = 1
        return nm in ("jmp", "br")

    def jump_targets(n, labels):
        ops = n.get("ops", [])
        if "ann" in n or "annu" in n:
            # annu = real targets of an UN-annotated indirect jump, told by the program generator (the Compiler assumes
            # "any targetable block"; exploring the real successors only is sound)
            return [labels[l] for l in n.get("ann", n.get("annu")) if l in labels], True
        if ops and ops[-1]["k"] == "l":
            l = ops[-1]["id"]
            if l not in labels:
                raise Unsupported("jump to a label outside the function")
            return [labels[l]], True
        return [], False

    succ = {}
    for i in range(bstart, bend + 1):
        n = before[i]
        s = []
        if is_jump(n):
            tg, ok = jump_targets(n, blabels)
            if not ok:
                raise Unsupported("indirect jump without annotation")
            s += tg
            if not is_uncond(n):
                s.append(i + 1)
        elif n["t"] == "ret":
            pass
        elif i < bend:
            s.append(i + 1)
        succ[i] = s
    # arguments are defined at the function node
    for a in fn["args"]:
        if a["v"] is not None and F.tracked(a["v"]):
            defs[bstart].add(a["v"]["id"])
    # liveness (backward, union)
    live_in = {i: set() for i in succ}
    live_out = {i: set() for i in succ}
    changed = True
    order = list(range(bend, bstart - 1, -1))
    while changed:
        changed = False
        for i in order:
            lo = set()
            for s in succ[i]:
                lo |= live_in[s]
            li = uses[i] | (lo - defs[i])
            if lo != live_out[i] or li != live_in[i]:
                live_out[i], live_in[i] = lo, li
                changed = True
    # must-definedness (forward, intersection)
    allv = set(range(len(F.vregs)))
    pred = {i: [] for i in succ}
    for i, ss in succ.items():
        for s in ss:
            pred[s].append(i)
    mdef_in = {i: set(allv) for i in succ}
    mdef_in[bstart] = set()
    changed = True
    while changed:
        changed = False
        for i in range(bstart, bend + 1):
            if i != bstart:
                ps = pred[i]
                new = set(allv)
                for p in ps:
                    new &= (mdef_in[p] | defs[p])
                if not ps:
                    new = set(allv)       # unreachable
                if new != mdef_in[i]:
                    mdef_in[i] = new
                    changed = True

    # -------------------------------------------------------------------------------------------------
    # AFTER list: stack pointer offsets by propagation over the final CFG
    # -------------------------------------------------------------------------------------------------
    alabels = {}
    for i in range(astart, aend + 1):
        n = after[i]
        if n["t"] in ("label", "func"):
            alabels[n["lab"]] = i
    before_ids = set(bidx.keys())

    # dynamically aligned frames (`and sp, -N`): supported when no argument arrives on the stack (the frame is then addressed
    # from the re-aligned sp only); the aligned sp is re-based to a region far away from the entry-relative cells
    has_stack_args = any(a["abi"]["k"] in ("stack", "inds") for a in fn["args"])
    dyn_align = F.x86 and not has_stack_args and any(
        n.get("i") == "and" and n.get("ops") and n["ops"][0]["k"] == "r" and F.is_sp(n["ops"][0]) for n in after[astart:aend + 1])
    REBASE = -(1 << 20)

    def sp_effect(n, sp):
        """returns new sp after node n (entry sp = 0), or raises"""
        if n["t"] not in ("inst", "jump", "invoke", "ret"):
            return sp
        nm, ops = n.get("i", ""), n.get("ops", [])
        if F.x86:
            if nm == "push":
                return sp - F.W
            if nm == "pop":
                return sp + F.W
            if ops and F.is_sp(ops[0]) and ops[0]["k"] == "r":
                if nm in ("sub", "add") and len(ops) == 2 and ops[1]["k"] == "i":
                    return sp - ops[1]["v"] if nm == "sub" else sp + ops[1]["v"]
                if nm in ("cmp", "test"):
                    return sp
                if dyn_align and nm == "and" and len(ops) == 2 and ops[1]["k"] == "i":
                    return REBASE
                if dyn_align and nm in ("mov", "lea"):
                    return -REBASE        # epilog: sp restored from the frame pointer; only pops / ret follow
                raise Unsupported("stack pointer modified by " + nm)
            if nm in ("ret",):
                return sp
        else:
            if ops and ops[0]["k"] == "r" and F.is_sp(ops[0]) and nm in ("sub", "add") and len(ops) == 3 and F.is_sp(ops[1]) and ops[2]["k"] == "i":
                return sp - ops[2]["v"] if nm == "sub" else sp + ops[2]["v"]
            for op in ops:
                if op["k"] == "m" and F.is_sp(op["b"]) and op.get("mode", 0) != 0:
                    return sp + op["d"]
            if ops and ops[0]["k"] == "r" and F.is_sp(ops[0]) and nm not in ("cmp", "cmn", "tst", "str", "stp", "stur") and n.get("rw") and n["rw"][0]["w"]:
                raise Unsupported("stack pointer modified by " + nm)
        return sp

    def a_succ(i):
        n = after[i]
        if is_jump(n):
            tg, ok = jump_targets(n, alabels)
            if not ok:
                raise Unsupported("indirect jump without annotation")
            return tg + ([] if is_uncond(n) else [i + 1])
        if n["t"] == "inst" and n.get("i") == "ret":
            return []
        if i >= aend:
            return []
        return [i + 1]

    sp_in = {astart: 0}
    work = [astart]
    while work:
        i = work.pop()
        sp = sp_effect(after[i], sp_in[i])
        for s in a_succ(i):
            if s in sp_in:
                if sp_in[s] != sp:
                    raise Unsupported("inconsistent stack pointer at a join")
            else:
                sp_in[s] = sp
                work.append(s)

    # -------------------------------------------------------------------------------------------------
    # ops
    # -------------------------------------------------------------------------------------------------
    ust = []
    stack_base = {}        # stack-area vreg -> absolute offset of the area

    def mem_cell(op, sp, size):
        """sp-relative memory operand of the final code -> (absolute offset, size) or None if not sp-based"""
        b = op["b"]
        if b is None or b["k"] != "r" or b["v"]:
            return None
        if not F.is_sp(b):
            return None
        if op["x"] is not None:
            return ("indexed", sp + op["d"])
        d = op["d"]
        if not F.x86 and op.get("mode", 0) == 1:      # pre-index: address = sp + d (sp updated first)
            return (sp + d, size)
        if not F.x86 and op.get("mode", 0) == 2:      # post-index: address = sp
            return (sp, size)
        return (sp + d, size)

    def op_size(op, other=None):
        if op["k"] == "m" and op.get("sz", 0):
            return op["sz"]
        if other is not None and other["k"] == "r":
            return reg_size(other)
        return 0

    entry = []
    sa = F.W if F.x86 else 0
    for a in fn["args"]:
        if a["v"] is None or not F.tracked(a["v"]):
            continue
        abi = a["abi"]
        if abi["k"] == "reg":
            entry.append([F.loc(("r", abi["g"], abi["id"])), a["v"]["id"]])
        elif abi["k"] == "stack":
            entry.append([F.cell(sa + abi["off"], vsz[a["v"]["id"]]), a["v"]["id"]])
        # indirect arguments: not tracked

    code = []              # list of [after index, op]
    pc_of = {}             # after index -> pc (1-based) of the first op emitted for it

    def kills(bi):
        li = live_in.get(bi, set())
        return sorted((li | defs.get(bi, set())) - live_out.get(bi, set()))

    def edge_kill(bi, sb):
        return sorted(live_out.get(bi, set()) - live_in.get(sb, set()))

    consec = []
    renames = []

    def original_op(bn, an, bi, sp):
        """I op of an original instruction (before node bn, after node an)"""
        reads, writes, clob, pclob = [], [], [], []
        bops, aops = bn.get("ops", []), an.get("ops", [])
        if bn.get("i") != an.get("i") and bn["t"] == "inst" and not (bn.get("i") == "adr" and an.get("i") == "add"):
            renames.append([bn.get("i", ""), an.get("i", "")])
        for k, info in enumerate(bn.get("rw") or []):
            nlead = info.get("cons", 0)
            if nlead > 1 and k + nlead <= len(aops) and all(o["k"] == "r" for o in aops[k:k + nlead]):
                consec.append([an["n"], [o["id"] for o in aops[k:k + nlead]]])
        if (not F.x86 and bn.get("i") == "adr" and len(bops) == 2 and bops[1]["k"] == "m" and bops[1]["home"]
                and an.get("i") == "add" and len(aops) == 3 and F.is_sp(aops[1]) and aops[2]["k"] == "i" and F.tracked(bops[0])):
            # load_address_of(user stack area): adr v, [stack]  ->  add x, sp, #off
            sv = bops[1]["b"]["id"]
            base_off = sp + aops[2]["v"] - bops[1]["d"]
            if sv in stack_base and stack_base[sv] != base_off:
                raise Unsupported("user stack area at two different offsets")
            stack_base[sv] = base_off
            return [], [], [], [[F.rloc(aops[0]), bops[0]["id"]]]
        if len(bops) != len(aops):
            raise Unsupported("operand count changed")
        md = mdef_in.get(bi, set())
        for (kind, k, v, r, w) in acc.get(bi, []):
            if kind == "extra":
                aop = an.get("extra")
                l = F.rloc(aop)
            else:
                aop = aops[k]
                if kind == "reg":
                    if aop["k"] == "r":
                        l = F.rloc(aop)
                    elif aop["k"] == "m":
                        c = mem_cell(aop, sp, aop.get("sz", 0) or vsz[v])
                        if c is None or c[0] == "indexed":
                            raise Unsupported("register operand became a non-stack memory operand")
                        l = F.cell(c[0], c[1])
                        bsz = reg_size(bops[k])
                        if w and bops[k]["g"] == 0 and bsz == 4 and vsz[v] > 4 and F.arch in ("x64", "a64"):
                            # the 32-bit register write would have cleared the upper half; the 32-bit memory write keeps it:
                            # the cell no longer holds the register's value (it is read first if the operand is also read)
                            if r and v in md:
                                reads.append([l, v])
                            writes.append([F.loc(("lost", 0, 0)), v])
                            clob.append(l)
                            continue
                    else:
                        raise Unsupported("register operand became " + aop["k"])
                else:
                    if aop["k"] != "m":
                        raise Unsupported("memory operand changed kind")
                    rr = aop["b"] if kind == "base" else aop["x"]
                    if rr is None or rr["k"] != "r":
                        raise Unsupported("memory base/index vanished")
                    l = F.rloc(rr)
            if r:
                if v in md:
                    reads.append([l, v])
                else:
                    F.dropped_reads += 1
            if w:
                writes.append([l, v])
        # physical registers used directly by the program, user stack areas
        for k, bop in enumerate(bops):
            aop = aops[k]
            if bop["k"] == "r" and not bop["v"]:
                info = bn["rw"][k]
                if info["w"] and bop["g"] <= 3 and not (bop["g"] == 0 and bop["id"] == F.sp_id):
                    clob.append(F.loc(("r", bop["g"], bop["id"])))
            if bop["k"] == "m" and bop["home"]:
                c = mem_cell(aop, sp, 0) if aop["k"] == "m" else None
                if c is None:
                    raise Unsupported("user stack operand is not sp-based")
                base_off = (c[1] if c[0] == "indexed" else c[0]) - bop["d"]
                sv = bop["b"]["id"]
                if sv in stack_base and stack_base[sv] != base_off:
                    raise Unsupported("user stack area at two different offsets")     # would be a defect; kept conservative
                stack_base[sv] = base_off
            elif bop["k"] == "m" and bop["b"] is not None and bop["b"]["k"] == "r" and not bop["b"]["v"] and F.is_sp(bop["b"]):
                raise Unsupported("program addresses the stack pointer directly")
        return reads, clob, pclob, writes

    def regs_universe():
        return [(k, i) for k, i in F.locs.items() if k[0] == "r"]

    pending_calls = []     # (code index) calls whose clobber set needs the final register universe

    def emit(ai, op):
        if ai not in pc_of:
            pc_of[ai] = len(code) + 1
        code.append(op)

    # removed original nodes (redundant moves, FuncRet) -> ghosts placed before the next surviving node
    survivors = [i for i in range(bstart, bend + 1) if before[i]["n"] in aidx]
    ghosts_before = {}     # after index -> list of before indices of removed nodes
    for i in range(bstart, bend + 1):
        n = before[i]
        if n["n"] in aidx or n["t"] not in ("inst", "jump", "ret", "invoke"):
            continue
        nxt = next((j for j in range(i + 1, bend + 1) if before[j]["n"] in aidx), None)
        if nxt is None:
            raise Unsupported("removed node at the end")
        ghosts_before.setdefault(aidx[before[nxt]["n"]], []).append(i)

    ret_abi = fn["ret"]

    def ghost_ops(bi):
        n = before[bi]
        if n["t"] == "ret":
            reads = []
            md = mdef_in.get(bi, set())
            for (kind, k, v, r, w) in acc.get(bi, []):
                if kind == "reg" and k == 0 and ret_abi["k"] == "reg" and F.vregs[v]["g"] == ret_abi["g"] and v in md:
                    reads.append([F.loc(("r", ret_abi["g"], ret_abi["id"])), v])
            return [["I", reads, [], [], [], kills(bi)]]
        if n["t"] == "inst" and n.get("movop") and len(n.get("ops", [])) == 2 and all(F.tracked(o) for o in n["ops"]):
            return [["G", n["ops"][0]["id"], n["ops"][1]["id"], kills(bi)]]
        raise Unsupported("an original %s node vanished" % n.get("i", n["t"]))

    for ai in range(astart, aend + 1):
        an = after[ai]
        sp = sp_in.get(ai)
        # ghosts of removed nodes: before this node; a FuncRet ghost goes before its replacement jump
        t = an["t"]
        original = an["n"] in before_ids
        if ai in ghosts_before:
            gl = []
            for bi in ghosts_before[ai]:
                gl += ghost_ops(bi)
            # a removed FuncRet whose replacement `jmp exit` was emitted right before this node: the check belongs before it
            rets = [bi for bi in ghosts_before[ai] if before[bi]["t"] == "ret"]
            if rets and code and code[-1][0] == "J" and code[-1][-1] == "RETJMP":
                j = code.pop()
                for g in gl:
                    code.append(g)
                code.append(j)
            else:
                for g in gl:
                    code.append(g)        # not a jump target: jumps to this node skip the ghosts of the fall-through path
        if sp is None:
            # unreachable in the final CFG
            emit(ai, ["N"])
            continue
        if t in ("label", "func", "sentinel", "align", "comment", "section", "data"):
            if ai == aend:
                emit(ai, ["E"])
            else:
                emit(ai, ["N"])
            continue
        nm, aops = an.get("i", ""), an.get("ops", [])
        if original:
            bi = bidx[an["n"]]
            bn = before[bi]
            if t == "invoke":
                if bn.get("callee_pops"):
                    raise Unsupported("callee-pops calling convention")
                reads, clob, pclob, writes = original_op(bn, an, bi, sp)
                md = mdef_in.get(bi, set())
                for ar in bn["args"]:
                    if not F.tracked(ar["op"]):
                        continue
                    v = ar["op"]["id"]
                    abi = ar["abi"]
                    if abi["k"] == "reg" and abi["g"] == F.vregs[v]["g"]:
                        l = F.loc(("r", abi["g"], abi["id"]))
                    elif abi["k"] == "stack":
                        l = F.cell(sp + abi["off"], vsz[v])
                    else:
                        continue
                    if v in md:
                        reads.append([l, v])
                for rt in bn["rets"]:
                    if F.tracked(rt["op"]) and rt["abi"]["k"] == "reg" and rt["abi"]["g"] == F.vregs[rt["op"]["id"]]["g"]:
                        writes.append([F.loc(("r", rt["abi"]["g"], rt["abi"]["id"])), rt["op"]["id"]])
                emit(ai, ["I", reads, clob, pclob, writes, kills(bi)])
                pending_calls.append((len(code) - 1, bn["preserved"], bn.get("srsz", [0, 0, 0, 0])))
                continue
            reads, clob, pclob, writes = original_op(bn, an, bi, sp)
            if is_jump(an):
                tg, ok = jump_targets(an, alabels)
                btg, _ = jump_targets(bn, blabels)
                if not ok:
                    raise Unsupported("indirect jump without annotation")
                emit(ai, ["I", reads, clob, pclob, writes, kills(bi)])
                # edge kills: liveness of the ORIGINAL target (a trampoline label inherits the original edge)
                tl = []
                if "ann" in bn or "annu" in bn:
                    borig = [blabels[l] for l in bn.get("ann", bn.get("annu")) if l in blabels]
                    for ta, tb in zip(tg, borig):
                        tl.append([ta, edge_kill(bi, tb)])
                else:
                    tb = btg[0]
                    tl.append([tg[0], edge_kill(bi, tb)])
                fall = not is_uncond(an)
                emit(ai, ["J", tl, fall, edge_kill(bi, bi + 1) if fall and bi + 1 <= bend else [], ""])
                continue
            emit(ai, ["I", reads, clob, pclob, writes, kills(bi)])
            continue
        # ---- inserted node ----
        if nm in NOPS:
            emit(ai, ["N"]); continue
        if (nm in ("jmp", "b")) and aops and aops[-1]["k"] == "l":
            tg, ok = jump_targets(an, alabels)
            tag = "RETJMP" if aops[-1]["id"] == exit_lab else ""
            emit(ai, ["J", [[tg[0], []]], False, [], tag]); continue
        if nm == "ret":
            emit(ai, ["E"]); continue
        if F.x86 and nm == "push" and len(aops) == 1 and aops[0]["k"] == "r":
            emit(ai, ["C", F.cell(sp - F.W, F.W), F.rloc(aops[0]), []]); continue
        if F.x86 and nm == "push":
            emit(ai, ["K", [F.cell(sp - F.W, F.W)]]); continue
        if F.x86 and nm == "pop" and len(aops) == 1 and aops[0]["k"] == "r":
            emit(ai, ["C", F.rloc(aops[0]), F.cell(sp, F.W), []]); continue
        if aops and aops[0]["k"] == "r" and F.is_sp(aops[0]) and (nm in ("sub", "add") or (dyn_align and nm in ("and", "mov", "lea"))):
            emit(ai, ["N"]); continue
        if nm == "xchg" and len(aops) == 2 and all(o["k"] == "r" for o in aops):
            la, lb = F.rloc(aops[0]), F.rloc(aops[1])
            emit(ai, ["X", la, lb])
            if F.arch == "x64" and aops[0]["g"] == 0 and reg_size(aops[0]) == 4:
                # ISA: `xchg r32, r32` zero-extends both registers - values wider than 4 bytes do not survive the swap
                code.append(["I", [], [], [[la, 4], [lb, 4]], [], []])
            continue
        if F.x86 and nm in ("xor", "pxor", "xorps", "vpxor", "vxorps") and len(aops) >= 2 and aops[0]["k"] == "r" and all(o == aops[0] for o in aops[1:]):
            emit(ai, ["K", [F.rloc(aops[0])]]); continue
        if nm == "lea" and aops and aops[0]["k"] == "r":
            emit(ai, ["K", [F.rloc(aops[0])]]); continue
        if not F.x86 and nm in ("stp", "ldp") and len(aops) == 3 and aops[2]["k"] == "m":
            c = mem_cell(aops[2], sp, reg_size(aops[0]))
            if c is None or c[0] == "indexed":
                raise Unsupported("pair access not sp-based")
            sz = reg_size(aops[0]) or 8
            if nm == "stp":
                emit(ai, ["C", F.cell(c[0], sz), F.rloc(aops[0]), []])
                code.append(["C", F.cell(c[0] + sz, sz), F.rloc(aops[1]), []])
            else:
                emit(ai, ["C", F.rloc(aops[0]), F.cell(c[0], sz), []])
                code.append(["C", F.rloc(aops[1]), F.cell(c[0] + sz, sz), []])
            continue
        if not F.x86 and nm in ("movz", "movn", "movk", "adr", "adrp") and aops and aops[0]["k"] == "r":
            emit(ai, ["K", [F.rloc(aops[0])]]); continue
        copyset = X86_COPY if F.x86 else A64_COPY
        if nm in copyset and len(aops) == 2:
            d, s = aops
            if not F.x86 and nm in ("str", "stur", "strb", "strh"):
                d, s = s, d
            if d["k"] == "r" and F.is_sp(d):
                raise Unsupported("stack pointer written by " + nm)
            if d["k"] == "r" and s["k"] == "r":
                if F.is_sp(s):
                    emit(ai, ["K", [F.rloc(d)]])
                else:
                    emit(ai, ["C", F.rloc(d), F.rloc(s), []])
                continue
            if d["k"] == "r" and s["k"] == "i":
                emit(ai, ["K", [F.rloc(d)]]); continue
            if d["k"] == "r" and s["k"] == "m":
                c = mem_cell(s, sp, op_size(s, d))
                if c is None or c[0] == "indexed":
                    emit(ai, ["K", [F.rloc(d)]])
                else:
                    emit(ai, ["C", F.rloc(d), F.cell(c[0], c[1]), []])
                continue
            if d["k"] == "m" and s["k"] in ("r", "i"):
                c = mem_cell(d, sp, op_size(d, s))
                if c is None:
                    emit(ai, ["N"])          # store to memory that is not the frame
                elif c[0] == "indexed":
                    raise Unsupported("inserted indexed store to the frame")
                elif s["k"] == "r":
                    emit(ai, ["C", F.cell(c[0], c[1]), F.rloc(s), []])
                else:
                    emit(ai, ["K", [F.cell(c[0], c[1])]])
                continue
        raise Unsupported("inserted instruction not understood: " + nm)

    # the pc of jump targets, overlap clobbers, call clobbers
    for op in code:
        if op[0] == "J":
            for t in op[1]:
                t[0] = pc_of[t[0]]
            op.pop()       # tag
    cells = sorted(F.cells.items())
    cell_rng = {F.locs[("c", off)]: (off, off + sz) for off, sz in cells}

    def overl(l):
        lo, hi = cell_rng[l]
        return [m for m, (a, b) in cell_rng.items() if m != l and a < hi and lo < b]
    for op in code:
        if op[0] == "C" and op[1] in cell_rng:
            op[3] = overl(op[1])
        elif op[0] == "K":
            extra = []
            for l in op[1]:
                if l in cell_rng:
                    extra += overl(l)
            op[1] = sorted(set(op[1] + extra))
        elif op[0] == "I":
            extra = []
            for (l, v) in op[4]:
                if l in cell_rng:
                    extra += [m for m in overl(l)]
            if extra:
                op[2] = sorted(set(op[2] + extra))
    for (ci, preserved, srsz) in pending_calls:
        op = code[ci]
        clob, pclob = list(op[2]), list(op[3])
        for key, l in F.locs.items():
            if key[0] != "r":
                continue
            g, rid = key[1], key[2]
            if g == 0 and rid == F.sp_id:
                continue
            if not (preserved[g] >> rid) & 1:
                clob.append(l)
            elif srsz[g] and g == 1:
                pclob.append([l, srsz[g]])
        op[2], op[3] = sorted(set(clob)), pclob
    for sv, off in stack_base.items():
        ust.append([off, off + F.vregs[sv]["sz"]])
    res = {"fid": rec["id"], "arch": F.arch, "nloc": max(1, len(F.locs)), "entry": entry, "vsz": vsz or [0], "code": code,
           "cells": [[F.locs[("c", off)], off, off + sz] for off, sz in cells], "ust": ust, "consec": consec, "renames": renames}
    if want_debug:
        res["_locs"] = {str(v): list(k) for k, v in F.locs.items()}
        res["_dropped_reads"] = F.dropped_reads
    return res
