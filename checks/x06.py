"""X06 - Compiler function calls (invoke) marshal arguments and return values correctly, and the Compiler front-end node
structure follows its documented life cycle.

Part A (executed on the x86-64 host, System V):
  spec/comp/Invoke.tla      contract: what the callee of a Compiler-generated caller must observe (locations from
                            spec/func/ABI.tla), what survives a call, what f returns / stores / preserves
  spec/comp/InvokeImpl.tla  model of a code generator (placement of live values, argument shuffles, clobbering callee);
                            TLC: every behaviour refines the contract; negative controls (typical slips) must fail
  spec/comp/InvokeTrace.tla trace validation of recorded executions of real generated code (harness/invoke.cpp)
Part B (structure; x86-64, x86-32 and AArch64, nothing executed):
  spec/comp/CompilerFront.tla (+MC, +Trace)   node list grammar / life cycle of add_func .. end_func .. finalize, error paths,
                            virtual register table;  harness/compfront.cpp records API calls + node list projections
  spec/comp/InvokeStatic.tla  the instruction sequence a caller for x86-32 / Win64 / AArch64 executes up to its call puts every
                            designated argument where ABI.tla prescribes (symbolic execution on spec/machine/Machine.tla)
"""
import json, os, re, sys, time
from concurrent.futures import ThreadPoolExecutor
import vlib
from vlib import Broken
import x06gen

SPEC = os.path.join(vlib.VERIF, "spec", "comp")
T_MOD, T_CFG = os.path.join(SPEC, "InvokeTrace.tla"), os.path.join(SPEC, "InvokeTrace.cfg")
def findings_dir(ctx):
    """Replay files live outside out/X06 (which every run wipes); runs against a scratch tree keep theirs in their own out dir."""
    d = ctx.path("findings") if ctx.alt_repo else os.path.join(vlib.VERIF, "out", "X06.findings")
    os.makedirs(d, exist_ok=True)
    return d


def jprints(out):
    res = []
    for ln in out.splitlines():
        if ln.startswith('"['):
            try:
                res.append(json.loads(json.loads(ln)))
            except Exception:
                pass
    return res


# ----------------------------------------------------------------------------------------------------------
# Part A
# ----------------------------------------------------------------------------------------------------------
def place(ctx, scns, tag):
    """f's argument locations come from ABI.tla (TLC), not from the harness or this script."""
    sp = ctx.path(f"scn_{tag}_in.ndjson")
    vlib.write_ndjson(sp, [{"id": s["id"], "f": s["f"]} for s in scns])
    r = vlib.run_tlc(ctx, os.path.join(SPEC, "InvokePlace.tla"), os.path.join(SPEC, "InvokePlace.cfg"), workers=4, timeout=900,
                     env={"SCN": sp}, tag=f"place_{tag}")
    if r.kind != "ok":
        raise Broken(f"InvokePlace failed: {r.out[-1500:]}")
    places = {v[1]: v[2] for v in jprints(r.out) if v and v[0] == "PLACE"}
    for s in scns:
        if s["id"] not in places:
            raise Broken(f"no placement for scenario {s['id']}")
        s["place"] = places[s["id"]]
    return scns


def run_scenarios(ctx, bdir, scns, tag):
    sp, tr = ctx.path(f"scn_{tag}.ndjson"), ctx.path(f"trace_{tag}.ndjson")
    vlib.write_ndjson(sp, scns)
    rc = vlib.record_trace(ctx, bdir, "invoke", ["run", sp, tr], tr, timeout=600 if ctx.quick else 1800)
    return tr


def diag_of(ctx, path, tag):
    """Second TLC run on the rejected execution alone, report mode: names the broken clause (and repeats the rejection)."""
    r = vlib.run_tlc(ctx, T_MOD, T_CFG, workers=1, timeout=600, env={"TRACE": path, "MODE": "report"}, tag=f"diag_{tag}", heap="2g")
    if r.kind == "ok":
        raise Broken(f"rejection of {path} not repeated in report mode")
    m = None
    for m in re.finditer(r'<<"REJECT", (\d+), (<<.*?>>)>>\s*$', r.out, re.M):
        pass
    if not m:
        return ["unclassified"]
    txt = m.group(2).replace("<<", "[").replace(">>", "]").replace("TRUE", "true").replace("FALSE", "false")
    try:
        return json.loads(txt)
    except Exception:
        return ["unclassified"]


def key_of(diag, recs):
    build = next((r for r in recs if r.get("e") == "Build"), {})
    if diag[0] == "crash":
        # attribution of the one known defect: a variadic call whose target register was allocated to rax
        if build.get("va_target_rax") and len(diag) >= 6 and diag[3] == "invoke" and diag[5] == "variadic" and diag[4] in ("reg", "mem"):
            return "invoke:variadic-target-in-rax"
        return "crash:" + ":".join(str(x) for x in diag[2:])
    if diag[0] == "invoke" and diag[1] == "arg":
        return f"invoke:arg:{diag[2]}:{diag[3]}:{diag[4]}"
    if diag[0] == "build":
        return "build:refused:" + ":".join(re.sub(r"[^A-Za-z0-9]+", "-", str(x)) for x in diag[2:])
    return ":".join(str(x) for x in diag if not isinstance(x, int))


def validate_sharded(ctx, trace, tag, per=40, pool=4):
    recs = vlib.read_ndjson(trace)
    execs = vlib.split_executions(recs)
    shards = [execs[i:i + per] for i in range(0, len(execs), per)]

    def one(i):
        p = ctx.path(f"{tag}_shard{i}.ndjson")
        vlib.write_ndjson(p, [r for e in shards[i] for r in e])
        return vlib.validate_executions(ctx, T_MOD, T_CFG, p, tag=f"{tag}{i}_", timeout=1500, heap="3g", max_rejects=12)

    rej = []
    with ThreadPoolExecutor(max_workers=pool) as ex:
        for r in ex.map(one, range(len(shards))):
            rej += r
    return recs, execs, rej


def must_reject(ctx, mod, cfg, recs, tag, env=None):
    """Self-test of a trace specification: a corrupted copy of an accepted execution must be rejected."""
    p = ctx.path(f"selftest_{tag}.ndjson")
    vlib.write_ndjson(p, recs)
    e = {"TRACE": p}
    if env:
        e.update(env)
    r = vlib.run_tlc(ctx, mod, cfg, workers=1, timeout=600, env=e, tag=f"selftest_{tag}", heap="1g")
    if r.kind == "ok":
        raise Broken(f"trace specification accepted a corrupted execution ({tag}): it would be vacuous")
    if not (r.kind == "violation" or (r.kind == "error" and "Postcondition" in r.out)):
        raise Broken(f"self-test {tag} failed to run: {r.out[-800:]}")


def selftest_invoke_trace(ctx, execs, rejected_ids):
    good = [e for e in execs if e[1]["s"]["id"] not in rejected_ids and sum(1 for r in e if r.get("e") == "Call") >= 1 and e[-1].get("e") == "End"]
    if not good:
        if rejected_ids:
            return              # nothing was accepted at all: the rejections are reported, there is no accepted execution to corrupt
        raise Broken("no accepted execution with a call to corrupt")
    e = json.loads(json.dumps(min(good, key=len)))
    i = next(k for k, r in enumerate(e) if r.get("e") == "Call")
    a = json.loads(json.dumps(e)); a[i]["idx"] = (a[i]["idx"] + 1) % 16                       # another callee was entered
    b = json.loads(json.dumps(e)); b = [r for r in b if r.get("e") != "Leave"]                  # f never returned
    c = json.loads(json.dumps(e))
    k = next(k2 for k2, r in enumerate(c) if r.get("e") == "Leave")
    c[k]["cs"][0]["b"] = [1, 2, 3, 4]                                                           # rbx not preserved
    for tag, recs in (("call_target", a), ("no_leave", b), ("callee_saved", c)):
        must_reject(ctx, T_MOD, T_CFG, recs, tag)


def scenario_text(s):
    def sig(d):
        va = "" if d.get("va", 255) == 255 else f" va@{d['va']}"
        return f"{d['ret']}({','.join(d['args'])}){va}"
    cal = "; ".join(f"g{c['thunk']}:{sig(c)} via {c['target']}" for c in s["callees"])
    return f"scenario {s['id']} [{s.get('profile', '?')}] f={sig(s['f'])} avx={s['cfg']['avx']} fp={s['cfg']['fp']} callees: {cal}"


def report_rejections(ctx, rej, tag):
    groups = {}
    for n, x in enumerate(rej):
        d = diag_of(ctx, x["path"], f"{tag}{n}")
        k = key_of(d, x["records"])
        groups.setdefault(k, []).append((x, d))
    for k, items in sorted(groups.items()):
        items.sort(key=lambda it: len(json.dumps(it[0]["records"][1])))
        x, d = items[0]
        rp = os.path.join(findings_dir(ctx), re.sub(r"[^A-Za-z0-9_.-]+", "_", k)[:100] + ".ndjson")
        vlib.write_ndjson(rp, x["records"])
        s = x["records"][1]["s"]
        what = f"{' '.join(str(e) for e in d)}; smallest failing input: {scenario_text(s)}; {len(items)} rejected executions in this run"
        ctx.extra.setdefault("findings", {})[k] = {"count": len(items), "diag": d, "scenario": s["id"], "profile": s.get("profile")}
        if k in ctx.known:
            ctx.known_finding(k, what)
        else:
            ctx.violation(f"key={k} {what}", rp)


def host_vector_level():
    """2 = AVX-512F, 1 = AVX, 0 = SSE2 only: scenarios never ask for more than the host can execute."""
    try:
        flags = next(l for l in open("/proc/cpuinfo") if l.startswith("flags")).split()
    except Exception:
        return 0
    return 2 if "avx512f" in flags else 1 if "avx" in flags else 0


def part_a(ctx):
    q = ctx.quick
    bdir = ctx.build("plain", "invoke")
    n = 280 if q else 6000
    lvl = host_vector_level()
    ctx.extra["host_vector_level"] = lvl
    scns = export_model_scenarios(ctx) + x06gen.gen(ctx.seed, n, max_avx=lvl)
    place(ctx, scns, "rnd")
    tr = run_scenarios(ctx, bdir, scns, "rnd")
    recs, execs, rej = validate_sharded(ctx, tr, "tv", per=35 if q else 100, pool=4 if q else 6)
    ncall = sum(1 for r in recs if r.get("e") == "Call")
    nrun = sum(1 for r in recs if r.get("e") == "Leave")
    nrefused = sum(1 for r in recs if r.get("e") == "Build" and not r.get("ok"))
    ctx.evaluations += ncall + nrun
    ctx.extra["invoke_scenarios"] = len(scns)
    ctx.extra["invoke_calls_observed"] = ncall
    ctx.extra["invoke_runs_completed"] = nrun
    ctx.extra["invoke_builds_refused"] = nrefused
    for s in scns:
        for c in s["callees"]:
            ctx.distinct.add(("callee", c["ret"], tuple(c["args"]), c["va"], c["target"], s["cfg"]["avx"], s["cfg"]["fp"]))
        ctx.distinct.add(("f", s["f"]["ret"], tuple(s["f"]["args"]), s["cfg"]["avx"], s["cfg"]["fp"]))
    ctx.log(f"(A) {len(scns)} scenarios built by the real Compiler, {nrun} executions, {ncall} calls observed by the callee thunks; "
            f"{len(rej)} executions rejected")
    selftest_invoke_trace(ctx, execs, {x["records"][1]["s"]["id"] for x in rej})
    for e in execs[:3]:
        if len(e) > 4:
            ctx.add_sample({"scenario": scenario_text(e[1]["s"]), "events": [r["e"] for r in e][:12]})
    report_rejections(ctx, rej, "a")


# ----------------------------------------------------------------------------------------------------------
# design level (TLC on the specs themselves)
# ----------------------------------------------------------------------------------------------------------
IMC = os.path.join(SPEC, "InvokeMC.tla")
FMC = os.path.join(SPEC, "CompilerFrontMC.tla")
INVOKE_BUGS = ["keepVolatile", "stackPacked", "noAl", "retWrongReg", "misalign", "dupArg", "noRestore", "wrongOrder"]
INVOKE_ACTIONS = ["IArg", "IDef", "IArith", "IStore", "ICtl", "IMove", "IInvoke", "ILeave"]
FRONT_BUGS = ["addFuncCursorEnd", "poolAfterEnd", "poolKept", "funcKept", "endCursorExit", "invokeStaleOut", "globalNotFlushed", "reinitKeepsFunc", "reinitKeepsRegs"]
FRONT_ACTIONS = ["INewFunc", "IAddFuncNode", "IAddFunc", "IEndFunc", "IInvoke", "IEmit", "ISetCursor", "INewConst", "INewReg", "INewStack", "IFinalize", "IReinit"]


def imc_cfg(ctx, name, scen="MCScenarios", rets="MCRetVals", moves=1, bug="none", cov=False, checks="INVARIANTS ContractHolds Coherent OutCoherent OneHolder"):
    p = ctx.path(f"imc_{name}.cfg")
    open(p, "w").write(f"SPECIFICATION Spec\nCONSTANTS\n  Scenarios <- {scen}\n  RetVals <- {rets}\n  MaxMoves = {moves}\n"
                       f"  Cov = {'TRUE' if cov else 'FALSE'}\n  Bug = \"{bug}\"\n{checks}\n")
    return p


def fmc_cfg(ctx, name, ops=5, nodes=9, bug="none", cov=False, checks="INVARIANT CInv\nPROPERTIES RefinesContract StepProps\nVIEW View"):
    p = ctx.path(f"fmc_{name}.cfg")
    open(p, "w").write(f"SPECIFICATION Spec\nCONSTANTS\n  MaxOps = {ops}\n  MaxNodes = {nodes}\n  MaxRegs = 2\n  Bug = \"{bug}\"\n"
                       f"  Cov = {'TRUE' if cov else 'FALSE'}\n{checks}\n")
    return p


def actions_taken(out):
    res = {}
    for m in re.finditer(r'<<"ACT", "(\w+)">>', out):
        res[m.group(1)] = res.get(m.group(1), 0) + 1
    return res


def design(ctx):
    q = ctx.quick
    jobs = []
    # the contract is implementable: every behaviour of the code-generator model satisfies it
    jobs.append(("invoke-main", IMC, imc_cfg(ctx, "main", moves=1 if q else 2), 8, "ok"))
    jobs.append(("front-main", FMC, fmc_cfg(ctx, "main", ops=5 if q else 6, nodes=9 if q else 10), 8, "ok"))
    # the contract is not vacuous: each seeded slip is rejected
    for b in INVOKE_BUGS:
        jobs.append((f"invoke-neg-{b}", IMC, imc_cfg(ctx, f"neg_{b}", bug=b, checks="INVARIANT ContractHolds"), 2, "ContractHolds"))
    for b in FRONT_BUGS:
        jobs.append((f"front-neg-{b}", FMC, fmc_cfg(ctx, f"neg_{b}", bug=b), 2, "violation"))
    # action coverage (TLC's own -coverage runs out of memory on these specs: every action reports itself when Cov = TRUE)
    jobs.append(("invoke-cov", IMC, imc_cfg(ctx, "cov", scen="MCCov", rets="MCRetOne", cov=True), 1, "cov-invoke"))
    jobs.append(("front-cov", FMC, fmc_cfg(ctx, "cov", ops=3, nodes=8, cov=True), 1, "cov-front"))

    def one(job):
        name, mod, cfg, workers, expect = job
        return job, vlib.run_tlc(ctx, mod, cfg, workers=workers, timeout=2400, tag=name, heap="4g")

    with ThreadPoolExecutor(max_workers=4) as ex:
        results = list(ex.map(one, jobs))
    for (name, mod, cfg, workers, expect), r in results:
        if expect == "ok":
            vlib.tlc_must_ok(ctx, r, name)
            ctx.extra[f"design_{name}_states"] = r.distinct
            ctx.log(f"design {name}: {r.distinct} distinct states, all invariants / refinement properties hold")
        elif expect in ("ContractHolds", "violation"):
            if r.kind != "violation" or (expect == "ContractHolds" and r.violated != "ContractHolds"):
                raise Broken(f"negative control {name} was not rejected (kind={r.kind} violated={r.violated}): the contract would be vacuous\n" + r.out[-800:])
        else:
            if r.kind != "ok":
                raise Broken(f"coverage run {name} failed: {r.out[-1200:]}")
            taken = actions_taken(r.out)
            want = INVOKE_ACTIONS if expect == "cov-invoke" else FRONT_ACTIONS
            missing = [a for a in want if not taken.get(a)]
            if missing:
                raise Broken(f"{name}: actions never taken: {missing}")
            ctx.extra[f"design_{name}_actions"] = taken
    ctx.log(f"design: {len(INVOKE_BUGS)} + {len(FRONT_BUGS)} negative controls rejected, every action taken")


def export_model_scenarios(ctx):
    r = vlib.run_tlc(ctx, IMC, imc_cfg(ctx, "export", moves=0, rets="MCRetOne", checks="INVARIANT Export"), workers=2, timeout=900, tag="imc_export")
    if r.kind != "ok":
        raise Broken("scenario export failed: " + r.out[-1200:])
    scns = [v[1] for v in jprints(r.out) if v and v[0] == "SCN"]
    uniq = {s["id"]: s for s in scns}
    if len(uniq) < 8:
        raise Broken(f"only {len(uniq)} model scenarios exported")
    return list(uniq.values())


# ----------------------------------------------------------------------------------------------------------
# Part B: front-end life cycle
# ----------------------------------------------------------------------------------------------------------
F_MOD, F_CFG = os.path.join(SPEC, "CompilerFrontTrace.tla"), os.path.join(SPEC, "CompilerFrontTrace.cfg")
K_STALE = "front:invoke-out-not-null-on-failure"
K_A64LBL = "front:a64-invoke-label-target"


def front_env(ctx):
    return {"KNOWN_STALE_OUT": "1" if K_STALE in ctx.known else "0", "KNOWN_A64_LABEL": "1" if K_A64LBL in ctx.known else "0"}


def front_validate(ctx, trace, tag, per=150, pool=4):
    recs = vlib.read_ndjson(trace)
    execs = vlib.split_executions(recs)
    shards = [execs[i:i + per] for i in range(0, len(execs), per)]
    env = front_env(ctx)
    old = {k: os.environ.get(k) for k in env}
    os.environ.update(env)          # validate_executions passes the process environment on to TLC
    try:
        def one(i):
            p = ctx.path(f"{tag}_shard{i}.ndjson")
            vlib.write_ndjson(p, [r for e in shards[i] for r in e])
            return vlib.validate_executions(ctx, F_MOD, F_CFG, p, tag=f"{tag}{i}_", timeout=1500, heap="3g", max_rejects=8)
        rej = []
        with ThreadPoolExecutor(max_workers=pool) as ex:
            for r in ex.map(one, range(len(shards))):
                rej += r
    finally:
        for k, v in old.items():
            if v is None:
                os.environ.pop(k, None)
            else:
                os.environ[k] = v
    return recs, execs, rej


def front_key(rec):
    e = rec.get("e")
    if e == "Invoke" and rec.get("out") == "stale" and rec.get("r") != "Ok":
        return K_STALE
    if e == "Finalize" and rec.get("tidy") and rec.get("r") != "Ok" and rec.get("arch") == "a64" and rec.get("lblinv", 0) > 0:
        return K_A64LBL
    return f"front:{e}:{'Ok' if rec.get('r', 'Ok') == 'Ok' else 'Err'}"


def front_confirm_known(ctx, execs):
    """A finding listed as known is still reported in every run, after TLC rejected a witness with the allowance switched off."""
    for key, pred, what in (
        (K_STALE, lambda r: r.get("e") == "Invoke" and r.get("out") == "stale" and r.get("r") != "Ok",
         "a failed invoke() (bad signature) returns an error but leaves its Out<InvokeNode*> parameter untouched although x86compiler.h / a64compiler.h "
         "promise \"if anything fails nullptr is stored in out\""),
        (K_A64LBL, lambda r: r.get("e") == "Finalize" and r.get("tidy") and r.get("r") != "Ok" and r.get("arch") == "a64" and r.get("lblinv", 0) > 0,
         "a64::Compiler::invoke(out, Label, signature) records `blr <label>`, which no AArch64 assembler accepts: finalize() fails with InvalidInstruction")):
        if key not in ctx.known:
            continue
        wit = [e for e in execs if any(pred(r) for r in e)]
        if not wit:
            continue
        wit.sort(key=len)
        rp = os.path.join(findings_dir(ctx), re.sub(r"[^A-Za-z0-9_.-]+", "_", key) + ".ndjson")
        vlib.write_ndjson(rp, wit[0])
        r = vlib.run_tlc(ctx, F_MOD, F_CFG, workers=1, timeout=600, env={"TRACE": rp, "KNOWN_STALE_OUT": "0", "KNOWN_A64_LABEL": "0"}, tag="front_confirm", heap="1g")
        if r.kind == "ok":
            raise Broken(f"known finding {key}: the witness execution is accepted by the strict contract")
        ctx.known_finding(key, f"{what}; {len(wit)} executions in this run show it")
        ctx.extra.setdefault("findings", {})[key] = {"count": len(wit)}


def part_b(ctx):
    q = ctx.quick
    bdir = ctx.build("asan", "compfront")
    # (1) call sequences enumerated by TLC from the transcribed algorithm, replayed on the three targets
    r = vlib.run_tlc(ctx, FMC, fmc_cfg(ctx, "sim", ops=12, nodes=40, checks="INVARIANT Export"), workers=4, timeout=900, tag="fmc_sim",
                     simulate=(240 if q else 2400) // 4, depth=13, seed=ctx.seed)
    if r.kind != "ok":
        raise Broken("behaviour export failed: " + r.out[-1200:])
    behs = {json.dumps(b) for b in vlib.parse_beh(r.out) if isinstance(b, list) and b}
    scripts = []
    for i, b in enumerate(sorted(behs)):
        scripts.append({"arch": ("x64", "x86", "a64")[i % 3], "ops": json.loads(b)})
    sp, tr1 = ctx.path("front_scripts.ndjson"), ctx.path("front_trace_scripts.ndjson")
    vlib.write_ndjson(sp, scripts)
    vlib.record_trace(ctx, bdir, "compfront", ["script", sp, tr1], tr1, timeout=240 if q else 900)
    # (2) seeded random call sequences (misuse included) and tidy ones that reach finalize()
    tr2 = ctx.path("front_trace_random.ndjson")
    vlib.record_trace(ctx, bdir, "compfront", ["random", tr2, 900 if q else 15000, 36], tr2, timeout=240 if q else 1200, env={"VERIF_SEED": ctx.seed})
    nev = 0
    for tag, path in (("fs", tr1), ("fr", tr2)):
        recs, execs, rej = front_validate(ctx, path, tag, per=150 if q else 500)
        nev += len(recs)
        for rec in recs:
            if rec.get("e") not in ("Reset",):
                ctx.distinct.add(("front", rec.get("e"), rec.get("r", "-")[:3], rec.get("good"), rec.get("scope"), rec.get("k"), rec.get("out"),
                                  len(rec.get("p", {}).get("fwd", [])) if "p" in rec else 0))
        front_confirm_known(ctx, execs)
        if tag == "fr":
            rej_keys = {json.dumps(x["records"], sort_keys=True) for x in rej}
            okx = [e for e in execs if 4 <= len(e) <= 40 and json.dumps(e, sort_keys=True) not in rej_keys
                   and any(r.get("e") == "AddFunc" and r.get("r") == "Ok" for r in e)]
            if okx:
                e0 = json.loads(json.dumps(min(okx, key=len)))
                k = next(k2 for k2, r in enumerate(e0) if r.get("e") == "AddFunc" and r.get("r") == "Ok")
                e0[k]["p"]["cur"] = e0[k]["ns"][2]                                   # cursor reported on FuncEnd instead of FuncNode
                must_reject(ctx, F_MOD, F_CFG, e0, "front_cursor", env=front_env(ctx))
        groups = {}
        for x in rej:
            bad = x["records"][x["index"]] if x["index"] < len(x["records"]) else {"e": "END"}
            groups.setdefault(front_key(bad) if not x["inv"] else f"front:invariant:{x['inv']}", []).append((x, bad))
        for k, items in sorted(groups.items()):
            items.sort(key=lambda it: len(it[0]["records"]))
            x, bad = items[0]
            rp = os.path.join(findings_dir(ctx), re.sub(r"[^A-Za-z0-9_.-]+", "_", k)[:100] + ".ndjson")
            vlib.write_ndjson(rp, x["records"])
            calls = " ".join(r_["e"] for r_ in x["records"][1:x["index"] + 1])[-300:]
            what = f"event {json.dumps({kk: vv for kk, vv in bad.items() if kk != 'p'})[:260]} is not a step of CompilerFront.tla after: {calls}; {len(items)} executions"
            if k in ctx.known:
                ctx.known_finding(k, what)
            else:
                ctx.violation(f"key={k} {what}", rp)
        if execs and len(execs[0]) > 3:
            ctx.add_sample({"front": [{kk: vv for kk, vv in r_.items() if kk != "p"} for r_ in execs[0][1:5]]})
    ctx.evaluations += nev
    ctx.extra["front_events"] = nev
    ctx.extra["front_scripts_from_model"] = len(scripts)
    ctx.log(f"(B) {nev} front-end API calls on x86-64 / x86-32 / AArch64 compilers validated ({len(scripts)} model-generated call sequences + random)")


# ----------------------------------------------------------------------------------------------------------
# Part B, second half: calls on targets that cannot be executed here, judged on the abstract machine
# ----------------------------------------------------------------------------------------------------------
S_MOD, S_CFG = os.path.join(SPEC, "InvokeStatic.tla"), os.path.join(SPEC, "InvokeStatic.cfg")


def static_case_text(c):
    return (f"{c['env']} f/{c['fconv']}({','.join(c['fargs'])}) calls g/{c['cconv']}({','.join(c['cargs'])}) with operands "
            f"{['imm' if x == 0 else 'arg%d' % x for x in c['map']]} fp={c['fp']}" + (f" live-local={c['live']}B" if c.get("live") else ""))


def static_key(d, case=None):
    # d = [family, what, ...]
    if d[1] == "build-refused" and case is not None:
        return f"static:{d[0]}:build-refused:{case['env']}:fp{case['fp']}:" + re.sub(r"[^A-Za-z0-9]+", "-", f"{d[2]}-{d[3]}")
    if d[1] == "arg":
        return f"static:{d[0]}:arg:{d[2]}:{d[3]}:{d[4]}" + (":hi" if d[5] > 1 else "")
    if d[1] == "build-refused":
        return f"static:{d[0]}:build-refused:" + re.sub(r"[^A-Za-z0-9]+", "-", f"{d[2]}-{d[3]}")
    return "static:" + ":".join(str(x) for x in d)


def part_c(ctx):
    q = ctx.quick
    bdir = ctx.build("asan", "compfront")
    cases = x06gen.gen_static(ctx.seed, 700 if q else 16000)
    for c in cases:
        c.setdefault("live", 0)
    # by-reference vector arguments (Win64 / vectorcall), with a live local of the caller
    cases += x06gen.gen_static_byref(len(cases) + 1000001, not q)
    cp, op = ctx.path("static_cases.ndjson"), ctx.path("static_obs.ndjson")
    vlib.write_ndjson(cp, cases)
    rc, _, err = vlib.run_harness(ctx, bdir, "compfront", ["static", cp, op], timeout=300 if q else 1500)
    lines = open(op).read().splitlines() if os.path.exists(op) else []
    if rc != 0 or len(lines) != len(cases):
        # a crash / sanitizer abort of the real Compiler on a documented use: the case it stopped at is the finding
        k = len(lines)
        rp = os.path.join(findings_dir(ctx), "static_abort.ndjson")
        vlib.write_ndjson(rp, [cases[min(k, len(cases) - 1)]])
        why = next((x.strip() for x in (err or "").splitlines() if "Sanitizer" in x or "runtime error" in x), (err or "").strip()[-200:])
        ctx.violation(f"key=static:abort harness stopped at case {k} (rc={rc}): {why}; input: {static_case_text(cases[min(k, len(cases) - 1)])}", rp)
        return
    per = 3000
    bad, deferred, ninst = [], 0, 0
    for sidx in range((len(lines) + per - 1) // per):
        part = lines[sidx * per:(sidx + 1) * per]
        pp = ctx.path(f"static_part{sidx}.ndjson")
        open(pp, "w").write("\n".join(part) + "\n")
        r = vlib.run_tlc(ctx, S_MOD, S_CFG, workers=8, timeout=1800, env={"CASES": pp, "MODE": "report"}, tag=f"static{sidx}", heap="6g")
        if r.kind != "ok":
            raise Broken(f"InvokeStatic shard {sidx}: kind={r.kind}\n" + "\n".join(r.out.splitlines()[-25:]))
        ctx.states += r.distinct
        ctx.transitions += r.generated
        for v in jprints(r.out):
            if v and v[0] == "NONCONF":
                bad.append((sidx * per + v[1] - 1, v[2]))
            elif v and v[0] == "DEFERRED":
                deferred += 1
    for ln in lines:
        o = json.loads(ln)
        ninst += o["ninst"]
        ctx.distinct.add(("static", o["env"], o["fconv"], o["cconv"], tuple(o["fargs"]), tuple(o["cargs"]), tuple(o["map"]), o["fp"]))
    ctx.traces += len(lines) - deferred
    ctx.evaluations += ninst
    ctx.extra["static_cases"] = len(lines)
    ctx.extra["static_cases_deferred_to_C06a"] = deferred
    ctx.extra["static_instructions_executed"] = ninst
    groups = {}
    for idx, d in bad:
        groups.setdefault(static_key(d, json.loads(lines[idx])), []).append((idx, d))
    ctx.log(f"(B/static) {len(lines)} call sequences of the real Compiler for x86-32 / Win64 / AArch64 executed on the abstract machine "
            f"({ninst} instructions; {deferred} cases left to C06(a)); {len(bad)} rejected in {len(groups)} classes")
    for k, items in sorted(groups.items()):
        items.sort(key=lambda it: (len(lines[it[0]]), it[0]))
        idx, d = items[0]
        rp = os.path.join(findings_dir(ctx), re.sub(r"[^A-Za-z0-9_.-]+", "_", k)[:100] + ".ndjson")
        open(rp, "w").write(lines[idx] + "\n")
        # second, strict run on the minimal input alone: must be a TLC invariant violation
        r = vlib.run_tlc(ctx, S_MOD, S_CFG, workers=1, timeout=600, env={"CASES": rp, "MODE": "strict"}, tag="static_strict", heap="1g")
        if r.kind != "violation":
            raise Broken(f"static finding {k} not confirmed by the strict run on {rp}: {r.kind}")
        what = f"{' '.join(str(x) for x in d)}; smallest failing input: {static_case_text(json.loads(lines[idx]))}; {len(items)} cases in this run"
        ctx.extra.setdefault("findings", {})[k] = {"count": len(items), "diag": d}
        if k in ctx.known:
            ctx.known_finding(k, what)
        else:
            ctx.violation(f"key={k} {what}", rp)
    o = json.loads(lines[len(lines) // 2])
    ctx.add_sample({"static": static_case_text(o), "instructions_to_call": [i["op"] for i in o["insts"]][:14]})


ASSUMPTIONS = [
    "Part A runs on the x86-64 System V host only; Win64 / 32-bit / AArch64 calls are not executed",
    "the callee thunks, the entry trampoline (assembly in harness/invoke.cpp) and the translation scenario -> Compiler API calls are trusted; "
    "argument / return locations are taken from spec/func/ABI.tla by TLC, never from the harness",
    "only the low size-of-type bytes of a narrow argument / return value are compared (psABI leaves the rest undefined)",
    "a scenario that uses only documented operand assignments must build (add_func .. finalize, JitRuntime::add all Ok); other scenarios may be refused",
    "Part B: the harness's projection (node ids in order of first sight, NodeType names, VirtReg accessors) is trusted; the flag `tidy` "
    "(code is a sequence of closed functions built from documented calls) is the harness's claim; error codes are not compared, only Ok / not Ok",
    "static leg: x86-32 (cdecl/stdcall/fastcall, Linux and Windows), Win64 and AAPCS64 callers are judged up to the call instruction only "
    "(return values and callee-cleanup are not); char arguments on x86-32 live in 32-bit virtual registers (8-bit virtual registers are "
    "documented as not recommended); cases whose FuncDetail locations differ from ABI.tla are left to C06(a)",
    "InvokeNode::set_arg / FuncNode::set_arg with an index out of range are guarded by assertions only (no error path exists to check); "
    "add_func() inside an open function is not an error in asmjit and is treated as allowed misuse",
]


def run(ctx):
    t = {}
    def timed(name, fn):
        t0 = time.time()
        fn(ctx)
        t[name] = round(time.time() - t0, 1)
    with ThreadPoolExecutor(max_workers=4) as ex:
        futs = [ex.submit(timed, "design", design), ex.submit(timed, "part_a", part_a), ex.submit(timed, "part_b", part_b), ex.submit(timed, "part_c", part_c)]
        errs = []
        for f in futs:
            try:
                f.result()
            except Exception as e:      # noqa
                errs.append(e)
        if errs:
            raise errs[0]
    ctx.extra["leg_wall_s"] = t
    ctx.assumptions += ASSUMPTIONS
    vlib.write_evidence(ctx, "model_checking",
        rule="evaluations = calls observed by the recording callees + completed executions of generated callers (Part A) + front-end API calls "
             "(Part B), each judged by TLC against Invoke.tla / CompilerFront.tla; distinct = distinct (signature, target kind, frame options) "
             "of callees and callers + distinct (call, result class, list length) front-end steps; traces = executions accepted by TLC; "
             "states/transitions = TLC totals over design runs and trace validation",
        trusted_base=["TLC 1.8.0", "spec/comp/Invoke.tla, spec/comp/CompilerFront.tla (contracts)",
                      "spec/func/ABI.tla (locations; validated against gcc/clang by C06)",
                      "harness/invoke.cpp: assembly trampoline / recording thunks / scenario translation", "harness/compfront.cpp projection"],
        exhaustive=False)


def replay(ctx, path):
    recs = vlib.read_ndjson(path)
    scn = next((r["s"] for r in recs if r.get("e") == "Scenario"), None)
    if recs and (recs[0].get("e") == "Static" or ("cargs" in recs[0] and "e" not in recs[0])):
        bdir = ctx.build("asan", "compfront")
        cp, op = ctx.path("replay_case.ndjson"), ctx.path("replay_obs.ndjson")
        vlib.write_ndjson(cp, [{k: recs[0][k] for k in ("id", "env", "fconv", "cconv", "fargs", "cargs", "map", "imms", "fp")}])
        rc, _, err = vlib.run_harness(ctx, bdir, "compfront", ["static", cp, op], timeout=300)
        if rc != 0:
            ctx.violation(f"static case aborts the harness (rc={rc}): {err[-300:]}", cp)
            return
        r = vlib.run_tlc(ctx, S_MOD, S_CFG, workers=1, timeout=600, env={"CASES": op, "MODE": "strict"}, tag="replay_static", heap="1g")
        if r.kind == "violation":
            ctx.violation("replayed static case is rejected by InvokeStatic.tla", op)
        elif r.kind == "ok":
            ctx.log("replayed static case conforms")
        else:
            raise Broken("replay of static case failed to run: " + r.out[-800:])
        return
    if scn is None:
        # a front-end execution: the recorded calls are judged again (strictly)
        r = vlib.run_tlc(ctx, F_MOD, F_CFG, workers=1, timeout=600, env={"TRACE": path, "KNOWN_STALE_OUT": "0", "KNOWN_A64_LABEL": "0", "MODE": "report"}, tag="replay_front")
        if r.kind == "ok":
            ctx.log("recorded front-end execution is accepted")
        else:
            ctx.violation("recorded front-end execution is rejected: " + " ".join(re.findall(r'<<"REJECT".*', r.out))[:300], path)
        return
    bdir = ctx.build("plain", "invoke")
    place(ctx, [scn], "replay")
    tr = run_scenarios(ctx, bdir, [scn], "replay")
    ok, maxl, r = vlib.validate_trace_file(ctx, T_MOD, T_CFG, tr)
    if ok:
        ctx.log("replayed scenario is accepted")
    else:
        d = diag_of(ctx, tr, "replay")
        ctx.violation(f"replayed scenario rejected at line {maxl}: {d}", tr)
