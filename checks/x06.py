"""X06 - Compiler function calls (invoke) marshal arguments and return values correctly, and the Compiler front-end node
structure follows its documented life cycle.

Part A (executed on the x86-64 host, System V):
  spec/comp/Invoke.tla      contract: what the callee of a Compiler-generated caller must observe (locations from
                            spec/func/ABI.tla), what survives a call, what f returns / stores / preserves
  spec/comp/InvokeImpl.tla  model of a code generator (placement of live values, argument shuffles, clobbering callee);
                            TLC: every behaviour refines the contract; negative controls (typical slips) must fail
  spec/comp/InvokeTrace.tla trace validation of recorded executions of real generated code (harness/invoke.cpp)
Part B (structure; x86-64, x86-32 and AArch64, nothing executed):
  spec/comp/CompilerFront.tla (+MC, +Trace)   node list grammar / life cycle of add_func .. end_func .. finalize, error paths,
                            virtual register table;  harness/compfront.cpp records API calls + node list projections
  spec/comp/InvokeStatic.tla  the instruction sequence emitted around an invoke on x86-32 / AArch64 moves every argument to
                            the location ABI.tla prescribes (symbolic execution on spec/machine/Machine.tla)
"""
import json, os, re, sys, time
from concurrent.futures import ThreadPoolExecutor
import vlib
from vlib import Broken
import x06gen

SPEC = os.path.join(vlib.VERIF, "spec", "comp")
T_MOD, T_CFG = os.path.join(SPEC, "InvokeTrace.tla"), os.path.join(SPEC, "InvokeTrace.cfg")
FINDINGS_DIR = os.path.join(vlib.VERIF, "out", "X06.findings")


def jprints(out):
    res = []
    for ln in out.splitlines():
        if ln.startswith('"['):
            try:
                res.append(json.loads(json.loads(ln)))
            except Exception:
                pass
    return res


# ----------------------------------------------------------------------------------------------------------
# Part A
# ----------------------------------------------------------------------------------------------------------
def place(ctx, scns, tag):
    """f's argument locations come from ABI.tla (TLC), not from the harness or this script."""
    sp = ctx.path(f"scn_{tag}_in.ndjson")
    vlib.write_ndjson(sp, [{"id": s["id"], "f": s["f"]} for s in scns])
    r = vlib.run_tlc(ctx, os.path.join(SPEC, "InvokePlace.tla"), os.path.join(SPEC, "InvokePlace.cfg"), workers=4, timeout=900,
                     env={"SCN": sp}, tag=f"place_{tag}")
    if r.kind != "ok":
        raise Broken(f"InvokePlace failed: {r.out[-1500:]}")
    places = {v[1]: v[2] for v in jprints(r.out) if v and v[0] == "PLACE"}
    for s in scns:
        if s["id"] not in places:
            raise Broken(f"no placement for scenario {s['id']}")
        s["place"] = places[s["id"]]
    return scns


def run_scenarios(ctx, bdir, scns, tag):
    sp, tr = ctx.path(f"scn_{tag}.ndjson"), ctx.path(f"trace_{tag}.ndjson")
    vlib.write_ndjson(sp, scns)
    rc = vlib.record_trace(ctx, bdir, "invoke", ["run", sp, tr], tr, timeout=1800)
    return tr


def diag_of(ctx, path, tag):
    """Second TLC run on the rejected execution alone, report mode: names the broken clause (and repeats the rejection)."""
    r = vlib.run_tlc(ctx, T_MOD, T_CFG, workers=1, timeout=600, env={"TRACE": path, "MODE": "report"}, tag=f"diag_{tag}", heap="2g")
    if r.kind == "ok":
        raise Broken(f"rejection of {path} not repeated in report mode")
    m = None
    for m in re.finditer(r'<<"REJECT", (\d+), (<<.*?>>)>>\s*$', r.out, re.M):
        pass
    if not m:
        return ["unclassified"]
    txt = m.group(2).replace("<<", "[").replace(">>", "]").replace("TRUE", "true").replace("FALSE", "false")
    try:
        return json.loads(txt)
    except Exception:
        return ["unclassified"]


def key_of(diag, recs):
    build = next((r for r in recs if r.get("e") == "Build"), {})
    if diag[0] == "crash":
        # attribution of the one known defect: a variadic call whose target register was allocated to rax
        if build.get("va_target_rax") and len(diag) >= 6 and diag[3] == "invoke" and diag[5] == "variadic" and diag[4] in ("reg", "mem"):
            return "invoke:variadic-target-in-rax"
        return "crash:" + ":".join(str(x) for x in diag[2:])
    if diag[0] == "invoke" and diag[1] == "arg":
        return f"invoke:arg:{diag[2]}:{diag[3]}:{diag[4]}"
    if diag[0] == "build":
        return "build:refused:" + ":".join(re.sub(r"[^A-Za-z0-9]+", "-", str(x)) for x in diag[2:])
    return ":".join(str(x) for x in diag if not isinstance(x, int))


def validate_sharded(ctx, trace, tag, per=40, pool=4):
    recs = vlib.read_ndjson(trace)
    execs = vlib.split_executions(recs)
    shards = [execs[i:i + per] for i in range(0, len(execs), per)]

    def one(i):
        p = ctx.path(f"{tag}_shard{i}.ndjson")
        vlib.write_ndjson(p, [r for e in shards[i] for r in e])
        return vlib.validate_executions(ctx, T_MOD, T_CFG, p, tag=f"{tag}{i}_", timeout=1500, heap="3g", max_rejects=12)

    rej = []
    with ThreadPoolExecutor(max_workers=pool) as ex:
        for r in ex.map(one, range(len(shards))):
            rej += r
    return recs, execs, rej


def scenario_text(s):
    def sig(d):
        va = "" if d.get("va", 255) == 255 else f" va@{d['va']}"
        return f"{d['ret']}({','.join(d['args'])}){va}"
    cal = "; ".join(f"g{c['thunk']}:{sig(c)} via {c['target']}" for c in s["callees"])
    return f"scenario {s['id']} [{s.get('profile', '?')}] f={sig(s['f'])} avx={s['cfg']['avx']} fp={s['cfg']['fp']} callees: {cal}"


def report_rejections(ctx, rej, tag):
    groups = {}
    for n, x in enumerate(rej):
        d = diag_of(ctx, x["path"], f"{tag}{n}")
        k = key_of(d, x["records"])
        groups.setdefault(k, []).append((x, d))
    os.makedirs(FINDINGS_DIR, exist_ok=True)
    for k, items in sorted(groups.items()):
        items.sort(key=lambda it: len(json.dumps(it[0]["records"][1])))
        x, d = items[0]
        rp = os.path.join(FINDINGS_DIR, re.sub(r"[^A-Za-z0-9_.-]+", "_", k)[:100] + ".ndjson")
        vlib.write_ndjson(rp, x["records"])
        s = x["records"][1]["s"]
        what = f"{' '.join(str(e) for e in d)}; smallest failing input: {scenario_text(s)}; {len(items)} rejected executions in this run"
        ctx.extra.setdefault("findings", {})[k] = {"count": len(items), "diag": d, "scenario": s["id"], "profile": s.get("profile")}
        if k in ctx.known:
            ctx.known_finding(k, what)
        else:
            ctx.violation(f"key={k} {what}", rp)


def part_a(ctx):
    q = ctx.quick
    bdir = ctx.build("plain", "invoke")
    n = 280 if q else 4200
    scns = x06gen.gen(ctx.seed, n)
    place(ctx, scns, "rnd")
    tr = run_scenarios(ctx, bdir, scns, "rnd")
    recs, execs, rej = validate_sharded(ctx, tr, "tv", per=35 if q else 70, pool=4 if q else 6)
    ncall = sum(1 for r in recs if r.get("e") == "Call")
    nrun = sum(1 for r in recs if r.get("e") == "Leave")
    nrefused = sum(1 for r in recs if r.get("e") == "Build" and not r.get("ok"))
    ctx.evaluations += ncall + nrun
    ctx.extra["invoke_scenarios"] = len(scns)
    ctx.extra["invoke_calls_observed"] = ncall
    ctx.extra["invoke_runs_completed"] = nrun
    ctx.extra["invoke_builds_refused"] = nrefused
    for s in scns:
        for c in s["callees"]:
            ctx.distinct.add(("callee", c["ret"], tuple(c["args"]), c["va"], c["target"], s["cfg"]["avx"], s["cfg"]["fp"]))
        ctx.distinct.add(("f", s["f"]["ret"], tuple(s["f"]["args"]), s["cfg"]["avx"], s["cfg"]["fp"]))
    ctx.log(f"(A) {len(scns)} scenarios built by the real Compiler, {nrun} executions, {ncall} calls observed by the callee thunks; "
            f"{len(rej)} executions rejected")
    for e in execs[:3]:
        if len(e) > 4:
            ctx.add_sample({"scenario": scenario_text(e[1]["s"]), "events": [r["e"] for r in e][:12]})
    report_rejections(ctx, rej, "a")


ASSUMPTIONS = [
    "Part A runs on the x86-64 System V host only; Win64 / 32-bit / AArch64 calls are not executed (Part B checks their emitted sequences statically)",
    "the callee thunks, the entry trampoline (assembly in harness/invoke.cpp) and the translation scenario -> Compiler API calls are trusted; "
    "argument / return locations are taken from spec/func/ABI.tla by TLC, never from the harness",
    "only the low size-of-type bytes of a narrow argument / return value are compared (psABI leaves the rest undefined)",
    "a scenario that uses only documented operand assignments must build (add_func .. finalize, JitRuntime::add all Ok); other scenarios may be refused",
]


def run(ctx):
    part_a(ctx)
    ctx.assumptions += ASSUMPTIONS
    vlib.write_evidence(ctx, "model_checking",
        rule="evaluations = calls observed by the recording callees + completed executions of generated callers, each judged by TLC against "
             "Invoke.tla; distinct = distinct (signature, target kind, frame options) of callees and callers; traces = executions (one "
             "scenario each, 1-3 inputs) accepted by TLC",
        trusted_base=["TLC 1.8.0", "spec/comp/Invoke.tla (contract)", "spec/func/ABI.tla (locations; validated against gcc/clang by C06)",
                      "harness/invoke.cpp: assembly trampoline / recording thunks / scenario translation"],
        exhaustive=False)


def replay(ctx, path):
    recs = vlib.read_ndjson(path)
    scn = next((r["s"] for r in recs if r.get("e") == "Scenario"), None)
    if scn is None:
        raise Broken("replay file holds no Scenario event")
    bdir = ctx.build("plain", "invoke")
    place(ctx, [scn], "replay")
    tr = run_scenarios(ctx, bdir, [scn], "replay")
    ok, maxl, r = vlib.validate_trace_file(ctx, T_MOD, T_CFG, tr)
    if ok:
        ctx.log("replayed scenario is accepted")
    else:
        d = diag_of(ctx, tr, "replay")
        ctx.violation(f"replayed scenario rejected at line {maxl}: {d}", tr)
