"""X04 - operand model, type system and architecture tables are internally consistent and their packing is lossless.

Extension check (no listed property): the contract is what the public headers of asmjit document for
core/operand.h (Operand_/Reg/BaseMem/Imm/Label/BaseRegList/RegOnly/OperandSignature), x86/x86operand.h, arm/a64operand.h,
core/type.h, core/archtraits.h (+ x86/a64 arch traits), core/environment.h, core/globals.h (error strings) and the pure
helpers of support/support.h.

Decided by TLC on spec/opmodel/*:
  1. design    OperandMC.tla model-checks the contract Operand.tla (one action per API call): TypeInv, Lossless (documented
               field layout packs/unpacks every abstract operand), DocInv, action properties Frame and RoundTrip; `-coverage`
               must show every action taken; three negative-control configurations must FAIL (overlapping layout, a setter
               that clobbers its neighbour, an offset setter that drops the high half).
  2. replay    TLC-simulated behaviours of OperandMC are executed on the REAL classes (harness/opmodel.cpp script) ...
  3. record    ... and long random API histories (record); every execution is validated by TLC against the contract
               (OperandTrace.tla: the getters of the real object after every call must equal View(Apply(s, call))).
  4. pointwise tables (reg traits, type ids, arch traits, type->register mapping, error strings, register constants, host
               environment) and observations of support.h helpers / OperandSignature field arithmetic are judged line by line
               by ModelObs.tla (reference semantics in SupportFns.tla / TableModel.tla written from the documentation).
ASan/UBSan is only the environment of the recorded executions (an abort truncates the trace and the ABORT line is rejected)."""
import collections, concurrent.futures, json, os, re, threading
import vlib
from vlib import Broken

SPEC = os.path.join(vlib.VERIF, "spec", "opmodel")
MC, TRACE, OBS = (os.path.join(SPEC, n) for n in ("OperandMC.tla", "OperandTrace.tla", "ModelObs.tla"))
TRACE_CFG, OBS_CFG = os.path.join(SPEC, "OperandTrace.cfg"), os.path.join(SPEC, "ModelObs.cfg")
MACHINES = ["x86mem", "a64mem", "basemem", "x86reg", "a64reg", "imm", "label", "reglist", "regonly", "env"]
_lock = threading.Lock()

NEG_CONTROLS = [  # (name, cfg overrides, what must be violated)
    ("overlap_layout", {"Layout": "Layout <- OverlapLayout"}, "Lossless"),
    ("setter_clobbers_neighbour", {"Bug": 'Bug = "seg_clobbers_shift"'}, "Frame"),
    ("offset_drops_high", {"Bug": 'Bug = "offset_drops_high"'}, "RoundTrip"),
]


def mc_cfg(ctx, name, machines, depth, export=0, layout="Layout <- DocLayout", bug='Bug = "none"', check=True):
    p = ctx.path(name + ".cfg")
    ms = ", ".join(f'"{m}"' for m in machines)
    txt = (f"SPECIFICATION Spec\nCONSTANTS\n  MCMachines = {{{ms}}}\n  {layout}\n  {bug}\n  MaxDepth = {depth}\n  ExportDepth = {export}\n"
           "CONSTRAINT Bounded\n")
    if check:
        txt += "INVARIANTS TypeInv Lossless DocInv\nPROPERTIES Frame RoundTrip\n"
    if export:
        txt += "INVARIANT Export\nCONSTRAINT ExportBound\n"
    open(p, "w").write(txt)
    return p


FAMILY = {"M": ("x86mem", "a64mem", "basemem"), "R": ("x86reg", "a64reg"), "I": ("imm",), "L": ("label",), "G": ("reglist",), "O": ("regonly",), "E": ("env",)}


def action_coverage(scripts):
    """TLC's `-coverage` instrumentation runs out of memory on this spec, so coverage is measured on TLC's own behaviours:
    action X_<call> is taken iff an exported behaviour of a machine of family X contains the call."""
    seen = set()
    for sc in scripts:
        for ev in sc["ops"]:
            seen.add((sc["m"], ev["e"]))
    missing = []
    for a in spec_actions():
        fam, call = a[0], a[2:]
        machines = FAMILY[fam]
        if a == "M_make_x86":
            machines, call = ("x86mem",), "make"
        elif a == "M_make_a64":
            machines, call = ("a64mem",), "make"
        if not any((m, call) in seen for m in machines):
            missing.append(a)
    return len(spec_actions()) - len(missing), missing


def spec_actions():
    txt = open(MC).read()
    return sorted(set(re.findall(r"^([MRILGOE]_\w+)\s*==", txt, re.M)))


# ----------------------------------------------------------------------------------------------------------------
def design(ctx):
    q = ctx.quick
    depth = 2
    groups = [["x86mem"], ["a64mem", "basemem"], ["x86reg", "a64reg"], ["imm", "label", "reglist", "regonly", "env"]]
    total = gen = 0

    def one(g):
        cfg = mc_cfg(ctx, "mc_" + g[0], g, depth)
        r = vlib.run_tlc(ctx, MC, cfg, workers=4, timeout=1500, heap="4g", tag="mc_" + g[0])
        return g, r
    with concurrent.futures.ThreadPoolExecutor(max_workers=4) as ex:
        for g, r in ex.map(one, groups):
            vlib.tlc_must_ok(ctx, r, f"OperandMC {g} (TypeInv/Lossless/DocInv/Frame/RoundTrip)")
            total += r.distinct
            gen += r.generated
    if not q:
        # long random walks of the contract with every invariant / action property on (the exhaustive part is bounded to 2 calls)
        def sim(g):
            cfg = mc_cfg(ctx, "mcsim_" + g[0], g, 1000)
            return g, vlib.run_tlc(ctx, MC, cfg, workers=2, timeout=1700, heap="3g", tag="mcsim_" + g[0], simulate=2000, depth=40, seed=ctx.seed + 5)
        with concurrent.futures.ThreadPoolExecutor(max_workers=4) as ex:
            for g, r in ex.map(sim, groups):
                if r.kind != "ok":
                    raise Broken(f"OperandMC simulation {g}: kind={r.kind} violated={r.violated}\n" + r.out[-1500:])
                m = re.search(r"The number of states generated: (\d+)", r.out)
                gen += int(m.group(1)) if m else 0
    ctx.log(f"design: {total} distinct abstract operand states, {gen} transitions checked (BFS levels <= {depth}{'' if q else ' + random walks of 40 calls'})")
    ctx.extra["design_states"] = total
    ctx.extra["design_transitions"] = gen
    # negative controls: the invariants are not vacuous
    neg = {}
    for name, over, expect in NEG_CONTROLS:
        cfg = mc_cfg(ctx, "neg_" + name, ["x86mem", "a64reg"], 2, layout=over.get("Layout", "Layout <- DocLayout"), bug=over.get("Bug", 'Bug = "none"'))
        r = vlib.run_tlc(ctx, MC, cfg, workers=2, timeout=900, heap="2g", tag="neg_" + name)
        if r.kind != "violation" or r.violated != expect:
            raise Broken(f"negative control {name}: expected violation of {expect}, got kind={r.kind} violated={r.violated}\n" + r.out[-1500:])
        neg[name] = f"{expect} violated (as required)"
    ctx.extra["negative_controls"] = neg
    ctx.log(f"negative controls fail as required: {neg}")


def export_behaviours(ctx):
    """TLC simulates the contract; every behaviour becomes a script for the real classes.  (TLC evaluates the Export invariant on every
    successor it generates at the last level, so one simulated walk yields a few hundred behaviours that differ in their last call.)"""
    q = ctx.quick
    depth = 12 if q else 20
    cap = 60 if q else 600           # behaviours kept per machine
    groups = [["x86mem", "a64mem", "basemem"], ["x86reg", "a64reg"], ["imm", "label", "reglist", "regonly", "env"]]
    scripts = []

    def one(g):
        cfg = mc_cfg(ctx, "sim_" + g[0], g, 1000, export=depth, check=False)
        r = vlib.run_tlc(ctx, MC, cfg, workers=1, timeout=900, heap="2g", tag="sim_" + g[0], simulate=(80 if q else 300) * len(g), depth=depth + 1, seed=ctx.seed + 17)
        return g, r
    allb = []
    with concurrent.futures.ThreadPoolExecutor(max_workers=3) as ex:
        for g, r in ex.map(one, groups):
            if r.kind != "ok":
                raise Broken(f"behaviour export for {g} failed: kind={r.kind}\n" + r.out[-1200:])
            for mm in re.finditer(r'^<<"BEH", "(\w+)", (".*")>>$', r.out, re.M):
                allb.append({"m": mm.group(1), "ops": json.loads(json.loads(mm.group(2)))})
    uniq = {json.dumps(s, sort_keys=True) for s in allb}
    allb = [json.loads(s) for s in sorted(uniq)]
    ntaken, missing = action_coverage(allb)
    if missing:
        raise Broken(f"OperandMC: actions never taken in {len(allb)} simulated behaviours: {missing}")
    # replay a subset: first one behaviour per (machine, call), then up to `cap` per machine
    scripts, per, have = [], collections.Counter(), set()
    for sc in allb:
        new = {(sc["m"], ev["e"]) for ev in sc["ops"]} - have
        if new:
            have |= new
            scripts.append(sc)
            per[sc["m"]] += 1
    chosen = {json.dumps(s, sort_keys=True) for s in scripts}
    for sc in allb:
        if per[sc["m"]] < cap and json.dumps(sc, sort_keys=True) not in chosen:
            scripts.append(sc)
            per[sc["m"]] += 1
    ctx.extra["model_behaviours_generated"] = len(allb)
    sp = ctx.path("scripts.ndjson")
    vlib.write_ndjson(sp, scripts)
    ctx.log(f"{len(scripts)} distinct model behaviours (depth {depth}) exported for replay on the real classes; all {ntaken} spec actions taken")
    ctx.extra["model_behaviours_replayed"] = len(scripts)
    ctx.extra["spec_actions_taken"] = ntaken
    return sp


# ----------------------------------------------------------------------------------------------------------------
def describe_event(rec):
    d = {k: v for k, v in rec.items() if k != "o"}
    return json.dumps(d, separators=(",", ":"))[:260]


def classify_trace_rejection(ctx, x):
    """key = machine:call:mismatching getters (from TLC's MISMATCH diagnostics)"""
    recs, idx = x["records"], x["index"]
    bad = recs[idx] if idx < len(recs) else {"e": "END"}
    mach = recs[0].get("m", "?") if recs and recs[0].get("e") == "Reset" else "?"
    out = x["tlc"].out
    if '<<"HARNESS"' in out:
        raise Broken(f"trace contains a malformed call (harness precondition): {describe_event(bad)}")
    fields = []
    mm = None
    for mm in re.finditer(r'<<\s*"MISMATCH",\s*\d+,\s*\{([^}]*)\}\s*>>', out, re.S):
        pass
    if mm:
        fields = sorted(re.findall(r'"(\w+)"', mm.group(1)))
    if bad.get("e") == "ABORT":
        why = bad.get("why", "")
        m2 = re.search(r"([\w.]+\.(?:h|cpp)):\d+:\d+: runtime error: ([a-z ]+?)(?::| \d| of|$)", why)
        key = f"ub:{m2.group(1)}:{m2.group(2).strip().replace(' ', '-')}" if m2 else f"{mach}:abort"
        prev = recs[idx - 1] if idx > 0 else {}
        return key, f"traced binary aborted ({why}) in the call after {describe_event(prev)}", bad
    key = f"{mach}:{bad.get('e')}:{'+'.join(fields) if fields else 'rejected'}"
    return key, f"after {describe_event(bad)} the getters {fields} of the real object differ from the contract", bad


def validate_traces(ctx, path, tag):
    recs = vlib.read_ndjson(path)
    for r in recs:
        if r.get("e") not in ("Reset", "ABORT"):
            ctx.distinct.add((tag[0], r.get("e"), json.dumps({k: v for k, v in r.items() if k not in ("o", "e")}, sort_keys=True)))
    rej = vlib.validate_executions(ctx, TRACE, TRACE_CFG, path, tag=tag, timeout=1700, heap="4g", max_rejects=6)
    for x in rej:
        key, msg, bad = classify_trace_rejection(ctx, x)
        if key in ctx.known:
            ctx.known_finding(key, ctx.known[key])
        else:
            ctx.violation(f"{key}: {msg}", x["path"])
    if recs:
        ctx.add_sample({"source": tag, "events": [{k: v for k, v in r.items() if k != "o"} for r in recs[1:4]]})
    return len(recs)


# ----------------------------------------------------------------------------------------------------------------
def tlc_pointwise(ctx, lines, tag, shards, timeout=1500):
    if not lines:
        return []
    shards = max(1, min(shards, (len(lines) + 799) // 800))
    parts = [lines[i::shards] for i in range(shards)]
    paths = []
    for i, p in enumerate(parts):
        path = ctx.path(f"{tag}_shard{i}.ndjson")
        open(path, "w").write("\n".join(p) + "\n")
        paths.append(path)

    def one(i):
        return i, vlib.run_tlc(ctx, OBS, OBS_CFG, workers=2, timeout=timeout, env={"OBS": paths[i]}, heap="3g", tag=f"{tag}{i}", extra=["-continue"])
    rejects = []
    with concurrent.futures.ThreadPoolExecutor(max_workers=8) as ex:
        for i, r in ex.map(one, range(shards)):
            if r.kind in ("timeout", "error") or "Finished computing initial states" not in r.out:
                raise Broken(f"TLC {tag} shard {i}: kind={r.kind} rc={r.rc}\n" + "\n".join(r.out.splitlines()[-25:]))
            if r.distinct != len(parts[i]):
                raise Broken(f"TLC {tag} shard {i}: {r.distinct} observations evaluated, {len(parts[i])} expected")
            with _lock:
                ctx.states += r.distinct
                ctx.transitions += r.generated
            nviol = len(re.findall(r"Invariant Conforms is violated", r.out))
            rj = re.findall(r'<<"REJECT", (\d+), "([^"]*)">>', r.out)
            if nviol != len(rj):
                raise Broken(f"TLC {tag} shard {i}: {nviol} invariant violations but {len(rj)} REJECT lines")
            for ln, clause in rj:
                rejects.append((json.loads(parts[i][int(ln) - 1]), clause))
    return rejects


def obs_key(o, clause):
    if o["k"] == "sup":      # helper, clause, operand type (so that a known finding about one instantiation cannot hide another)
        return f"sup:{clause}:{'i' if o.get('sg') else 'u'}{o['w']}"
    if o["k"] == "t2r":
        return f"{clause}:arch{o['a']}:type{o['t']}"
    if o["k"] == "arch":
        return f"{clause}:arch{o['a']}"
    return clause


def obs_input(o):
    d = {}
    for k, v in o.items():
        if k == "_":
            break
        d[k] = v
    return d


def report_obs(ctx, bdir, rejects):
    groups = collections.OrderedDict()
    for o, clause in rejects:
        if clause == "harness":
            raise Broken(f"malformed observation (precondition not established by the harness): {json.dumps(o)[:300]}")
        groups.setdefault(obs_key(o, clause), []).append(o)
    if not groups:
        return
    os.makedirs(ctx.out + ".replay", exist_ok=True)
    # second run: every rejected group is re-executed on the code (one harness call) and judged again (one TLC run); a rejection must repeat
    allp, rps = ctx.path("rejected_all.ndjson"), {}
    sample = []
    for key, obs in groups.items():
        safe = re.sub(r"[^A-Za-z0-9_.-]", "_", key)
        rps[key] = os.path.join(ctx.out + ".replay", f"reject_{safe}.ndjson")
        ex = obs[:10] + (obs[-10:] if len(obs) > 20 else obs[10:20])
        vlib.write_ndjson(rps[key], ex)
        sample += ex[:4]
    vlib.write_ndjson(allp, sample)
    again = ctx.path("rejected_all.again.ndjson")
    rc, _, err = vlib.run_harness(ctx, bdir, "opmodel", ["replay", allp, again], timeout=300)
    if rc != 0:
        raise Broken(f"replay of rejected observations failed rc={rc}: {err[-500:]}")
    repeated = {obs_key(o, c) for o, c in tlc_pointwise(ctx, [l for l in open(again).read().splitlines() if l], "confirm", 2)}
    for key, obs in groups.items():
        if key not in repeated:
            raise Broken(f"rejection {key} did not repeat on re-execution")
        o0 = obs[0]
        inp = obs_input(o0)
        outp = {k: v for k, v in list(o0.items())[len(inp) + 1:][:6]}
        msg = f"{len(obs)} rejected row(s), e.g. {json.dumps(inp, separators=(',', ':'))[:200]} -> {json.dumps(outp, separators=(',', ':'))[:200]}"
        ctx.extra.setdefault("rejected_groups", {})[key] = len(obs)
        if key in ctx.known:
            ctx.known_finding(key, ctx.known[key] + f" [{len(obs)} rows in this run]")
        else:
            ctx.violation(f"{key}: {msg}", rps[key])


# ----------------------------------------------------------------------------------------------------------------
def run(ctx):
    q = ctx.quick
    import shutil
    shutil.rmtree(ctx.out + ".replay", ignore_errors=True)
    basan = ctx.build("asan", "opmodel")      # environment of the recorded executions
    bplain = ctx.build("plain", "opmodel")    # tables / helper observations (a UBSan build would abort inside helpers whose defects are findings)

    err = {}

    def bg(name, fn):
        def w():
            try:
                fn()
            except BaseException as e:      # re-raised in the main thread
                err[name] = e
        t = threading.Thread(target=w, daemon=True)
        t.start()
        return t
    th_design = bg("design", lambda: design(ctx))

    # 2./3. executions of the real classes
    env = {"VERIF_SEED": ctx.seed}
    sp = export_behaviours(ctx)
    tr_s = ctx.path("trace_scripts.ndjson")          # model behaviours use boundary offsets whose sum wraps: plain build (see ub probe below)
    vlib.record_trace(ctx, bplain, "opmodel", ["script", sp, tr_s], tr_s, timeout=600, env=env)
    tr_r = ctx.path("trace_random.ndjson")
    nexec, steps = (100, 40) if q else (1200, 80)
    vlib.record_trace(ctx, bplain, "opmodel", ["record", tr_r, nexec, steps], tr_r, timeout=900, env=env)
    tr_a = ctx.path("trace_random_asan.ndjson")      # sanitizer environment; 64-bit offset additions kept inside int64 (X04_SAFE)
    vlib.record_trace(ctx, basan, "opmodel", ["record", tr_a, nexec // 2, steps], tr_a, timeout=900, env=dict(env, X04_SAFE=1, VERIF_SEED=ctx.seed + 1))
    # probe: the wrap-around of a 64-bit absolute address (defined by the contract as modulo 2^64) under UBSan
    pr_s, tr_p = ctx.path("ub_probe.ndjson"), ctx.path("trace_ub_probe.ndjson")
    vlib.write_ndjson(pr_s, [{"m": "basemem", "ops": [{"e": "set_offset", "v": [0, 0, 0, 32768]}, {"e": "add_offset", "v": [65535, 65535, 65535, 65535]}]},
                             {"m": "x86mem", "ops": [{"e": "set_offset", "v": [65535, 65535, 65535, 32767]}, {"e": "clone_adjusted", "v": [1, 0, 0, 0]}]}])
    vlib.record_trace(ctx, basan, "opmodel", ["script", pr_s, tr_p], tr_p, timeout=120, env=env)

    # 4. tables and pointwise observations
    tb = ctx.path("tables.ndjson")
    rc, _, e2 = vlib.run_harness(ctx, bplain, "opmodel", ["tables", tb], timeout=300, env=env)
    if rc != 0:
        raise Broken(f"harness tables failed rc={rc}: {e2[-800:]}")
    ob = ctx.path("obs.ndjson")
    nobs = 5000 if q else 80000
    rc, _, e2 = vlib.run_harness(ctx, bplain, "opmodel", ["observe", ob, nobs], timeout=600, env=env)
    if rc != 0:
        raise Broken(f"harness observe failed rc={rc}: {e2[-800:]}")
    lines = [l for p in (tb, ob) for l in open(p).read().splitlines() if l]
    kinds = collections.Counter(json.loads(l)["k"] for l in lines)
    ctx.extra["rows"] = dict(kinds)
    ctx.log(f"table rows / observations: {dict(kinds)}")

    res = {}
    th_obs = bg("obs", lambda: res.__setitem__("rej", tlc_pointwise(ctx, lines, "obs", 8 if q else 16)))
    nev = validate_traces(ctx, tr_s, "scripts") + validate_traces(ctx, tr_r, "random") + validate_traces(ctx, tr_a, "asan") + validate_traces(ctx, tr_p, "ubprobe")
    th_obs.join()
    th_design.join()
    for name in ("design", "obs"):
        if name in err:
            raise err[name]
    report_obs(ctx, bplain, res["rej"])
    ctx.log(f"executions validated: {ctx.traces}; events {nev}; rows judged {len(lines)}, rejected {len(res['rej'])}")

    ctx.evaluations = nev + len(lines)
    for l in lines:
        o = json.loads(l)
        ctx.distinct.add(("row", json.dumps(obs_input(o), sort_keys=True)))
    for k in ("regtrait", "arch", "sup", "sigf"):
        for l in lines:
            if json.loads(l)["k"] == k:
                ctx.add_sample({"source": k, "row": json.loads(l)}, limit=8)
                break
    ctx.assumptions += [
        "setters are called with values inside the documented range of their field (ASMJIT_ASSERT precondition of set_field); register ids / offsets / immediates are unconstrained",
        "Imm(float/double): the IEEE double a C++ float converts to is computed by the harness (C++ conversion), the spec checks the packing of that double",
        "sign/zero_extend_* are only called on integer immediates (the documentation defines them for integer immediates)",
        "clz/ctz are not called with 0, shifts / rotates use counts below the width, alignments are powers of two (documented / C++ preconditions)",
        "is_lsb_mask / is_consecutive_mask do not compile when instantiated (support.h calls an undeclared std_uint) and are therefore not observable; reported separately",
        "recorded executions run under ASan+UBSan (environment); tables and support.h observations come from the plain -O1 build",
        "C18 already drives bit_vector_* and the bit-vector iterators (64-bit words); X04 only adds BitWordIterator over 8/16/32/64-bit words",
    ]
    vlib.write_evidence(
        ctx, "model_checking",
        rule="evaluations = API calls executed on real operand objects and validated by TLC (trace validation) + table rows / helper observations "
             "judged by TLC (one initial state each); distinct = distinct (call, arguments) and distinct row inputs; states/transitions from TLC summaries "
             "(design model checking + trace validation + pointwise evaluation)",
        explanation="contract state machine (Operand.tla) model-checked with negative controls, bound to the real classes by trace validation of "
                    "TLC-generated and random histories; pure tables/helpers bound pointwise",
        exhaustive=False,
        trusted_base=["TLC", "spec/opmodel/*.tla (written from the header documentation)",
                      "harness/opmodel.cpp (calls the API, logs every getter; canonical operand rebuilt through OperandSignature::from_* for the `eq` flag)"])


def replay(ctx, path):
    bplain = ctx.build("plain", "opmodel")
    again = ctx.path("replay.again.ndjson")
    rc, _, err = vlib.run_harness(ctx, bplain, "opmodel", ["replay", path, again], timeout=600)
    if rc != 0:
        raise Broken(f"harness replay failed rc={rc}: {err[-800:]}")
    lines = [l for l in open(again).read().splitlines() if l]
    rows = [l for l in lines if l.startswith('{"k"')]
    evs = [l for l in lines if not l.startswith('{"k"')]
    if rows:
        for o, clause in tlc_pointwise(ctx, rows, "replay_obs", 1):
            ctx.violation(f"{obs_key(o, clause)}: {json.dumps(obs_input(o))[:300]}", again)
            break
    if evs:
        tp = ctx.path("replay_trace.ndjson")
        open(tp, "w").write("\n".join(evs) + "\n")
        for x in vlib.validate_executions(ctx, TRACE, TRACE_CFG, tp, tag="replay", confirm=False):
            key, msg, _ = classify_trace_rejection(ctx, x)
            ctx.violation(f"{key}: {msg}", x["path"])
    ctx.evaluations = len(lines)
