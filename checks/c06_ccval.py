"""C06 model validation helper: checks ABI.tla's predicted placements against gcc and clang on the x86-64 host.

Input: the EXP lines printed by spec/func/ABIValidate.tla (abi, arg types, sizes, predicted primary location).
A C caller passes per-argument sentinel byte patterns through a function pointer of the exact prototype; one assembly
callee dumps all argument registers and 1 KiB of stack above the return address; the C program then looks at the
PREDICTED location of every argument and compares it with the sentinel.  A mismatch is a bug in ABI.tla (or an
unsupported attribute), never a statement about asmjit.
"""
import json, os, subprocess

CTYPE = {
    "i8": "signed char", "u8": "unsigned char", "i16": "short", "u16": "unsigned short", "i32": "int", "u32": "unsigned",
    "i64": "long long", "u64": "unsigned long long", "f32": "float", "f64": "double",
    "i32x2": "v2si", "f32x4": "__m128", "i32x4": "__m128i", "f64x2": "__m128d", "f64x4": "__m256d", "f32x8": "__m256",
    "f32x16": "__m512",
}
ATTR = {"sysv64": "__attribute__((sysv_abi))", "win64": "__attribute__((ms_abi))", "vectorcall64": "__attribute__((vectorcall))"}

PRELUDE = r"""
#include <immintrin.h>
#include <stdint.h>
#include <string.h>
#include <stdio.h>
typedef int v2si __attribute__((vector_size(8)));
struct Dump { uint64_t gp[16]; uint8_t vec[8][64]; uint8_t stack[1024]; uint64_t tmp[4]; };
struct Dump D __attribute__((aligned(64)));
extern void dump_args(void);
/* asmjit register ids: rax0 rcx1 rdx2 rbx3 rsp4 rbp5 rsi6 rdi7 r8..r15 */
__asm__(
".text\n.globl dump_args\n.type dump_args,@function\ndump_args:\n"
" movq %rax, D+0(%rip)\n movq %rcx, D+8(%rip)\n movq %rdx, D+16(%rip)\n movq %rbx, D+24(%rip)\n"
" movq %rsi, D+48(%rip)\n movq %rdi, D+56(%rip)\n movq %r8, D+64(%rip)\n movq %r9, D+72(%rip)\n"
" vmovdqu64 %zmm0, D+128(%rip)\n vmovdqu64 %zmm1, D+192(%rip)\n vmovdqu64 %zmm2, D+256(%rip)\n vmovdqu64 %zmm3, D+320(%rip)\n"
" vmovdqu64 %zmm4, D+384(%rip)\n vmovdqu64 %zmm5, D+448(%rip)\n vmovdqu64 %zmm6, D+512(%rip)\n vmovdqu64 %zmm7, D+576(%rip)\n"
" leaq 8(%rsp), %rsi\n leaq D+640(%rip), %rdi\n movl $128, %ecx\n rep movsq\n"
" movq D+8(%rip), %rcx\n movq D+48(%rip), %rsi\n movq D+56(%rip), %rdi\n"
" ret\n");
static int bad = 0, total = 0;
static void sentinel(void* p, int q, int n) { unsigned char* b = (unsigned char*)p; for (int j = 0; j < n; j++) b[j] = (unsigned char)(q * 7 + j * 13 + 0x21); }
static void expect(const char* sig, int q, int n, int kind, int grp, int id, int off, int ind) {
  unsigned char want[64]; sentinel(want, q, n);
  const unsigned char* at = kind == 0 ? (grp == 0 ? (const unsigned char*)&D.gp[id] : D.vec[id]) : D.stack + off;
  if (ind) { const unsigned char* p; memcpy(&p, at, 8); at = p; }
  total++;
  if (memcmp(at, want, n) != 0) { bad++; printf("MISMATCH %s arg %d\n", sig, q); }
}
"""


def gen_c(exps, compiler):
    """exps: list of (abi, types, sizes, locs).  Returns C source (only the ABIs/types this compiler supports)."""
    out = [PRELUDE]
    calls = []
    n = 0
    for abi, types, sizes, locs in exps:
        if abi == "vectorcall64" and compiler != "clang":
            continue
        if any(t not in CTYPE for t in types):
            continue
        name = f"t{n}"
        n += 1
        sig = abi + ":" + ",".join(types)
        proto = ", ".join(CTYPE[t] for t in types) or "void"
        body = [f'extern void {ATTR[abi]} {name}_callee({proto}) __asm__("dump_args");', f"static void {name}(void) {{"]
        for q, t in enumerate(types):
            body.append(f"  {CTYPE[t]} a{q}; sentinel(&a{q}, {q}, {sizes[q]});")
        body.append("  memset(&D, 0xEE, sizeof D);")
        args = ", ".join(f"a{q}" for q in range(len(types)))
        body.append(f"  {name}_callee({args});")
        for q, t in enumerate(types):
            kind, grp, rid, off, ind = locs[q]
            body.append(f'  expect("{sig}", {q}, {sizes[q]}, {0 if kind == "reg" else 1}, {0 if grp == "gp" else 1}, {rid}, {off}, {1 if ind else 0});')
        body.append("}")
        out.append("\n".join(body))
        calls.append(f"  {name}();")
    out.append("int main(void) {\n" + "\n".join(calls) + '\n  printf("CHECKED %d MISMATCHES %d\\n", total, bad);\n  return bad ? 1 : 0;\n}\n')
    return "\n".join(out), n


def run(exps, workdir, log):
    """Returns dict compiler -> (signatures, checked, mismatches, mismatch lines)."""
    res = {}
    for compiler, exe in (("gcc", "gcc"), ("clang", "clang-14")):
        src, nsig = gen_c(exps, compiler)
        cpath = os.path.join(workdir, f"ccval_{compiler}.c")
        epath = os.path.join(workdir, f"ccval_{compiler}")
        open(cpath, "w").write(src)
        p = subprocess.run([exe, "-O0", "-w", "-mavx512f", "-o", epath, cpath], stdout=subprocess.PIPE, stderr=subprocess.STDOUT, text=True)
        if p.returncode != 0:
            res[compiler] = (nsig, 0, -1, ["COMPILE FAILED: " + p.stdout[-1500:]])
            continue
        r = subprocess.run([epath], stdout=subprocess.PIPE, stderr=subprocess.STDOUT, text=True, timeout=120)
        lines = r.stdout.splitlines()
        mism = [l for l in lines if l.startswith("MISMATCH")]
        chk = [l for l in lines if l.startswith("CHECKED")]
        checked = int(chk[0].split()[1]) if chk else 0
        res[compiler] = (nsig, checked, len(mism) if chk else -1, mism[:20] if chk else ["RUN FAILED rc=%s %s" % (r.returncode, r.stdout[-500:])])
        log(f"model validation vs {compiler}: {nsig} signatures, {checked} argument placements compared, {len(mism)} mismatches")
    return res
