"""C06 model validation helper: checks ABI.tla's predicted placements against gcc and clang on the x86-64 host.

Input: the EXP lines printed by spec/func/ABIValidate.tla (abi, arg types, sizes, predicted primary location).
A C caller passes per-argument sentinel byte patterns through a function pointer of the exact prototype; one assembly
callee dumps all argument registers and 1 KiB of stack above the return address; the C program then looks at the
PREDICTED location of every argument and compares it with the sentinel.  A mismatch is a bug in ABI.tla (or an
unsupported attribute), never a statement about asmjit.
"""
import json, os, subprocess

CTYPE = {
    "i8": "signed char", "u8": "unsigned char", "i16": "short", "u16": "unsigned short", "i32": "int", "u32": "unsigned",
    "i64": "long long", "u64": "unsigned long long", "f32": "float", "f64": "double",
    "i32x2": "v2si", "f32x4": "__m128", "i32x4": "__m128i", "f64x2": "__m128d", "f64x4": "__m256d", "f32x8": "__m256",
    "f32x16": "__m512",
}
ATTR = {"sysv64": "__attribute__((sysv_abi))", "win64": "__attribute__((ms_abi))", "vectorcall64": "__attribute__((vectorcall))"}

PRELUDE = r"""
#include <immintrin.h>
#include <stdint.h>
#include <string.h>
#include <stdio.h>
typedef int v2si __attribute__((vector_size(8)));
struct Dump { uint64_t gp[16]; uint8_t vec[8][64]; uint8_t stack[1024]; uint64_t tmp[4]; };
struct Dump D __attribute__((aligned(64)));
extern void dump_args(void);
/* asmjit register ids: rax0 rcx1 rdx2 rbx3 rsp4 rbp5 rsi6 rdi7 r8..r15 */
__asm__(
".text\n.globl dump_args\n.type dump_args,@function\ndump_args:\n"
" movq %rax, D+0(%rip)\n movq %rcx, D+8(%rip)\n movq %rdx, D+16(%rip)\n movq %rbx, D+24(%rip)\n"
" movq %rsi, D+48(%rip)\n movq %rdi, D+56(%rip)\n movq %r8, D+64(%rip)\n movq %r9, D+72(%rip)\n"
" vmovdqu64 %zmm0, D+128(%rip)\n vmovdqu64 %zmm1, D+192(%rip)\n vmovdqu64 %zmm2, D+256(%rip)\n vmovdqu64 %zmm3, D+320(%rip)\n"
" vmovdqu64 %zmm4, D+384(%rip)\n vmovdqu64 %zmm5, D+448(%rip)\n vmovdqu64 %zmm6, D+512(%rip)\n vmovdqu64 %zmm7, D+576(%rip)\n"
" leaq 8(%rsp), %rsi\n leaq D+640(%rip), %rdi\n movl $128, %ecx\n rep movsq\n"
" movq D+8(%rip), %rcx\n movq D+48(%rip), %rsi\n movq D+56(%rip), %rdi\n"
" ret\n");
static int bad = 0, total = 0;
static void sentinel(void* p, int q, int n) { unsigned char* b = (unsigned char*)p; for (int j = 0; j < n; j++) b[j] = (unsigned char)(q * 7 + j * 13 + 0x21); }
static void expect(const char* sig, int q, int n, int kind, int grp, int id, int off, int ind) {
  unsigned char want[64]; sentinel(want, q, n);
  const unsigned char* at = kind == 0 ? (grp == 0 ? (const unsigned char*)&D.gp[id] : D.vec[id]) : D.stack + off;
  if (ind) { const unsigned char* p; memcpy(&p, at, 8); at = p; }
  total++;
  if (memcmp(at, want, n) != 0) { bad++; printf("MISMATCH %s arg %d\n", sig, q); }
}
"""


def gen_c(exps, compiler):
    """exps: list of (abi, types, sizes, locs).  Returns C source (only the ABIs/types this compiler supports)."""
    out = [PRELUDE]
    calls = []
    n = 0
    for abi, types, sizes, locs in exps:
        if abi == "vectorcall64" and compiler != "clang":
            continue
        if any(t not in CTYPE for t in types):
            continue
        name = f"t{n}"
        n += 1
        sig = abi + ":" + ",".join(types)
        proto = ", ".join(CTYPE[t] for t in types) or "void"
        body = [f'extern void {ATTR[abi]} {name}_callee({proto}) __asm__("dump_args");', f"static void {name}(void) {{"]
        for q, t in enumerate(types):
            body.append(f"  {CTYPE[t]} a{q}; sentinel(&a{q}, {q}, {sizes[q]});")
        body.append("  memset(&D, 0xEE, sizeof D);")
        args = ", ".join(f"a{q}" for q in range(len(types)))
        body.append(f"  {name}_callee({args});")
        for q, t in enumerate(types):
            kind, grp, rid, off, ind = locs[q]
            if abi == "vectorcall64" and kind == "stack":
                off -= 32     # clang on a non-Windows x86-64 target keeps the positional 8-byte slots but omits the 32-byte home area
            body.append(f'  expect("{sig}", {q}, {sizes[q]}, {0 if kind == "reg" else 1}, {0 if grp == "gp" else 1}, {rid}, {off}, {1 if ind else 0});')
        body.append("}")
        out.append("\n".join(body))
        calls.append(f"  {name}();")
    out.append("int main(void) {\n" + "\n".join(calls) + '\n  printf("CHECKED %d MISMATCHES %d\\n", total, bad);\n  return bad ? 1 : 0;\n}\n')
    return "\n".join(out), n


def run(exps, workdir, log):
    """Returns dict compiler -> (signatures, checked, mismatches, mismatch lines)."""
    res = {}
    for compiler, exe in (("gcc", "gcc"), ("clang", "clang-14")):
        src, nsig = gen_c(exps, compiler)
        cpath = os.path.join(workdir, f"ccval_{compiler}.c")
        epath = os.path.join(workdir, f"ccval_{compiler}")
        open(cpath, "w").write(src)
        p = subprocess.run([exe, "-O0", "-w", "-mavx512f", "-o", epath, cpath], stdout=subprocess.PIPE, stderr=subprocess.STDOUT, text=True)
        if p.returncode != 0:
            res[compiler] = (nsig, 0, -1, ["COMPILE FAILED: " + p.stdout[-1500:]])
            continue
        r = subprocess.run([epath], stdout=subprocess.PIPE, stderr=subprocess.STDOUT, text=True, timeout=120)
        lines = r.stdout.splitlines()
        mism = [l for l in lines if l.startswith("MISMATCH")]
        chk = [l for l in lines if l.startswith("CHECKED")]
        checked = int(chk[0].split()[1]) if chk else 0
        res[compiler] = (nsig, checked, len(mism) if chk else -1, mism[:20] if chk else ["RUN FAILED rc=%s %s" % (r.returncode, r.stdout[-500:])])
        log(f"model validation vs {compiler}: {nsig} signatures, {checked} argument placements compared, {len(mism)} mismatches")
    return res


# ----------------------------------------------------------------------------------------------------------
# AArch64 (AAPCS64 and Apple): no runtime in the sandbox, but clang cross-compiles.  The caller side is compiled to
# assembly (-O1) and a small data-flow walk finds which global (= which argument) sits in which register / outgoing
# stack slot at the `bl`.
# ----------------------------------------------------------------------------------------------------------
XTYPE = {"i8": "signed char", "u16": "unsigned short", "i32": "int", "i64": "long long", "f32": "float", "f64": "double",
         "i32x2": "v2si", "f32x4": "v4sf"}
PROMOTED = {"i8", "u8", "i16", "u16", "f32"}     # changed by the default argument promotions -> not usable as variadic arguments
import re as _re


def _reg(tok):
    tok = tok.strip().rstrip(",")
    m = _re.fullmatch(r"([wx])(\d+)", tok)
    if m:
        return ("gp", int(m.group(2)), 4 if m.group(1) == "w" else 8)
    m = _re.fullmatch(r"([bhsdq])(\d+)", tok)
    if m:
        return ("vec", int(m.group(2)), {"b": 1, "h": 2, "s": 4, "d": 8, "q": 16}[m.group(1)])
    m = _re.fullmatch(r"v(\d+)\.\w+", tok)
    if m:
        return ("vec", int(m.group(1)), 16)
    return None


def _walk_a64(lines):
    """-> (register tags, stack tags) at the first bl."""
    tag, stack = {}, {}
    for ln in lines:
        ln = ln.split("//")[0].split(";")[0].strip()
        if not ln or ln.endswith(":") or ln.startswith("."):
            continue
        parts = ln.split(None, 1)
        op, rest = parts[0], (parts[1] if len(parts) > 1 else "")
        if op == "bl":
            return tag, stack
        ops = [o.strip() for o in _re.split(r",\s*(?![^\[]*\])", rest)]
        m = _re.search(r"\[(\w+)(?:,\s*#?(-?\w+))?\](!?)", rest)
        sym = _re.search(r"(?::lo12:|\b_)(g\d+_\d+)", rest)
        if op.startswith("ldr") or op.startswith("ldur"):
            r = _reg(ops[0])
            if r:
                tag[r[:2]] = sym.group(1) if sym else None
            continue
        if op in ("str", "strb", "strh", "stur", "sturb", "sturh", "stp"):
            if m and m.group(1) == "sp" and not m.group(3):
                off = int(m.group(2)) if m.group(2) else 0
                r = _reg(ops[0])
                if r:
                    stack[off] = tag.get(r[:2])
                if op == "stp":
                    r2 = _reg(ops[1])
                    if r and r2:
                        stack[off + r[2]] = tag.get(r2[:2])
            continue
        d = _reg(ops[0]) if ops else None
        if d is None:
            continue
        if op in ("mov", "fmov", "sxtb", "sxth", "sxtw", "uxtb", "uxth", "and") and len(ops) >= 2 and _reg(ops[1]):
            tag[d[:2]] = tag.get(_reg(ops[1])[:2])
        else:
            tag[d[:2]] = None
    return tag, stack


def run_cross(exps, workdir, log):
    """exps: (abi, types, sizes, locs, va) for aapcs64 / apple64.  Returns (signatures, placements, mismatch lines)."""
    tot_sig = tot_pl = 0
    mism = []
    for abi, target in (("aapcs64", "aarch64-linux-gnu"), ("apple64", "arm64-apple-macos11")):
        todo = []
        for e in exps:
            if e[0] != abi or any(t not in XTYPE for t in e[1]) or not e[1]:
                continue
            va = e[4]
            if va != 255 and (va < 1 or any(t in PROMOTED for t in e[1][va:])):
                continue
            todo.append(e)
        src = ["typedef int v2si __attribute__((vector_size(8)));", "typedef float v4sf __attribute__((vector_size(16)));"]
        for n, (a, types, sizes, locs, va) in enumerate(todo):
            for q, t in enumerate(types):
                src.append(f"volatile {XTYPE[t]} g{n}_{q};")
            named = types if va == 255 else types[:va]
            proto = ", ".join(XTYPE[t] for t in named) + ("" if va == 255 else ", ...")
            src.append(f"void callee{n}({proto});")
            src.append(f"void caller{n}(void) {{ callee{n}({', '.join(f'g{n}_{q}' for q in range(len(types)))}); }}")
        cpath = os.path.join(workdir, f"ccval_{abi}.c")
        open(cpath, "w").write("\n".join(src) + "\n")
        p = subprocess.run(["clang-14", "-target", target, "-fno-pic", "-O1", "-w", "-S", "-o", "-", cpath], stdout=subprocess.PIPE, stderr=subprocess.PIPE, text=True)
        if p.returncode != 0:
            return 0, 0, [f"clang -target {target} failed: {p.stderr[-600:]}"]
        funcs, cur = {}, None
        for ln in p.stdout.splitlines():
            m = _re.match(r"_?caller(\d+):", ln)
            if m:
                cur = int(m.group(1))
                funcs[cur] = []
            elif cur is not None:
                funcs[cur].append(ln)
        for n, (a, types, sizes, locs, va) in enumerate(todo):
            tag, stack = _walk_a64(funcs.get(n, []))
            tot_sig += 1
            for q, (kind, grp, rid, off, ind) in enumerate(locs):
                got = tag.get((grp, rid)) if kind == "reg" else stack.get(off)
                tot_pl += 1
                if got != f"g{n}_{q}":
                    mism.append(f"MISMATCH {abi}:{','.join(types)} va={va} arg {q}: predicted {kind} {grp}{rid}@{off}, found {got}")
        log(f"model validation vs clang -target {target}: {len(todo)} signatures")
    return tot_sig, tot_pl, mism
