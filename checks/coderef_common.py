"""Shared driver for C03 (label references) and C04 (absolute references under relocation): both are decided by
trace validation of real assembler/holder executions against the contract spec/code/CodeRef.tla."""
import collections, json, os
import vlib

SPEC = os.path.join(vlib.VERIF, "spec", "code")
MOD, CFG = os.path.join(SPEC, "CodeRefTrace.tla"), os.path.join(SPEC, "CodeRefTrace.cfg")

PCREL = {"jmp", "jcc", "call", "jecxz", "loop", "riprel", "b26", "b19", "b14", "adr", "adrp"}
ABS = {"embedlabel", "abs32", "absjmp", "absmem", "embeddelta"}


def run(ctx, focus):
    q = ctx.quick
    if focus == "C03":
        # design level: the fixup bookkeeping model (chains, holder list, counter) on a tiny format
        m = os.path.join(SPEC, "CodeRefImpl.tla")
        cfg = ctx.path("impl.cfg")
        open(cfg, "w").write(open(os.path.join(SPEC, "CodeRefImplMC.cfg")).read().replace("MaxOps = 7", "MaxOps = %d" % (7 if q else 9)))
        r = vlib.run_tlc(ctx, m, cfg, workers=16, timeout=3000, heap="12g", tag="design")
        vlib.tlc_must_ok(ctx, r, "design (fixup bookkeeping)")
        ctx.log(f"design: {r.distinct} states; ChainShape / PatchedExact / ZeroIffNone / NeverTruncated hold")
        r = vlib.run_tlc(ctx, m, os.path.join(SPEC, "CodeRefImplNeg.cfg"), workers=8, timeout=900, tag="neg")
        if r.kind != "violation":
            raise vlib.Broken("negative control (fixup chained with a bound label) did not violate ChainShape")
        ctx.extra["design_states"] = ctx.states
    bdir = ctx.build("asan", "coderef")
    nprog, maxa = (1500, 40) if q else (20000, 60)
    shards = 6 if q else 12
    paths = []
    for k in range(shards):
        tr = ctx.path(f"trace_{k}.ndjson")
        args = ["random", tr, nprog // shards, maxa] + (["c04"] if focus == "C04" else [])
        vlib.record_trace(ctx, bdir, "coderef", args, tr, timeout=1800, env={"VERIF_SEED": ctx.seed * 100 + k + (50 if focus == "C04" else 0)})
        paths.append(tr)
    # validation of the shards in parallel JVMs
    import concurrent.futures
    stats = collections.Counter()
    nrec = 0

    def validate(item):
        k, path = item
        return k, vlib.validate_executions(ctx, MOD, CFG, path, tag=f"s{k}", timeout=2400, heap="4g")

    for path in paths:
        arch = "?"
        refs = {}
        for rec in vlib.read_ndjson(path):
            nrec += 1
            e = rec.get("e")
            if e == "Reset":
                arch = rec.get("arch", "?"); refs = {}
            elif e in ("Ref", "AbsRef"):
                stats[(arch, rec["kind"], "ok" if rec["r"] == "Ok" else "refused")] += 1
                if rec["r"] == "Ok":
                    ctx.distinct.add((arch, rec["kind"], rec["len"], rec.get("immsz", 0), rec["at"] % 64, rec.get("addend", 0)))
            elif e == "Relocate":
                stats[("relocate", "install" if rec.get("install") else "explicit", rec["r"])] += 1
            elif e == "AddrTab" and rec.get("present"):
                stats[("addrtab", "last" if rec["last"] else "not-last")] += 1
            elif e == "End":
                stats[("end", "unresolved>0" if rec["unres"] else "unresolved=0")] += 1
    with concurrent.futures.ThreadPoolExecutor(max_workers=shards) as ex:
        for k, rej in ex.map(validate, list(enumerate(paths))):
            for x in rej:
                bad = x["records"][x["index"]] if x["index"] < len(x["records"]) else {"e": "END-OF-TRACE"}
                ctx.violation(f"{focus}: trace rejected at event {x['index']}: {json.dumps(bad)[:300]} :: program starts {json.dumps(x['records'][0])[:120]}", x["path"])
    recs = vlib.read_ndjson(paths[0])
    ctx.add_sample({"events": recs[0:8]})
    ctx.evaluations = nrec
    ctx.extra["kind_counts"] = {"/".join(map(str, k)): v for k, v in sorted(stats.items(), key=str)}
    want = PCREL if focus == "C03" else {"embedlabel", "abs32", "absjmp", "absmem"}
    missing = [k for k in want if not any(key[1] == k and key[2] == "ok" for key in stats if len(key) == 3 and key[0] in ("x86", "x64", "a64"))]
    if missing:
        raise vlib.Broken(f"reference kinds never exercised successfully: {missing}")
    ctx.assumptions += ["the harness decodes nothing: raw site bytes are logged and CodeRef.tla reads the fields (x86 rel8/rel32/disp32, A64 imm26/imm19/imm14/ADR/ADRP)",
                        "distances beyond a real buffer (2 GiB, 128 MiB) are produced with virtual section sizes; 64-bit values travel as [hi,lo] base-2^20 pairs",
                        "ADRP: asmjit refuses targets whose page offset differs from the site's; such references may stay counted as unresolved",
                        "ASan/UBSan build is the environment; an abort truncates the trace"]
    vlib.write_evidence(ctx, "model_checking",
        rule="events = emitter/holder calls of random and limit-probing programs on x86-32/x86-64/AArch64 assemblers; distinct = distinct (arch, kind, length, trailing-imm, site alignment, addend) accepted references; every site's final bytes are read by the spec",
        trusted_base=["TLC 1.8.0", "spec/code/CodeRef.tla (+Wide20)", "harness/coderef.cpp (logs offsets/lengths/raw bytes; public API only)"])


def replay(ctx, path):
    ok, maxl, r = vlib.validate_trace_file(ctx, MOD, CFG, path)
    if not ok:
        ctx.violation(f"recorded trace rejected at line {maxl}", path)
