"""C16 - reset, reinit and reuse of holders and emitters leave no residue.

Decided by: (1) TLC explores the lifecycle machine spec/code/Lifecycle.tla (holders x emitters x programs, all calls incl.
the ones the API refuses) and checks its abstract invariants; every transition out of every distinct abstract state is
exported as a history (VIEW without the history variable), longer histories come from TLC simulation; (2) harness/
lifecycle.cpp executes each history on real CodeHolders / Assemblers / Builders / Compilers (x86-64 and AArch64) under the
configuration axes that must not matter (static vs dynamic arena memory, logger kind, validation, perturbed heap; ASan build
= environment for use-after-reset, plain build = real heap reuse) and logs the projection after every call plus the digest
of the generated output and of the same generate sequence on fresh objects; (3) LifecycleTrace.tla accepts a trace iff
every call is a step of the machine and ResultMatches / ProjectionMatches / ResetIsInit / ReinitIsFresh /
OutputIsFunctionOfCalls / HandlerIsCurrent hold after every step."""
import json, os, re, threading
import vlib
from vlib import Broken

SPEC = os.path.join(vlib.VERIF, "spec", "code")
MC = os.path.join(SPEC, "LifecycleMC.tla")
MOD_T = os.path.join(SPEC, "LifecycleTrace.tla")

KNAME = "new_section:name_bytes_after_name_uninitialised"
KJA = "compiler:jump_annotations_survive_detach_reinit"
KEH = "run_passes:inherited_error_handler_becomes_own"
KBASE = "reinit:base_address_of_relocate_to_base_survives"
MASKABLE = (KNAME, KJA, KEH, KBASE)

RANK = {"asm": 0, "builder": 1, "compiler": 2}
KINDS = {"KindsABC": ["asm", "builder", "compiler"], "KindsCCA": ["compiler", "compiler", "asm"],
         "KindsBCB": ["builder", "compiler", "builder"], "KindsAC": ["asm", "compiler"], "KindsC1": ["compiler"],
         "KindsBC": ["builder", "compiler"]}

# minimal histories that show the listed findings (re-executed at the end of a run when the key is listed)
REPRO = {
    KNAME: ({"arch": "x64", "static": 1, "logk": 1, "validate": 0, "perturb": 0, "kinds": ["asm"]},
            [["Init", 1], ["Attach", 1, 1], ["Gen", 1, 1]]),
    KJA: ({"arch": "x64", "static": 0, "logk": 1, "validate": 0, "perturb": 0, "kinds": ["compiler"]},
          [["Init", 1], ["Attach", 1, 1], ["Gen", 1, 5], ["Reinit", 1]]),
    KBASE: ({"arch": "x64", "static": 0, "logk": 1, "validate": 0, "perturb": 0, "base": 0, "kinds": ["asm"]},
            [["Init", 1], ["Attach", 1, 1], ["Gen", 1, 2], ["Seal", 1], ["Reinit", 1], ["Gen", 1, 2]]),
    KEH: ({"arch": "x64", "static": 0, "logk": 1, "validate": 0, "perturb": 0, "kinds": ["compiler"]},
          [["Init", 1], ["HEh", 1, 1], ["Attach", 1, 1], ["Gen", 1, 4], ["ResetH", 1, 0], ["Fail", 1]]),
}


def prank(p):
    return 0 if p <= 2 or p == 7 else 1 if p in (3, 8) else 2


def mc_cfg(nh, kinds, progs, ops, maxgen, errors, toggles, mortal, spec, checks):
    t = ", ".join('"%s"' % x for x in toggles)
    return (f"SPECIFICATION {spec}\nCONSTANTS\n  NH = {nh}\n  KindsC <- {kinds}\n  Progs = {{{', '.join(map(str, progs))}}}\n"
            f"  MaxOps = {ops}\n  MaxGen = {maxgen}\n  Errors = {'TRUE' if errors else 'FALSE'}\n  Toggles = {{{t}}}\n"
            f"  Mortal = {'TRUE' if mortal else 'FALSE'}\n{checks}\n")


DESIGN_CHECKS = "INVARIANT AbstractInv\nPROPERTIES ResetIsInitM ReinitIsFreshM\nVIEW View"


def trace_cfg(ctx, known):
    p = ctx.path("LifecycleTrace_%d.cfg" % len(known))
    k = ", ".join('"%s"' % x for x in sorted(known))
    open(p, "w").write("SPECIFICATION TSpec\nCONSTANTS\n  NH = 2\n  KindsC = 0\n  Progs = {}\n  MaxOps = 0\n  MaxGen = 0\n  Errors = FALSE\n"
                       "  Toggles = {}\n  Mortal = FALSE\n  Known = {%s}\n"
                       "INVARIANTS ResultMatches ProjectionMatches ResetIsInit ReinitIsFresh OutputIsFunctionOfCalls HandlerIsCurrent\n"
                       "CONSTRAINT Progress\nPOSTCONDITION TraceAccepted\n" % k)
    return p


def drop_prefixes(hists):
    """a history that is a proper prefix of another exported history adds nothing to a replay"""
    ss = sorted({json.dumps(h)[:-1] for h in hists})       # without the closing bracket: prefix <=> string prefix + ','
    keep = []
    for i, s in enumerate(ss):
        if i + 1 < len(ss) and ss[i + 1].startswith(s + ","):
            continue
        keep.append(json.loads(s + "]"))
    return keep


def ja_pattern(kinds, ops):
    """does the history create a jump annotation in a Compiler that still holds stale ones (crash pattern of KJA)"""
    dirty = [False] * len(kinds)
    for o in ops:
        if o[0] == "Gen" and o[2] in (5, 6):
            if dirty[o[1] - 1]:
                return True
            dirty[o[1] - 1] = True
        elif o[0] in ("Destroy", "Create"):
            dirty[o[1] - 1] = False
    return False


def ja_possible(kinds, ops):
    """after these calls, could the next (unlogged, aborted) call have been a Gen that hits the crash pattern of KJA"""
    dirty = [False] * len(kinds)
    for o in ops:
        if o[0] == "Gen" and o[2] in (5, 6):
            dirty[o[1] - 1] = True
        elif o[0] in ("Destroy", "Create"):
            dirty[o[1] - 1] = False
    return any(dirty)


def rec_to_op(r):
    e = r["e"]
    if e in ("Init", "Reinit", "Seal"):
        return [e, r["h"]]
    if e == "ResetH":
        return [e, r["h"], int(r["hard"])]
    if e in ("Attach", "Detach"):
        return [e, r["em"], r["h"]]
    if e in ("HLog", "HEh"):
        return [e, r["h"], int(r["on"])]
    if e in ("ELog", "EEh"):
        return [e, r["em"], int(r["on"])]
    if e == "Gen":
        return [e, r["em"], r["p"]]
    if e in ("End", "Reset", "ABORT", "END"):
        return [e]
    return [e, r["em"]]


def recs_to_script(recs):
    c = dict(recs[0]["cfg"])
    cfg = {"arch": c["arch"], "static": int(c["static"]), "logk": c["logk"], "validate": int(c["validate"]), "perturb": int(c["perturb"]),
           "base": int(c.get("base", 1)), "kinds": recs[0]["kinds"]}
    ops = [rec_to_op(r) for r in recs[1:] if r.get("e") not in ("End", "ABORT", "Reset")]
    return {"cfg": cfg, "ops": ops}


def classify(x, masked=()):
    """label a rejection (reporting only; the verdict is TLC's): (key, text).  A rejection that TLC raised although the
    mask of a listed finding was active cannot be that finding: it is never attributed to a masked key (only an abort
    can, and only when the history contains the crash pattern of that finding)."""
    key, text = classify0(x)
    recs, idx = x["records"], x["index"]
    aborted = idx >= len(recs) or recs[idx].get("e") == "ABORT"
    if key in masked and not aborted:
        bad = recs[idx]
        return f"projection:{bad.get('e')}", f"{x['inv']} rejected the state after {rec_to_op(bad)} although the listed findings were excused: " \
            f"H={json.dumps(bad.get('H'))[:300]} E={json.dumps(bad.get('E'))[:600]} fresh={json.dumps(recs[0].get('fe'))}; " + text[-600:]
    return key, text


def classify0(x):
    recs, idx, inv = x["records"], x["index"], x["inv"]
    if not recs or recs[0].get("e") != "Reset":
        why = recs[0].get("why") if recs else "empty trace"
        return "abort:before_first_call", f"the run aborted while creating / measuring fresh objects, before the first call of the history ({why})"
    bad = recs[idx] if idx < len(recs) else {"e": "END"}
    hist = [rec_to_op(r) for r in recs[1:idx + 1] if r.get("e") not in ("End", "ABORT", "Reset")]
    kinds = recs[0].get("kinds", [])
    cfg = recs[0].get("cfg", {})
    where = f"cfg={json.dumps(cfg)} kinds={kinds} history={json.dumps(hist)}"
    if bad.get("e") == "ABORT" or idx >= len(recs):
        script = recs_to_script(recs)
        if ja_pattern(kinds, script["ops"]) or ja_possible(kinds, script["ops"]):
            return KJA, f"run aborted ({bad.get('why', 'truncated trace')}) after a Compiler created a jump annotation while holding stale ones; {where}"
        return "abort:" + re.sub(r"[^A-Za-z0-9]+", "_", str(bad.get("why", "truncated")))[:60], f"run aborted: {bad.get('why')}; {where}"
    jit = not cfg.get("base", True)
    sealed_before = any(o[0] == "Seal" for o in hist)
    if jit and sealed_before and bad.get("e") != "ResetH":
        fh = recs[0].get("fh", [[], []])
        for hh in bad.get("H", []):
            if hh.get("init") and len(hh.get("cnt", [])) > 8 and hh["cnt"][8] == 1 and fh[1][8] == 0 and (inv != "OutputIsFunctionOfCalls" or not bad.get("diff", "").startswith("sections line 1")):
                return KBASE, f"after {rec_to_op(bad)} the holder has_base_address()=true (set by the earlier relocate_to_base) although a freshly initialised holder has none" \
                    f"{' - output differs: ' + bad.get('diff', '')[:300] if bad.get('diff') else ''}; {where}"
    if inv == "OutputIsFunctionOfCalls":
        d, f = bad.get("dig", []), bad.get("fresh", [])
        if len(d) == 6 and d[1:] == f[1:] and d[0] != f[0]:
            return KNAME, f"{bad['e']} seq={bad.get('seq')}: only the section NAME bytes differ from the fresh run: {bad.get('diff', '')[:260]}; {where}"
        if d[:5] == f[:5] and x.get("definer"):
            dd = next((r for r in x["definer"] if r.get("e") in ("Gen", "Seal") and r.get("seq") == bad.get("seq")), {})
            names = ["sections", "labels", "relocs", "addrtab", "image"]
            comps = [names[i] for i in range(5) if dd.get("dig", [None] * 5)[i] != d[i]]
            return f"config:{'+'.join(comps)}:" + "+".join(f"{k}{p}" for k, p in bad.get("seq", [])), \
                f"{bad['e']} seq={bad.get('seq')}: the {'/'.join(comps)} digest equals the fresh run of this process but differs from the execution of the same calls " \
                f"under cfg={json.dumps(x['definer'][0].get('cfg'))} (output depends on the configuration); {where}"
        comp = (bad.get("diff", "?").split(" ") or ["?"])[0]
        return f"digest:{comp}:" + "+".join(f"{k}{p}" for k, p in bad.get("seq", [])), \
            f"{bad['e']} seq={bad.get('seq')} r={bad.get('r')}/{bad.get('fr')}: {bad.get('diff', 'digest differs from an earlier execution of the same calls')[:400]}; {where}"
    if inv in ("ProjectionMatches", "ResetIsInit", "ReinitIsFresh"):
        fe = recs[0].get("fe")
        for i, e in enumerate(bad.get("E", [])):
            if e.get("alive") and kinds[i] == "compiler" and len(e["priv"]) > 7 and e["priv"][7] != 0 and (e["code"] == 0 or bad["e"] == "Reinit"):
                return KJA, f"after {rec_to_op(bad)} Compiler #{i+1} still lists {e['priv'][7]} jump annotation(s) (fresh: 0); {where}"
        own = [False] * len(kinds)             # what set_error_handler() calls on the emitter itself imply
        for o in hist:
            if o[0] == "EEh":
                own[o[1] - 1] = bool(o[2])
            elif o[0] in ("Destroy", "Create"):
                own[o[1] - 1] = False
        for i, e in enumerate(bad.get("E", [])):
            if e.get("alive") and e.get("owneh") and not own[i] and kinds[i] == "compiler":
                return KEH, f"after {rec_to_op(bad)} emitter #{i+1} ({kinds[i]}) reports has_own_error_handler()=true, handler id {e['eh']}, but the last set_error_handler() on the emitter itself (if any) cleared it - run_passes() made the inherited handler its own; {where}"
        return f"projection:{bad.get('e')}", f"{inv} rejected the projection after {rec_to_op(bad)}: H={json.dumps(bad.get('H'))[:300]} E={json.dumps(bad.get('E'))[:500]}; {where}"
    return f"{inv}:{bad.get('e')}", f"{inv} after {json.dumps(bad)[:400]}; {where}"


def thin(hs, cap):
    """deterministic stride sample when an export is larger than the tier's budget"""
    if cap is None or len(hs) <= cap:
        return hs
    step = len(hs) / float(cap)
    return [hs[int(i * step)] for i in range(cap)]


def export_histories(ctx, name, spec_args, simulate=None, cap=None):
    nh, kinds, progs, ops, maxgen, errors, toggles, mortal = spec_args
    cfg = ctx.path(f"exp_{name}.cfg")
    if simulate:
        open(cfg, "w").write(mc_cfg(nh, kinds, progs, ops, maxgen, errors, toggles, mortal, "XSpec", "INVARIANT ExportLeaf"))
        r = vlib.run_tlc(ctx, MC, cfg, workers=2, timeout=900, tag=f"sim_{name}", simulate=max(1, simulate // 2), depth=ops + 1, seed=ctx.seed)
    else:
        open(cfg, "w").write(mc_cfg(nh, kinds, progs, ops, maxgen, errors, toggles, mortal, "XSpecP", "INVARIANT AbstractInv\nVIEW View"))
        r = vlib.run_tlc(ctx, MC, cfg, workers=1, timeout=1500, tag=f"exp_{name}", heap="6g")
    if r.kind != "ok":
        raise Broken(f"behaviour export {name} failed: kind={r.kind}\n" + r.out[-1200:])
    if not simulate:
        ctx.states += r.distinct
        ctx.transitions += r.generated
    hs = drop_prefixes(vlib.parse_beh(r.out))
    n0 = len(hs)
    hs = thin(hs, cap)
    ctx.log(f"export {name}: {r.generated} transitions / {r.distinct} abstract states -> {n0} maximal histories, {len(hs)} replayed")
    return [(KINDS[kinds], h) for h in hs]


def axes(i, jit_base=True):
    """configuration axes that must not matter, spread deterministically over the histories.  base = 0: JIT style
    init(env) - the base address is only known to relocate_to_base(); base = 1: init(env, base)"""
    return {"arch": "a64" if i % 3 == 2 else "x64", "static": STATIC_SIZES[(i // 2) % len(STATIC_SIZES)], "logk": 1 + i % 2, "validate": (i // 3) % 2,
            "perturb": (i // 5) % 2, "base": 0 if jit_base and i % 4 == 1 else 1}


# bytes of user-supplied (static) arena memory of the CodeHolders: none, tiny ones that every program spills out of into
# heap blocks, one that only the large programs spill out of, one that nothing spills out of
STATIC_SIZES = [0, 256, 24576, 1024, 0, 4096]


def static_twin(sz):
    return STATIC_SIZES[(STATIC_SIZES.index(sz) + 3) % len(STATIC_SIZES)]


def validate_shards(ctx, tcfg, traces, tag, nshards, timeout):
    """split executions over shards (an execution and its twin under another configuration stay together), validate in
    parallel JVMs.  Returns the list of rejections."""
    execs = []
    for p in traces:
        execs += vlib.split_executions(vlib.read_ndjson(p))
    if not execs:
        return [], 0
    shards = [[] for _ in range(max(1, min(nshards, len(execs) // 8 + 1)))]
    for i, e in enumerate(execs):
        shards[(i // 2) % len(shards)].append(e)
    rej, errs = [], []

    def work(k):
        try:
            p = ctx.path(f"{tag}_shard{k}.ndjson")
            vlib.write_ndjson(p, [r for e in shards[k] for r in e])
            # confirm=False: a rejection may depend on an EARLIER execution of the shard (ghost `expected`: same calls, other
            # configuration), so it need not repeat in isolation; TLC is deterministic on the same file
            rr = vlib.validate_executions(ctx, MOD_T, tcfg, p, tag=f"{tag}{k}", timeout=timeout, heap="3g", max_rejects=2, confirm=False)
            for x in rr:
                bad = x["records"][x["index"]] if x["index"] < len(x["records"]) else {}
                if x["inv"] == "OutputIsFunctionOfCalls" and bad.get("dig") and bad["dig"][:5] == bad.get("fresh", [])[:5]:
                    # differs only from what an earlier execution logged for the same calls: keep that execution for the replay
                    key = (x["records"][0]["cfg"]["arch"], x["records"][0]["cfg"].get("base"), json.dumps(bad.get("seq")))
                    for e in shards[k]:
                        if e is x["records"] or e == x["records"]:
                            break
                        if e and e[0].get("e") == "Reset" and (e[0]["cfg"]["arch"], e[0]["cfg"].get("base")) == key[:2] and \
                                any(r.get("e") in ("Gen", "Seal") and json.dumps(r.get("seq")) == key[2] for r in e):
                            x["definer"] = e
                            break
            rej.extend(rr)
        except Exception as ex:  # noqa
            errs.append(ex)
    th = [threading.Thread(target=work, args=(k,)) for k in range(len(shards))]
    for t in th:
        t.start()
    for t in th:
        t.join()
    if errs:
        raise errs[0] if isinstance(errs[0], Broken) else Broken(repr(errs[0]))
    return rej, sum(len(e) for e in execs)


def keep(ctx, name, recs):
    """violation files live outside out/C16 (which every run, including --replay, wipes)"""
    d = ctx.out.rstrip("/") + "_violations"
    os.makedirs(d, exist_ok=True)
    p = os.path.join(d, name)
    vlib.write_ndjson(p, recs)
    return p


def run(ctx):
    q = ctx.quick
    known = {k for k in ctx.known if k in MASKABLE}
    basan = ctx.build("asan", "lifecycle")
    bplain = ctx.build("plain", "lifecycle")

    # ---- 1. design: abstract invariants + Reset/Reinit statements on the machine itself ----
    T4 = ["HLog", "HEh", "ELog", "EEh"]
    cfg = ctx.path("design.cfg")
    open(cfg, "w").write(mc_cfg(2, "KindsABC", [1, 7, 8], 7 if q else 8, 2, False, T4, True, "XSpec", DESIGN_CHECKS))
    r = vlib.run_tlc(ctx, MC, cfg, workers=8, timeout=2400, heap="8g", tag="design")
    vlib.tlc_must_ok(ctx, r, "design (Lifecycle abstract invariants)")
    ctx.log(f"design: {r.distinct} abstract states / {r.generated} transitions, depth {r.depth}: AbstractInv, ResetIsInitM, ReinitIsFreshM hold")
    cfg = ctx.path("design_err.cfg")
    open(cfg, "w").write(mc_cfg(2, "KindsABC", [1, 3], 6 if q else 7, 1, True, T4, True, "XSpec", DESIGN_CHECKS))
    r = vlib.run_tlc(ctx, MC, cfg, workers=8, timeout=2400, heap="8g", tag="design_err")
    vlib.tlc_must_ok(ctx, r, "design with refused calls")
    ctx.extra["design_states"] = ctx.states

    # ---- 2. histories: transition coverage of focused alphabets + simulated long ones ----
    hs = []
    if q:
        plan = [("core", (1, "KindsABC", [1, 3, 5], 7, 2, False, [], False)),
                ("core7", (1, "KindsABC", [1, 7, 8], 7, 2, False, [], False)),       # emitter left in a user section / unfinished emission
                ("sec", (1, "KindsABC", [2, 7], 8, 2, False, [], False)),
                ("open", (1, "KindsBC", [3, 4, 8], 7, 2, False, [], True)),
                ("abandon", (1, "KindsC1", [4, 8, 9], 8, 2, False, [], False)),       # cancelled compilations (local + global const pools pending)
                ("links", (2, "KindsABC", [1], 4, 1, True, T4, True)),
                ("comp", (1, "KindsC1", [4, 5, 6], 8, 2, False, ["HEh"], False)),
                ("two", (2, "KindsAC", [2, 6], 6, 2, False, ["HLog"], True))]
        sims = [("simA", (2, "KindsABC", [1, 2, 3, 4, 5, 6, 7, 8, 9], 16, 3, True, T4, True), 200),
                ("simB", (2, "KindsCCA", [2, 4, 5, 6, 7, 8, 9], 14, 2, False, ["HEh", "ELog"], True), 150)]
        arena = ("arena", (1, "KindsAC", [1, 6], 7, 2, False, [], False))
    else:
        plan = [("core", (1, "KindsABC", [1, 3, 5], 9, 2, False, [], False)),
                ("core7", (1, "KindsABC", [1, 7, 8], 8, 2, False, [], False)),
                ("sec", (1, "KindsABC", [2, 7], 9, 2, False, [], True)),
                ("open", (1, "KindsBC", [3, 4, 8, 9], 8, 2, False, ["HEh"], True)),
                ("abandon", (1, "KindsC1", [4, 5, 8, 9], 10, 3, False, [], True)),
                ("core2", (1, "KindsBC", [2, 3, 4, 6], 8, 2, False, ["HLog"], False)),
                ("links", (2, "KindsABC", [1, 7], 5, 1, True, T4, True)),
                ("comp", (1, "KindsC1", [4, 5, 6, 8], 10, 3, False, ["HEh"], True)),
                ("two", (2, "KindsAC", [2, 6, 7], 7, 2, False, ["HLog"], True)),
                ("cca", (2, "KindsCCA", [1, 5], 6, 2, False, [], False))]
        sims = [("simA", (2, "KindsABC", [1, 2, 3, 4, 5, 6, 7, 8, 9], 24, 3, True, T4, True), 1500),
                ("simB", (2, "KindsCCA", [2, 4, 5, 6, 7, 8, 9], 20, 3, False, ["HEh", "ELog"], True), 800),
                ("simC", (2, "KindsBCB", [1, 3, 5, 6, 7, 8, 9], 20, 3, True, ["HLog", "EEh"], True), 800)]
        arena = ("arena", (1, "KindsAC", [1, 6], 8, 2, False, [], False))
    caps = {"core": 700, "core7": 1200, "sec": 900, "open": 600, "abandon": 700, "links": 600, "comp": 400, "two": 500} if q else \
        {"core": 6000, "core7": 5000, "sec": 4000, "open": 3500, "abandon": 4000, "core2": 4000, "links": 6000, "comp": 3500, "two": 3000, "cca": 3000}
    for name, args in plan:
        hs += export_histories(ctx, name, args, cap=caps.get(name))
    for name, args, n in sims:
        hs += export_histories(ctx, name, args, simulate=n, cap=n)
    if KJA in known:
        n0 = len(hs)
        hs = [(k, h) for k, h in hs if not ja_pattern(k, h)]
        ctx.log(f"known finding {KJA}: {n0 - len(hs)} histories that create a jump annotation in a Compiler holding stale ones are not replayed (they crash)")
    # static arena memory x {soft, hard} reset x reinit x programs on both sides of the static block: every exported history
    # that recycles a holder after a generate runs under EVERY static size (ASan leg) and with heap perturbation (plain leg)
    ah = [(k, h) for k, h in export_histories(ctx, arena[0], arena[1])
          if any(o[0] in ("ResetH", "Reinit") and any(p[0] == "Gen" for p in h[:j]) for j, o in enumerate(h))]
    ah = thin(ah, 500 if q else 4000)
    scripts_asan, scripts_plain = [], []
    for j, (kinds, h) in enumerate(ah):
        for sz in (256, 1024, 4096, 24576):
            a = dict(axes(j, jit_base=False), static=sz, arch="x64" if (j + sz // 256) % 2 else "a64")
            scripts_asan.append({"cfg": dict(a, kinds=kinds, perturb=0), "ops": h})
            if sz in (256, 4096):
                scripts_plain.append({"cfg": dict(a, kinds=kinds, static=0, perturb=0), "ops": h})
                scripts_plain.append({"cfg": dict(a, kinds=kinds, perturb=1), "ops": h})
    ctx.log(f"arena family: {len(ah)} recycling histories x 4 static sizes -> {len(scripts_asan)} ASan + {len(scripts_plain)} plain executions")
    for i, (kinds, h) in enumerate(hs):
        a = axes(i, jit_base=KBASE not in known)
        scripts_asan.append({"cfg": dict(a, kinds=kinds), "ops": h})
        # twin under the complementary configuration (same shard => the ghost `expected` compares them)
        b = dict(a, static=static_twin(a["static"]), logk=3 - a["logk"], validate=1 - a["validate"], perturb=1)
        if not q or i % 2 == 0:
            scripts_plain.append({"cfg": dict(a, kinds=kinds, perturb=0), "ops": h})
            scripts_plain.append({"cfg": dict(b, kinds=kinds), "ops": h})
    ctx.log(f"{len(hs)} model histories -> {len(scripts_asan)} ASan executions + {len(scripts_plain)} plain-build executions (config twins)")

    # ---- 3. executions: script chunks and long random histories (10^3 actions) of both builds run as parallel processes ----
    renv = {"VERIF_SEED": ctx.seed}
    if KJA in known:
        renv["LC_AVOID_JA"] = "1"
    if KBASE in known:
        renv["LC_FIXED_BASE"] = "1"
        ctx.log(f"known finding {KBASE}: the JIT-style configuration (init without base address) is only exercised by the finding's own history")
    nexec, nact = (3, 1000) if q else (24, 1000)
    jobs, traces = [], []

    def chunks(tag, bdir, scripts, k):
        n = (len(scripts) + k - 1) // k
        n += n % 2                                   # twins (adjacent executions) stay in one chunk
        paths = []
        for c in range(k):
            part = scripts[c * n:(c + 1) * n]
            if not part:
                continue
            sp_, tp_ = ctx.path(f"{tag}_{c}.ndjson"), ctx.path(f"trace_{tag}_{c}.ndjson")
            vlib.write_ndjson(sp_, part)
            jobs.append((bdir, ["script", sp_, tp_], tp_, {"VERIF_SEED": ctx.seed + c}))
            paths.append(tp_)
        traces.append((tag, paths))
    chunks("scripts_asan", basan, scripts_asan, 3 if q else 6)
    chunks("scripts_plain", bplain, scripts_plain, 2)
    tr1, tr2 = ctx.path("trace_random_asan.ndjson"), ctx.path("trace_random_plain.ndjson")
    jobs.append((basan, ["random", tr1, nexec, nact], tr1, renv))
    jobs.append((bplain, ["random", tr2, nexec * 2, nact], tr2, dict(renv, VERIF_SEED=ctx.seed + 7)))
    traces.append(("random", [tr1, tr2]))
    errs = []

    def runjob(job):
        try:
            vlib.record_trace(ctx, job[0], "lifecycle", job[1], job[2], timeout=2400, env=job[3])
        except Exception as ex:  # noqa
            errs.append(ex)
    th = [threading.Thread(target=runjob, args=(jb,)) for jb in jobs]
    for t in th:
        t.start()
    for t in th:
        t.join()
    if errs:
        raise Broken(repr(errs[0]))
    ctx.log(f"{len(jobs)} harness processes finished")

    # ---- 4. trace validation ----
    tcfg = trace_cfg(ctx, known)
    nrec = 0
    seen = set()
    notes = {"dirty": 0}
    for tag, paths in traces:
        for p in paths:
            for rec in vlib.read_ndjson(p):
                if rec.get("e") in ("Detach", "Reinit", "ResetH", "End"):
                    for e_ in rec.get("E", []):
                        pv = e_.get("priv", [])
                        if e_.get("alive") and len(pv) in (10, 14) and pv[5 if len(pv) == 10 else 9] == 1:
                            notes["dirty"] += 1
                if rec.get("e") in ("Gen", "Seal"):
                    ctx.distinct.add((tag.split("_")[0], json.dumps(rec.get("seq")), rec["dig"][4] if rec["e"] == "Seal" else rec["dig"][0]))
                    if len(ctx.samples) < 3 and rec["e"] == "Seal" and json.dumps(rec["seq"]) not in seen:
                        seen.add(json.dumps(rec["seq"]))
                        ctx.add_sample({"source": tag, "event": {k: rec[k] for k in ("e", "h", "seq", "dig", "fresh", "r", "fr", "size") if k in rec}})
        rej, n = validate_shards(ctx, tcfg, paths, tag, 10 if q else 12, 3000)
        nrec += n
        reported = set()
        for x in rej:
            key, text = classify(x, known)
            if key in ctx.known:
                ctx.known_finding(key, ctx.known[key])
                continue
            if key in reported:
                continue
            reported.add(key)
            rp = keep(ctx, f"violation_{tag}_{len(ctx.violations)}.ndjson", (x.get("definer") or []) + x["records"])
            ctx.violation(f"[{x['inv'] or 'trace rejected'}] suggested key={key}: {text}", rp)
    ctx.evaluations = nrec
    if notes["dirty"]:
        ctx.log(f"note (not judged): {notes['dirty']} recycled Builder/Compiler states still report has_dirty_section_links()=true "
                "(BaseBuilder_clear_all does not reset _dirty_section_links; it only schedules an idempotent update_section_links())")
        ctx.extra["informational_dirty_section_links_after_recycling"] = notes["dirty"]

    # ---- 5. listed findings: re-execute each one alone, unmasked ----
    tcfg0 = trace_cfg(ctx, set())
    for key in sorted(known):
        c, ops = REPRO[key]
        s, t = ctx.path(f"known_{MASKABLE.index(key)}.ndjson"), ctx.path(f"known_{MASKABLE.index(key)}_trace.ndjson")
        vlib.write_ndjson(s, [{"cfg": c, "ops": ops}])
        vlib.record_trace(ctx, basan, "lifecycle", ["script", s, t], t, timeout=300)
        ok, maxl, r = vlib.validate_trace_file(ctx, MOD_T, tcfg0, t, tag=f"known{MASKABLE.index(key)}")
        if not ok:
            ctx.known_finding(key, ctx.known[key])
        else:
            ctx.log(f"listed finding {key} no longer reproduces on this tree (its KNOWN_FINDINGS line can be turned into 'fixed:')")

    ctx.assumptions += [
        "projection = what the API exposes (is_initialized, section/label/reloc/fixup/address-table counts, attached list walked in both directions, "
        "code pointer, effective logger/handler identity, sizes of Builder/Compiler private containers); addresses, capacities and arena statistics are never compared",
        "where the machine says 'nothing generated since (re)init/attach' the projection must equal the one the harness measured on fresh objects in the same process",
        "fresh run = new CodeHolder (dynamic arena) + a new emitter per program, no logger, no validation; init(env, base) with one fixed base address everywhere, "
        "flatten/relocate_to_base once per content (Seal), as documented",
        "Builder/Compiler are finalized at most once between attach/reinit (finalize serialises all nodes); two Assemblers are never attached to one holder",
        "heap perturbation = interleaved garbage-filled malloc/free of arena-block-like sizes (plain build); static arena memory is pre-filled with 0xA5",
        "ASan/UBSan build is the environment for 'no memory of the earlier use is referenced'; an abort truncates the trace and the ABORT line is rejected; "
        "soft arena resets recycle blocks inside live arenas, which ASan cannot see - there only the digest comparison can notice a stale reference"]
    vlib.write_evidence(ctx, "model_checking",
        rule="events = lifecycle calls executed on real objects and judged by LifecycleTrace.tla; distinct = distinct (source, generate sequence, digest) outcomes; "
             "histories = every transition of every distinct abstract state of the focused alphabets (listed in checks/c16.py) + TLC-simulated long histories, "
             "each under >= 2 configurations, + seeded random 1000-action histories; states/transitions = TLC's own counts of the design and export runs plus validation runs",
        trusted_base=["TLC 1.8.0", "spec/code/Lifecycle.tla + LifecycleTrace.tla", "harness/lifecycle.cpp (projection, digest, program generators, fresh-object runs)"],
        extra={"known_masks_active": sorted(known)})


def replay(ctx, path):
    """re-execute the recorded history on the current tree (both builds) and validate unmasked except for listed findings"""
    recs = vlib.read_ndjson(path)
    scripts = [recs_to_script(e) for e in vlib.split_executions(recs) if e and e[0].get("e") == "Reset"]
    known = {k for k in ctx.known if k in MASKABLE}
    tcfg = trace_cfg(ctx, known)
    for fl in ("asan", "plain"):
        b = ctx.build(fl, "lifecycle")
        s, t = ctx.path(f"replay_{fl}.ndjson"), ctx.path(f"replay_{fl}_trace.ndjson")
        vlib.write_ndjson(s, scripts)
        vlib.record_trace(ctx, b, "lifecycle", ["script", s, t], t, timeout=600)
        rej = vlib.validate_executions(ctx, MOD_T, tcfg, t, tag=f"replay_{fl}", confirm=False)
        for x in rej:
            key, text = classify(x, known)
            if key in ctx.known:
                ctx.known_finding(key, ctx.known[key])
            else:
                ctx.violation(f"[{fl}] [{x['inv']}] suggested key={key}: {text}", keep(ctx, f"replay_{fl}_{len(ctx.violations)}.ndjson", x["records"]))
