"""X07 - UniCompiler (asmjit/ujit): every universal operation computes its documented function on every back-end code path.

Decided by TLC on
  spec/ujit/UniOps.tla      reference semantics: one operator per enumerator of uniop.h / constructor of unicondition.h
                            (doc comment quoted above it), vectors as byte sequences, IEEE-754 by field arithmetic;
  spec/ujit/UniOpsMC.tla    the reference semantics checked against itself (algebraic laws + a negative control);
  spec/ujit/UniLife*.tla    life cycle of a UniCompiler object: contract (UniLife), design model of the lazy constant
                            materialisation with two negative controls (UniLifeMC), trace validation (UniLifeTrace);
bound to the code by
  (P) pointwise: harness/uniops.cpp JIT-compiles every op x operand form x vector width x CPU feature level through the real
      UniCompiler with RESTRICTED CpuFeatures, hashes the emitted instruction sequence (path coverage), asks
      InstAPI::query_features for every emitted instruction (feature containment), executes on boundary + random inputs and
      records (op, form, width, level, inputs, outputs); every record is an initial state of UniOpsObs.tla;
  (T)+(R) life-cycle scripts (exhaustive small ones written here + behaviours exported by TLC from UniLifeMC) are executed
      by the harness; the recorded API history + node-list projection is validated against UniLife.tla and the values the
      generated functions compute are judged pointwise like all others;
  static: harness/uniops_a64.cpp builds every op with the AArch64 UniCompiler and a64::Compiler up to finalize() (nothing is
      executed: the AArch64 back-end is NOT covered semantically).
"""
import collections, concurrent.futures, fnmatch, json, os, re, subprocess, threading, time
import vlib
from vlib import Broken
import x07gen

SPEC = os.path.join(vlib.VERIF, "spec", "ujit")
OBS_MOD, OBS_CFG = os.path.join(SPEC, "UniOpsObs.tla"), os.path.join(SPEC, "UniOpsObs.cfg")
PARTS = ["vv", "vvi", "vvv", "vvvi", "vvvv", "gp", "cond", "mem", "misc", "consts"]
_lock = threading.Lock()


# ----------------------------------------------------------------------------------------------------------------
# signatures of rejected records (KNOWN_FINDINGS keys; a key in the file may be an fnmatch pattern)
# ----------------------------------------------------------------------------------------------------------------
def key_of(o, clause):
    k = o["k"]
    if k.startswith("a64"):
        return f"{k}:{o['op']}:{clause}:{o['form']}"
    if k == "oparr":
        return f"oparr:{o['op']}:{clause}:n{o['n']}:a{o['arg']}"
    size = f"sz{o['sz']}" if o.get("sz") else f"w{o['w']}"
    s = f"{k}:{o['op']}:{clause}:{o['form']}:{size}:{o['lvl']}"
    if k == "cond":
        s += ":" + o.get("cc", "")
    if k in ("vvi", "vvvi") or (k in ("rrr", "cond") and o.get("imm", -1) != -1) or "bi" in o.get("form", "").split(","):
        s += f":i{o.get('imm', -1)}"
    if o.get("idx", -1) != -1:
        s += f":x{o['idx']}"
    v = o.get("var", "")
    if "noval" in v:
        s += ":noval"
    if o.get("tag"):
        s += ":" + o["tag"]
    if clause == "feature":
        s += ":" + "+".join(o.get("need", []))
    return s


def known_match(ctx, key):
    for pat, txt in ctx.known.items():
        if pat == key or fnmatch.fnmatchcase(key, pat):
            return pat, txt
    return None, None


def describe(o):
    d = {k: v for k, v in o.items() if k in ("k", "op", "form", "w", "lvl", "imm", "idx", "sz", "cc", "var", "ctor", "err", "need", "sig", "dir")}
    for k in ("a", "b", "c", "d0", "g", "m", "out", "aout", "res"):
        if k in o and isinstance(o[k], list):
            d[k] = bytes(o[k][:64]).hex() if all(isinstance(x, int) and 0 <= x < 256 for x in o[k]) else o[k]
    return json.dumps(d, separators=(",", ":"))[:700]


# ----------------------------------------------------------------------------------------------------------------
# pointwise TLC over shards
# ----------------------------------------------------------------------------------------------------------------
def tlc_pointwise(ctx, lines, tag, shards, workers=4, timeout=1700, heap="6g"):
    """lines: raw ndjson lines.  Returns (rejects [(obs, clause)], vacuous Counter[(k, op)])."""
    if not lines:
        return [], collections.Counter()
    shards = max(1, min(shards, (len(lines) + 2999) // 3000))
    parts = [lines[i::shards] for i in range(shards)]
    paths = []
    for i, p in enumerate(parts):
        path = ctx.path(f"{tag}_shard{i}.ndjson")
        with open(path, "w") as f:
            f.write("\n".join(p) + "\n")
        paths.append(path)

    def one(i):
        return i, vlib.run_tlc(ctx, OBS_MOD, OBS_CFG, workers=workers, timeout=timeout, env={"OBS": paths[i]}, heap=heap,
                               tag=f"{tag}{i}", extra=["-continue"])

    rejects, vac = [], collections.Counter()
    with concurrent.futures.ThreadPoolExecutor(max_workers=shards) as ex:
        for i, r in ex.map(one, range(shards)):
            if r.kind in ("timeout", "error") or "Finished computing initial states" not in r.out:
                raise Broken(f"TLC {tag} shard {i}: kind={r.kind} rc={r.rc}\n" + "\n".join(r.out.splitlines()[-25:]))
            if r.distinct != len(parts[i]):
                # identical records collapse into one state: count distinct lines
                if r.distinct != len(set(parts[i])):
                    raise Broken(f"TLC {tag} shard {i}: {r.distinct} observations evaluated, {len(parts[i])} expected")
            with _lock:
                ctx.states += r.distinct
                ctx.transitions += r.generated
            nviol = len(re.findall(r"Invariant Conforms is violated", r.out))
            rj = re.findall(r'<<"REJECT", (\d+), "([^"]*)">>', r.out)
            if nviol != len(rj):
                raise Broken(f"TLC {tag} shard {i}: {nviol} invariant violations but {len(rj)} REJECT lines")
            for ln, clause in rj:
                o = json.loads(parts[i][int(ln) - 1])
                if clause == "vacuous":
                    vac[(o["k"], o["op"])] += 1
                else:
                    rejects.append((o, clause))
    return rejects, vac


# ----------------------------------------------------------------------------------------------------------------
# life-cycle scripts
# ----------------------------------------------------------------------------------------------------------------
def life_scripts(ctx, levels, behs):
    """scripts for the harness: exhaustive small ones + behaviours exported by TLC from UniLifeMC."""
    scripts = []
    sid = [0]

    def add(lvl, steps):
        sid[0] += 1
        scripts.append({"id": sid[0], "lvl": lvl, "steps": steps})

    def width_of(lvl):
        return 2 if lvl.startswith("avx512") else 1 if lvl.startswith("avx2") else 0

    lv = [l for l in ("sse2", "sse41", "avx", "avx2", "avx512") if l in levels]
    # constants that need the table pointer (memory constants below AVX-512, register constants on AVX-512) and, on SSE2,
    # the zero register constant
    tbl_ops = ["kAbsF32", "kNegF32", "kAbsF64"]
    for lvl in lv:
        vw = width_of(lvl)
        for ctx1 in ("s", "t", "l"):
            for ctx2 in ("s", "t", "l"):
                for form in ("r", "m"):
                    add(lvl, [["vw", vw], ["func"], ["use", tbl_ops[0], form, ctx1, 0], ["use", tbl_ops[1], "r", ctx2, 1], ["use", tbl_ops[0], "r", "s", 2], ["end"]])
        add(lvl, [["vw", vw], ["func"], ["use", "kCmpLeU8", "r", "t", 0], ["use", "kCvtU8LoToU16", "r", "l", 1], ["use", "kCmpLeU8", "r", "s", 2], ["end"]])
        add(lvl, [["vw", 0], ["func"], ["use", "kAbsF32", "r", "t", 0], ["use", "kMinI8", "r", "s", 1], ["end"]])
        # two functions generated by the same UniCompiler
        add(lvl, [["vw", vw], ["func"], ["use", "kAbsF32", "r", "s", 0], ["end"], ["func"], ["use", "kAbsF32", "r", "t", 0], ["use", "kNegF32", "r", "s", 1], ["end"]])
        add(lvl, [["vw", vw], ["func"], ["end"], ["func"], ["use", "kAbsF64", "m", "l", 0], ["use", "kAbsF64", "r", "s", 1], ["end"]])
    # model behaviours
    for b in behs:
        for lvl in ("sse2", "avx512") if "avx512" in levels else ("sse2",):
            vw = width_of(lvl)
            steps, slot, k = [["vw", vw]], 0, 0
            for st in b:
                if st[0] == "func":
                    steps.append(["func"]); slot = 0
                elif st[0] == "end":
                    steps.append(["end"])
                else:
                    is_tbl = st[1].startswith("tbl")
                    if lvl == "sse2":
                        op, form = (tbl_ops[k % 3], "m" if k % 2 else "r") if is_tbl else ("kCvtU8LoToU16", "r")
                    else:
                        op, form = tbl_ops[k % 3], "r"
                    steps.append(["use", op, form, st[2], slot]); slot += 1; k += 1
            add(lvl, steps)
    return scripts


# ----------------------------------------------------------------------------------------------------------------
def run_harness_part(ctx, bdir, part, tier, seed, extra_env=None):
    outp = ctx.path(f"obs_{part}.ndjson")
    env = {"VERIF_SEED": seed}
    if extra_env:
        env.update(extra_env)
    rc, _, err = vlib.run_harness(ctx, bdir, "uniops", ["observe", part, outp, tier], timeout=1500, env=env)
    if rc != 0:
        raise Broken(f"harness uniops observe {part} failed rc={rc}: {err[-1500:]}")
    m = re.search(r"compiled=(\d+) variants=(\d+) records=(\d+)", err)
    return outp, (int(m.group(1)), int(m.group(2)), int(m.group(3))) if m else (0, 0, 0)


def classify(ctx, rejects, confirm):
    """group rejected records by signature, confirm one example per group by re-execution, report."""
    groups = collections.OrderedDict()
    for o, clause in rejects:
        if clause == "harness":
            raise Broken("malformed observation (precondition not established by the harness): " + describe(o))
        groups.setdefault(key_of(o, clause), []).append(o)
    os.makedirs(ctx.out + ".replay", exist_ok=True)
    nknown = collections.Counter()
    nconf = [0]
    for key, obs in groups.items():
        pat, txt = known_match(ctx, key)
        if pat:
            nknown[pat] += len(obs)
            continue
        safe = re.sub(r"[^A-Za-z0-9_.=-]", "_", key)[:150]
        rp = os.path.join(ctx.out + ".replay", f"reject_{safe}.ndjson")
        vlib.write_ndjson(rp, obs[:6])
        # second run: the rejection must repeat on re-execution (the first few unknown groups; each costs a harness run + a JVM)
        if confirm and nconf[0] < 8 and not os.environ.get("X07_NOCONFIRM"):
            nconf[0] += 1
            if not confirm(obs[0], key):
                raise Broken(f"rejection {key} did not repeat on re-execution")
        msg = f"{len(obs)} rejected record(s), e.g. {describe(obs[0])}"
        ctx.violation(f"{key}: {msg}", rp)
    for pat, n in nknown.items():
        ctx.known_finding(pat, ctx.known[pat] + f" [{n} records in this run]")
    ctx.extra["rejected_groups"] = len(groups)
    ctx.extra["rejected_groups_known"] = sum(1 for k in groups if known_match(ctx, k)[0])


def make_confirm(ctx, bdir, tier):
    """re-execute the case of a rejected record (same op / form / level / width, same seeds) and judge again"""
    def confirm(o, key):
        k = o["k"]
        if k.startswith("a64") or k in ("const", "skip") or o.get("form", "").startswith("life:"):
            return True     # deterministic static records / life records are re-run as a whole by the second life pass
        part = {"rr": "gp", "rrr": "gp", "cond": "cond", "m": "mem", "rm": "mem", "mr": "mem", "vm": "mem", "mv": "mem", "vr": "mem", "help": "misc"}.get(k, k)
        env = {"X07_OP": o["op"], "X07_LVL": o["lvl"]}
        if k in ("vv", "vvi", "vvv", "vvvi", "vvvv"):
            env.update({"X07_FORM": o["form"], "X07_W": {16: 0, 32: 1, 64: 2}[o["w"]]})
        if k in ("vm", "mv", "vr"):
            env.pop("X07_LVL")
            env["X07_LVL"] = o["lvl"]
        if k in ("rr", "rrr", "cond", "m", "rm", "mr", "help"):
            env.pop("X07_LVL")
        outp = ctx.path("confirm.ndjson")
        e2 = {"VERIF_SEED": ctx.seed}; e2.update(env)
        rc, _, err = vlib.run_harness(ctx, bdir, "uniops", ["observe", part, outp, tier], timeout=900, env=e2)
        if rc != 0:
            raise Broken(f"confirmation run failed rc={rc}: {err[-600:]}")
        lines = [l for l in open(outp).read().splitlines() if l]
        rj, _ = tlc_pointwise(ctx, lines, "confirm", 1, workers=2, timeout=600)
        return any(key_of(x, c) == key for x, c in rj)
    return confirm


def run(ctx):
    q = ctx.quick
    tier = "quick" if q else "thorough"
    import shutil
    shutil.rmtree(ctx.out + ".replay", ignore_errors=True)
    repo = os.environ.get("VERIF_REPO", "/repo")

    # 0. the specification covers every enumerator of uniop.h and quotes its doc comment verbatim
    problems, st = x07gen.check_spec_sync(repo, os.path.join(SPEC, "UniOps.tla"))
    if problems:
        raise Broken("spec/ujit/UniOps.tla is out of sync with asmjit/ujit/uniop.h:\n  " + "\n  ".join(problems[:12]))
    hdr = x07gen.names_header(x07gen.parse_uniop(os.path.join(repo, "asmjit", "ujit", "uniop.h")))
    if hdr != open(os.path.join(vlib.VERIF, "harness", "lib_uniops_names.h")).read():
        raise Broken("harness/lib_uniops_names.h is out of sync with uniop.h (python3 checks/x07gen.py names)")
    ctx.extra["spec_sync"] = st
    ctx.log(f"spec sync: {st['specified']} enumerators specified, {st['out_of_scope']} out of scope")

    bdir = ctx.build("plain", "uniops", "uniops_a64")

    # 1. design leg in the background: spec self-check + life-cycle model + negative controls
    design = {}

    def design_job():
        try:
            cfg = ctx.path("opsmc.cfg")
            open(cfg, "w").write(open(os.path.join(SPEC, "UniOpsMC.cfg")).read().replace("Dense = FALSE", "Dense = " + ("FALSE" if q else "TRUE")))
            design["ops"] = vlib.run_tlc(ctx, os.path.join(SPEC, "UniOpsMC.tla"), cfg, workers=4, timeout=2400, tag="opsmc")
            design["ops_neg"] = vlib.run_tlc(ctx, os.path.join(SPEC, "UniOpsMC.tla"), os.path.join(SPEC, "UniOpsMC_neg.cfg"), workers=2, timeout=600, tag="opsmc_neg")
            design["life"] = vlib.run_tlc(ctx, os.path.join(SPEC, "UniLifeMC.tla"), os.path.join(SPEC, "UniLifeMC.cfg"), workers=4, timeout=900, tag="lifemc", coverage=True)
            design["life_neg1"] = vlib.run_tlc(ctx, os.path.join(SPEC, "UniLifeMC.tla"), os.path.join(SPEC, "UniLifeMC_negInject.cfg"), workers=2, timeout=300, tag="lifemc_neg1")
            design["life_neg2"] = vlib.run_tlc(ctx, os.path.join(SPEC, "UniLifeMC.tla"), os.path.join(SPEC, "UniLifeMC_negReset.cfg"), workers=2, timeout=300, tag="lifemc_neg2")
        except Exception as e:      # reported by the main thread
            design["exc"] = e
    th = threading.Thread(target=design_job)
    th.start()

    # 2. behaviours of the life-cycle model -> scripts
    r = vlib.run_tlc(ctx, os.path.join(SPEC, "UniLifeMC.tla"), os.path.join(SPEC, "UniLifeMC_export.cfg"), workers=2, timeout=600, tag="lifeexp",
                     simulate=(40 if q else 400), depth=10, seed=ctx.seed)
    if r.kind != "ok":
        raise Broken("behaviour export of UniLifeMC failed: " + r.out[-800:])
    behs = [json.loads(s) for s in sorted({json.dumps(b) for b in vlib.parse_beh(r.out)})]

    # 3. observations of the real code (parts in parallel processes)
    files, stats = {}, {}
    with concurrent.futures.ThreadPoolExecutor(max_workers=6) as ex:
        futs = {p: ex.submit(run_harness_part, ctx, bdir, p, tier, ctx.seed) for p in PARTS}
        for p, f in futs.items():
            files[p], stats[p] = f.result()
    a64p = ctx.path("obs_a64.ndjson")
    rc, _, err = vlib.run_harness(ctx, bdir, "uniops_a64", ["observe", a64p], timeout=600)
    if rc != 0:
        raise Broken(f"harness uniops_a64 failed rc={rc}: {err[-800:]}")
    files["a64"] = a64p
    first = json.loads(open(files["vv"]).readline())
    levels = first["v"]
    scripts = life_scripts(ctx, levels, behs)
    sp, ltr, lobs = ctx.path("life_scripts.ndjson"), ctx.path("life_trace.ndjson"), ctx.path("obs_life.ndjson")
    vlib.write_ndjson(sp, scripts)
    rc, _, err = vlib.run_harness(ctx, bdir, "uniops", ["life", sp, ltr, lobs], timeout=900, env={"VERIF_SEED": ctx.seed})
    if rc != 0:
        raise Broken(f"harness uniops life failed rc={rc}: {err[-800:]}")
    files["life"] = lobs
    ctx.log(f"harness: {sum(s[0] for s in stats.values())} functions compiled, {sum(s[1] for s in stats.values())} distinct instruction-sequence variants, "
            f"{len(scripts)} life-cycle scripts ({len(behs)} exported by TLC), levels {levels}")

    # 4. TLC judges every record
    lines = []
    counts = {}
    for part, path in files.items():
        ls = [l for l in open(path).read().splitlines() if l and not l.startswith('{"t":"levels"')]
        counts[part] = len(ls)
        lines += ls
    if any('"e":"ABORT"' in l for l in lines[-3:]):
        raise Broken("harness aborted")
    t0 = time.time()
    rejects, vac = tlc_pointwise(ctx, lines, "obs", 6 if q else 8, workers=4)
    ctx.log(f"{len(lines)} records judged by TLC in {time.time() - t0:.0f}s: {len(rejects)} rejected, {sum(vac.values())} outside the specified domain")
    ctx.evaluations += len(lines)

    # 5. coverage accounting (from the records, measured)
    per_op_obs, per_op_var, hashes = collections.Counter(), collections.defaultdict(set), set()
    nfail = nfeat = 0
    for l in lines:
        o = json.loads(l)
        kop = (o["k"], o["op"])
        if o["t"] == "obs":
            per_op_obs[kop] += 1
            ctx.distinct.add((o["k"], o["op"], o["form"], o["w"], o["lvl"], o.get("imm"), o.get("idx"), o.get("sz"), o.get("cc"), o.get("hash")))
        elif o["t"] == "var":
            per_op_var[kop].add(o["hash"])
            hashes.add((o["k"], o["op"], o["form"], o["w"], o.get("imm"), o.get("idx"), o.get("sz"), o.get("cc"), o["hash"]))
            nfeat += 1 if o.get("need") else 0
        elif o["t"] == "fail":
            nfail += 1
    # every specified x86 operation must have been observed, and not only outside its specified domain
    enums = x07gen.parse_uniop(os.path.join(repo, "asmjit", "ujit", "uniop.h"))
    kind_of = {"UniOpVV": "vv", "UniOpVVI": "vvi", "UniOpVVV": "vvv", "UniOpVVVI": "vvvi", "UniOpVVVV": "vvvv", "UniOpVM": "vm", "UniOpMV": "mv",
               "UniOpVR": "vr", "UniOpRR": "rr", "UniOpRRR": "rrr", "UniOpRM": "rm", "UniOpMR": "mr", "UniOpM": "m"}
    missing = []
    for e, items in enums.items():
        if e not in kind_of:
            continue
        for n, _, arch in items:
            if arch == "a64":
                continue
            kop = (kind_of[e], n)
            if per_op_obs[kop] == 0 or per_op_obs[kop] == vac[kop]:
                missing.append(f"{kop[0]}:{n}")
    ctx.extra["operations_without_judged_observation"] = missing
    if missing and not os.environ.get("X07_OP"):
        # an operation that cannot be compiled at any level shows up as assemble failures (a finding), not here
        failing = {(json.loads(l)["k"], json.loads(l)["op"]) for l in lines if '"t":"fail"' in l}
        really = [m for m in missing if tuple(m.split(":")) not in failing]
        if really:
            raise Broken("operations without any judged observation: " + ", ".join(really[:20]))
    ctx.extra["records"] = counts
    ctx.extra["path_coverage"] = {
        "functions_compiled": sum(s[0] for s in stats.values()),
        "distinct_instruction_sequences": len(hashes),
        "operations_with_more_than_one_sequence": sum(1 for v in per_op_var.values() if len(v) > 1),
        "compile_failures_recorded": nfail, "feature_containment_violations_recorded": nfeat,
        "levels": levels,
    }

    # 6. life-cycle executions: every execution is judged pointwise by folding the contract over its events (UniLifeObs);
    #    the accepted ones are additionally validated as behaviours of the state machine (UniLifeTrace)
    recs = vlib.read_ndjson(ltr)
    if any(r_.get("e") == "ABORT" for r_ in recs):
        raise Broken("life harness aborted")
    execs = vlib.split_executions(recs)
    lo = ctx.path("life_execs.ndjson")
    vlib.write_ndjson(lo, [{"id": e[0]["id"], "ev": e[1:]} for e in execs])
    r = vlib.run_tlc(ctx, os.path.join(SPEC, "UniLifeObs.tla"), os.path.join(SPEC, "UniLifeObs.cfg"), workers=4, timeout=900, env={"OBS": lo}, tag="lifeobs", extra=["-continue"])
    if r.kind in ("timeout", "error") or "Finished computing initial states" not in r.out:
        raise Broken("TLC UniLifeObs: " + r.out[-800:])
    ctx.states += r.distinct
    bad = {int(a): int(b) for a, b in re.findall(r'<<"REJECT", (\d+), (\d+)>>', r.out)}
    good = [e for i, e in enumerate(execs, 1) if i not in bad]
    gp_ = ctx.path("life_accepted.ndjson")
    vlib.write_ndjson(gp_, [x for e in good for x in e])
    if good:
        ok, maxl, r2 = vlib.validate_trace_file(ctx, os.path.join(SPEC, "UniLifeTrace.tla"), os.path.join(SPEC, "UniLifeTrace.cfg"), gp_, timeout=900, tag="lifetrace")
        if not ok:
            raise Broken(f"UniLifeObs and UniLifeTrace disagree: accepted executions rejected at line {maxl}")
        ctx.traces += len(good)
    life_rej = []
    for i, b in sorted(bad.items()):
        e = execs[i - 1]
        ev = e[b] if b < len(e) else {"e": "END"}          # e[0] is the Reset line, events start at e[1]
        sc = next((s_ for s_ in scripts if s_["id"] == e[0]["id"]), None)
        nf = sum(1 for s_ in (sc["steps"] if sc else []) if s_[0] == "func")
        fno = sum(1 for r_ in e[:b] if r_["e"] == "AddFunc")
        life_rej.append((f"life:{ev['e']}:{sc['lvl'] if sc else '?'}:func{fno}of{nf}", {"records": e, "index": b}, sc))
    ctx.log(f"life cycle: {len(execs)} executions, {len(bad)} rejected by UniLife.tla, {len(good)} accepted (also as behaviours of UniLifeTrace)")

    # 7. design results
    th.join()
    if "exc" in design:
        raise design["exc"]
    vlib.tlc_must_ok(ctx, design["ops"], "UniOpsMC (laws of the reference semantics)")
    vlib.tlc_must_ok(ctx, design["life"], "UniLifeMC (lazy constant materialisation dominates every use)")
    for k, inv in (("ops_neg", "BogusLaw"), ("life_neg1", "Dominates"), ("life_neg2", "Dominates")):
        rr = design[k]
        if rr.kind != "violation" or rr.violated != inv:
            raise Broken(f"negative control {k} did not fail as required (kind={rr.kind} violated={rr.violated})")
    cov = {m.group(1): int(m.group(2)) for m in re.finditer(r"^<(M\w+) line .*?>: (\d+):", design["life"].out, re.M)}
    if not all(cov.get(a, 0) > 0 for a in ("MAddFunc", "MUse", "MEndFunc")):
        raise Broken(f"UniLifeMC: an action was never taken: {cov}")
    ctx.states += design["ops"].distinct + design["life"].distinct
    ctx.transitions += design["ops"].generated + design["life"].generated
    ctx.extra["design"] = {"UniOpsMC_states": design["ops"].distinct, "UniLifeMC_states": design["life"].distinct, "UniLifeMC_actions_taken": cov,
                           "negative_controls_failed_as_required": ["UniOpsMC_neg:BogusLaw", "UniLifeMC_negInject:Dominates", "UniLifeMC_negReset:Dominates"]}
    ctx.log(f"design: UniOpsMC {design['ops'].distinct} states, UniLifeMC {design['life'].distinct} states, 3 negative controls fail as required")

    # 8. classify
    classify(ctx, rejects, make_confirm(ctx, bdir, tier))
    seen = set()
    os.makedirs(ctx.out + ".replay", exist_ok=True)
    for key, x, sc in life_rej:
        pat, txt = known_match(ctx, key)
        if pat:
            ctx.known_finding(pat, txt)
            continue
        if key in seen:
            continue
        seen.add(key)
        rp = os.path.join(ctx.out + ".replay", "life_" + re.sub(r"[^A-Za-z0-9_.=-]", "_", key) + ".ndjson")
        vlib.write_ndjson(rp, [sc] if sc else [])
        ctx.violation(f"{key}: execution rejected by UniLife.tla at event {json.dumps(x['records'][x['index']])[:400] if x['index'] < len(x['records']) else 'END'}; script {json.dumps(sc)[:300]}", rp)

    for l in lines[:: max(1, len(lines) // 6)]:
        o = json.loads(l)
        if o["t"] == "obs":
            ctx.add_sample({"record": json.loads(describe(o))}, limit=6)
    ctx.assumptions += [
        "x86-64 host with AVX-512 (all vector widths executed); memory operands of vector operations are 64-byte aligned except for the explicit unaligned forms of UniOpVM/UniOpMV",
        "feature levels: sse2, sse3, ssse3, sse41, sse42, avx, avx+fma, avx2, avx2+fma, avx512(F,CD,BW,DQ,VL), +vbmi.., +fp16 and the 16 combinations of BMI/BMI2/LZCNT/MOVBE (every gate predicate of unicompiler_x86.cpp is false in one level and true in another); 256-bit vectors from avx2, 512-bit from avx512 (documented use)",
        "float arithmetic (add sub mul div mod sqrt rcp madd) is judged on operands that are small integers / powers of two only (exact results); fused vs unfused rounding of inexact products is NOT judged",
        "scalar 'S' operations: only element 0 is judged (ScalarOpBehavior leaves the rest target dependent); sign of zero results of rounding emulations and NaN payloads are not judged",
        "shift / rotate counts below the operand width, non-zero divisors, non-negative kSBound bound, byte masks 0x00/0xFF for kBlendV_U8 (outside: DC)",
        "InstAPI::query_features (asmjit's instruction database) decides which CPU features an emitted instruction needs",
        "AArch64 back-end: compiled and finalized only (assembles / does not assemble); not executed, NOT covered semantically; x86-32 not covered",
    ]
    vlib.write_evidence(
        ctx, "model_checking",
        rule="evaluations = records of the real code judged by TLC (one initial state each: observations, per-variant feature/assemble records, a64 static "
             "records); distinct = distinct (op, form, width, level, imm, variant hash) executed; states/transitions from TLC summaries; traces = life-cycle executions accepted",
        explanation="pointwise conformance checking of pure functions against UniOps.tla + trace validation of UniCompiler API histories against UniLife.tla; "
                    "the specs themselves are model checked (UniOpsMC laws, UniLifeMC dominance) with negative controls",
        exhaustive=False,
        trusted_base=["TLC + CommunityModules (Json, Bitwise)", "spec/ujit/UniBytes.tla UniFloat.tla UniOps.tla (validated by UniOpsMC laws)",
                      "harness/uniops.cpp (scaffolding through raw x86::Compiler, input generation, recording)", "the host CPU", "asmjit InstAPI::query_features / Formatter"])


def replay(ctx, path):
    """re-execute the cases of the given rejected records and judge them again"""
    bdir = ctx.build("plain", "uniops", "uniops_a64")
    recs = vlib.read_ndjson(path)
    if recs and "steps" in recs[0]:
        sp, ltr, lobs = ctx.path("life_scripts.ndjson"), ctx.path("life_trace.ndjson"), ctx.path("obs_life.ndjson")
        vlib.write_ndjson(sp, recs)
        rc, _, err = vlib.run_harness(ctx, bdir, "uniops", ["life", sp, ltr, lobs], timeout=600, env={"VERIF_SEED": ctx.seed})
        rej = vlib.validate_executions(ctx, os.path.join(SPEC, "UniLifeTrace.tla"), os.path.join(SPEC, "UniLifeTrace.cfg"), ltr, tag="life")
        for x in rej:
            ctx.violation(f"life-cycle execution rejected at {json.dumps(x['records'][x['index']])[:300] if x['index'] < len(x['records']) else 'END'}", path)
        return
    conf = make_confirm(ctx, bdir, "quick")
    for o in recs[:1]:
        # find the clause again by judging the recorded record itself, then re-execute
        p = ctx.path("rec.ndjson")
        vlib.write_ndjson(p, [o])
        rj, _ = tlc_pointwise(ctx, [json.dumps(o)], "rec", 1, workers=1)
        for x, c in rj:
            key = key_of(x, c)
            again = conf(x, key)
            print(f"recorded record rejected ({c}); re-execution {'repeats' if again else 'does NOT repeat'} the rejection: {key}")
            if again:
                ctx.violation(f"{key}: {describe(x)}", path)
