"""C18 - arena allocator, arena-backed containers and String behave like their abstract data types.

Decided by: contract specifications spec/adt/{Arena,Vector,Hash,RBTree,List,BitSet,BitVec,Pool,Str}.tla checked with TLC.
 1. design : AdtMC.tla model-checks the abstract types (all operation sequences of a bounded length over a small
             alphabet) and exports every behaviour as an operation script;
 2. replay : harness/adt.cpp executes the scripts (plus hand-written arena-reset / format scenarios) on the REAL
             containers and records operation, result and full projected structure;
 3. record : the harness runs long seeded random histories in a world where all containers share one arena
             (dynamic or static-buffer, soft/hard reset in the middle, requests bigger than a block);
 4. TLC validates every recorded execution against the contract of its component: the trace is accepted iff it is
    a behaviour of the contract, with every structural invariant evaluated on the logged structure in every state.
The ASan/UBSan build is only the environment: an abort truncates the trace and the ABORT line is rejected."""
import glob, json, os, re, threading
from concurrent.futures import ThreadPoolExecutor
import vlib
from vlib import Broken

SPEC = os.path.join(vlib.VERIF, "spec", "adt")
COMPS = {  # component -> trace module
    "arena": "ArenaTrace", "vector": "VectorTrace", "hash": "HashTrace", "tree": "RBTreeTrace", "list": "ListTrace",
    "bitset": "BitSetTrace", "bitvec": "BitVecTrace", "pool": "PoolTrace", "string": "StrTrace",
}
# Known-finding keys: a rejected execution whose failing input has one of these signatures is reported as KNOWN-FINDING
# when (and only when) the key is listed in KNOWN_FINDINGS.txt; the contracts themselves are always the strict ones.
KEY_ARENA = "arena_soft_reset_alloc_skips_retained_block"
KEY_FMT = "string_format_exact_fit_drops_last_char"
KEY_SELF = "string_append_self_reads_released_buffer"
KEY_DYN = "arena_hard_reset_without_chain_keeps_dynamic_blocks"
KEY_FMTOOM = "string_format_heap_failure_after_inplace_attempt"


class SubCtx:
    """Per-thread view of the context (vlib's helpers only need these members)."""
    def __init__(self, ctx):
        self._ctx = ctx
        self.states = self.transitions = self.traces = 0
        self.tlc_cmds = []
        self.pid, self.tier, self.seed = ctx.pid, ctx.tier, ctx.seed

    def path(self, name):
        return self._ctx.path(name)

    def log(self, *a):
        self._ctx.log(*a)


def tla_to_json(txt):
    return json.loads(txt.replace("<<", "[").replace(">>", "]"))


def parse_behaviours(out):
    """TLC pretty-prints long tuples over several lines: find every << "BEH", ... >> by bracket matching."""
    res = []
    for m in re.finditer(r'<<\s*"BEH",', out):
        i, depth = m.start(), 0
        j = i
        while j < len(out):
            if out.startswith("<<", j):
                depth += 1
                j += 2
                continue
            if out.startswith(">>", j):
                depth -= 1
                j += 2
                if depth == 0:
                    break
                continue
            j += 1
        t = tla_to_json(out[i:j])
        res.append((t[1], t[2]))
    return res


def export_behaviours(ctx, params):
    """One TLC run enumerates every container: params = {comp: (depth, alphabet, cap)}."""
    cfg = ctx.path("mc.cfg")
    d = {c: params[c][0] for c in params}
    comps = ", ".join(f'"{c}"' for c in params)
    open(cfg, "w").write(f"SPECIFICATION Spec\nCONSTANTS\n  Comps = {{{comps}}}\n  DTree = {d['tree']}\n  DList = {d['list']}\n"
                         f"  DVec = {d['vector']}\n  DBit = {d['bitset']}\n  KTree = {params['tree'][1]}\n  KList = {params['list'][1]}\n"
                         "INVARIANTS Sane Export\n")
    r = vlib.run_tlc(ctx, os.path.join(SPEC, "AdtMC.tla"), cfg, workers=8, timeout=1500, heap="8g", tag="mc")
    vlib.tlc_must_ok(ctx, r, "AdtMC")
    res = {}
    allb = parse_behaviours(r.out)
    for comp, (depth, k, cap) in params.items():
        beh = sorted((b[1] for b in allb if b[0] == comp), key=json.dumps)
        total = len(beh)
        if total > cap:                       # deterministic thinning keeps the run inside the tier budget
            step = total / cap
            beh = [beh[int(i * step)] for i in range(cap)]
        ctx.log(f"AdtMC {comp}: {total} behaviours of length {depth} ({len(beh)} replayed)")
        res[comp] = (beh, total)
    ctx.log(f"AdtMC: {r.distinct} distinct states, sanity invariants hold")
    return res, r.distinct


def fixed_scripts(quick=True):
    s = []
    # soft reset followed by a request that does not fit the next retained block but fits a later one
    s.append({"c": "arena", "arena": [1024, 0], "ops": [["rep", 60, "oneshot", 512], ["reset", "soft"], ["oneshot", 5000], ["reset", "hard"]]})
    s.append({"c": "arena", "arena": [1024, 256], "ops": [["rep", 40, "oneshot", 256], ["reset", "soft"], ["oneshot", 3000], ["oneshot", 64]]})
    s.append({"c": "arena", "arena": [2048, 0], "ops": [["rep", 30, "reusable", 1024], ["reset", "soft"], ["reusable", 2048], ["reusable", 100]]})
    # soft reset where every retained block is big enough / the request needs a brand-new block / plain reuse
    s.append({"c": "arena", "arena": [1024, 0], "ops": [["rep", 60, "oneshot", 512], ["reset", "soft"], ["rep", 70, "oneshot", 512],
                                                        ["reset", "soft"], ["oneshot", 64], ["reusable", 100], ["reset", "hard"], ["oneshot", 64]]})
    s.append({"c": "arena", "arena": [1024, 0], "ops": [["rep", 10, "oneshot", 512], ["reset", "soft"], ["oneshot", 100000], ["oneshot", 64],
                                                        ["reset", "soft"], ["oneshot", 90000], ["reset", "hard"]]})
    s.append({"c": "arena", "arena": [1024, 1000], "ops": [["rep", 12, "reusable", 200], ["free", 3], ["free", 7], ["reusable", 200], ["reusable", 190],
                                                           ["reusable", 5000], ["free", 15], ["reusable", 5000], ["reset", "soft"],
                                                           ["rep", 12, "reusable", 200], ["reset", "hard"], ["zeroed", 64]]})
    s.append({"c": "arena", "arena": [4096, 100], "ops": [["oneshot", 80], ["oneshot", 8], ["reusable", 16], ["dup", 33, 1], ["reset", "soft"],
                                                          ["oneshot", 80], ["oneshot", 4000], ["oneshot", 8000], ["reset", "soft"], ["oneshot", 4040]]})
    # an arena that only ever handed out dynamic (> 2048 byte) blocks, then hard reset / destruction
    s.append({"c": "arena", "arena": [4096, 0], "ops": [["reusable", 4303], ["reset", "hard"], ["reusable", 3000], ["reusable", 100], ["reset", "hard"]]})
    s.append({"c": "arena", "arena": [1024, 0], "ops": [["rzeroed", 2049], ["reusable", 9000], ["free", 1], ["reset", "soft"], ["reusable", 2100]]})
    # a heap request that FAILS in the middle of an allocation: the current block is filled so that every leftover size
    # class (< 16, 16, 24, 32 ... 2040 bytes) remains, then a request that does not fit is made while the heap refuses the
    # new block (reusable / zeroed reusable / one-shot / dup), then one-shot and reusable blocks of every slot size
    # are allocated: all of them must stay pairwise disjoint and outside the unallocated tail of the block
    slots = [16, 32, 64, 128, 256, 512, 1024, 2048]
    after = [["oneshot", 16], ["oneshot", 8]] + [["reusable", z] for z in slots] + [["oneshot", 16], ["rzeroed", 24], ["zeroed", 32],
             ["reusable", 16], ["free", 1], ["reusable", 10], ["reusable", 40], ["dup", 20, 1]]
    for ar in ([4096, 0], [1024, 4096]):
        for L in (0, 8, 16, 24, 32, 40, 48, 56, 64, 96, 128, 136, 256, 504, 512, 1000, 1024, 2040):
            req = next(z for z in slots if z > L)
            for kind in (["reusable", req, 1], ["rzeroed", max(req - 7, 1), 1], ["oneshot", ((L // 8) + 1) * 8, 1], ["dup", L + 1, 0, 1]):
                s.append({"c": "arena", "arena": ar, "ops": [["reusable", 16], ["leftover", L], kind] + after})
    # hash table arithmetic: natural growth up to the 15859-bucket row with driver-chosen hash codes (multiples of every
    # bucket count and their neighbours, inserted / looked up / removed at every level), and every row of the prime
    # table whose bucket array fits the tier's memory budget entered through _rehash(row); hash = key and hash = 2^32-1-key
    big, rows = (15859, 2200000) if quick else (60869, 34000000)
    s.append({"c": "hash", "hmode": 0, "arena": [4096, 0], "ops": [["grow", 1, big]]})
    s.append({"c": "hash", "hmode": 0, "arena": [4096, 0], "ops": [["rows", 1, 0, 128, rows]]})
    s.append({"c": "hash", "hmode": 5, "arena": [1024, 0], "ops": [["grow", 1, 1061], ["rows", 1, 0, 128, rows]]})
    # printf-style formatting whose output fills the remaining capacity exactly
    k = [107] * 300
    s.append({"c": "string", "ops": [["chars", 1, 0, [], 97, 300, 0], ["fmts", 1, 0, [], 0, 1, 0]]})          # append, remaining >= 128
    s.append({"c": "string", "ops": [["chars", 1, 0, [], 97, 300, 0], ["fmts", 1, 1, [], 2, 1, 0]]})          # assign, remaining = capacity
    s.append({"c": "string", "ops": [["chars", 1, 0, [], 97, 300, 0], ["chars", 1, 0, [], 98, 150, 0], ["fmts", 1, 0, [], 0, 1, 0],
                                     ["str", 1, 0, k, 0, 0, 0]]})                                              # remaining < 128: buffered path
    s.append({"c": "string", "ops": [["fmts", 3, 0, [], 1, 1, 0], ["fmts", 3, 0, k, 0, 0, 0], ["truncate", 3, 0, [], 10, 0, 0]]})
    # ArenaString<16>::set_data for every length around the embedded / external boundary
    s.append({"c": "string", "ops": [["astr", 1, 0, [97 + (i % 26) for i in range(n)], 0, 0, 0] for n in range(1, 41)]})
    # formatted append / assign that needs a bigger buffer while the heap refuses it
    s.append({"c": "string", "ops": [["chars", 1, 0, [], 97, 300, 0], ["fmts", 1, 0, k, 0, 0, 0, [0, 0, 0, 0], "", "d", 1], ["char", 1, 0, [], 98, 0, 0]]})
    s.append({"c": "string", "ops": [["chars", 2, 0, [], 97, 300, 0], ["fmts", 2, 1, k + k, 3, 0, 0, [0, 0, 0, 0], "", "d", 1], ["char", 2, 0, [], 98, 0, 0]]})
    s.append({"c": "string", "ops": [["chars", 1, 0, [], 97, 20, 0], ["str", 1, 0, k, 0, 0, 0, [0, 0, 0, 0], "", "d", 1], ["chars", 1, 1, [], 99, 700, 0, [0, 0, 0, 0], "", "d", 1]]})
    # a string appended to itself: within capacity / small -> large / large -> larger
    s.append({"c": "string", "ops": [["chars", 1, 0, [], 97, 10, 0], ["append_self", 1, 0, [], 0, 0, 0]]})
    s.append({"c": "string", "ops": [["chars", 1, 0, [], 97, 10, 0], ["char", 1, 0, [], 98, 0, 0], ["append_self", 1, 0, [], 0, 0, 0], ["append_self", 1, 0, [], 0, 0, 0]]})
    s.append({"c": "string", "ops": [["chars", 2, 0, [], 99, 100, 0], ["char", 2, 0, [], 100, 0, 0], ["append_self", 2, 0, [], 0, 0, 0], ["append_self", 2, 0, [], 0, 0, 0]]})
    s.append({"c": "string", "ops": [["chars", 3, 0, [], 101, 20, 0], ["char", 3, 0, [], 102, 0, 0], ["append_self", 3, 0, [], 0, 0, 0], ["append_self", 3, 0, [], 0, 0, 0]]})
    return s


def classify(comp, rej):
    """Return (known_key or None, description) for a rejected execution."""
    recs, idx, inv = rej["records"], rej["index"], rej["inv"]
    bad = recs[idx] if idx < len(recs) else {"e": "END"}
    what = f"{comp}: event {idx} {json.dumps(bad)[:260]} violated={inv}"
    if bad.get("e") == "ABORT":
        what = f"{comp}: the harness aborted (sanitizer report / crash) after event {idx - 1} {json.dumps(recs[idx - 1])[:200]}"
    if comp == "arena" and bad.get("e") == "Op" and idx >= 1:
        soft = False
        for r in recs[:idx]:
            if r.get("e") == "Op" and r["op"][0] == "reset":
                soft = r["op"][1] == "soft"
        prev = recs[idx - 1].get("st") or {}
        chain, cur = prev.get("chain", []), prev.get("cur", 0)
        if bad["op"][0] == "reset" and bad["op"][1] == "hard" and not prev.get("chain") and prev.get("dyn") and bad["st"].get("dyn"):
            return KEY_DYN, what
        if soft and inv == "ChainOk" and bad["st"].get("bad") and len(chain) >= cur + 2 and bad["op"][0] in ("oneshot", "zeroed", "reusable", "rzeroed", "dup", "ext"):
            return KEY_ARENA, what
    if comp == "string":
        if bad.get("e") == "Op" and bad["op"][0] in ("fmts", "fmtd") and bad["r"][0] == "OutOfMemory" and bad.get("hit"):
            return KEY_FMTOOM, what
        if bad.get("e") == "Op" and bad["op"][0] == "append_self" and inv == "HoldsExactly":
            return KEY_SELF, what
        if bad.get("e") == "ABORT" and idx >= 1 and recs[idx - 1].get("e") == "Note" and recs[idx - 1]["op"][0] == "append_self":
            return KEY_SELF, what
    if comp == "string" and bad.get("e") == "Op" and bad["op"][0] == "fmts" and bad["r"][0] == "Ok" and inv in ("HoldsExactly", "NulTerminated"):
        s, assign = bad["op"][1], bad["op"][2]
        before = None
        for r in recs[:idx]:
            for x in (r.get("st") or []):
                if x["s"] == s:
                    before = x
        if before is not None:
            start = 0 if assign else before["size"]
            outlen = bad["op"][4] + len(bad["op"][3])
            now = [x for x in bad["st"] if x["s"] == s][0]
            if before["cap"] - start == outlen and outlen >= 128 and now["size"] == start + outlen:
                return KEY_FMT, what
    return None, what


def hashmod_leg(ctx, bdir, max_real, tag="hashmod"):
    """adt hashmod logs (prime, rcp, shift) of every row and what _calc_mod really returned for adversarial hashes;
    HashMod.tla judges each observation (round-up reciprocal, exactness bound, got = hash mod prime < prime)."""
    obs = ctx.path(tag + "_obs.ndjson")
    rc, _, err = vlib.run_harness(ctx, bdir, "adt", ["hashmod", obs, max_real], timeout=900, env={"VERIF_SEED": ctx.seed})
    if rc != 0:
        raise Broken(f"harness hashmod exit {rc}: {err[-1500:]}")
    recs = vlib.read_ndjson(obs)
    r = vlib.run_tlc(ctx, os.path.join(SPEC, "HashMod.tla"), os.path.join(SPEC, "HashMod.cfg"), workers=8, timeout=1500, heap="4g",
                     tag=tag, env={"OBS": obs, "JAVA_TOOL_OPTIONS": "-Xss64m"})
    ctx.states += r.distinct
    ctx.transitions += r.generated
    nrows = sum(1 for x in recs if x["k"] == "row")
    for x in recs:
        ctx.distinct.add(("hashmod", x["row"], x["k"], tuple(x.get("h", ()))))
    ctx.extra["hashmod_observations"] = len(recs)
    ctx.extra["hashmod_rows"] = nrows
    if r.kind == "ok":
        ctx.log(f"hash arithmetic: {nrows} table rows, {len(recs) - nrows} _calc_mod observations accepted")
        return len(recs)
    if r.kind != "violation":
        raise Broken(f"HashMod: kind={r.kind} rc={r.rc}\n" + "\n".join(r.out.splitlines()[-25:]))
    st = vlib.parse_state_dump(r.out)
    i = int(st.get("i", "0") or 0)
    bad = recs[i - 1] if 1 <= i <= len(recs) else {}
    w32 = lambda w: w[0] + 65536 * w[1]
    rp = ctx.path(tag + "_rejected.ndjson")
    vlib.write_ndjson(rp, [x for x in recs if x["row"] == bad.get("row")])
    if bad.get("k") == "row":
        what = (f"prime table row {bad['row']}: prime={w32(bad['p'])} rcp={hex(w32(bad['rcp']))} shift={bad['sh']} is not an exact "
                f"reciprocal for 32-bit hash codes (not the round-up of 2^shift/prime, or too coarse) / not what _rehash installs")
    else:
        h, p, g = w32(bad.get("h", [0, 0])), w32(bad.get("p", [1, 0])), w32(bad.get("got", [0, 0]))
        what = f"_calc_mod({h}) with {p} buckets (row {bad.get('row')}) returned {g}, expected {h % p}" + (" - index outside the bucket array" if g >= p else "")
    ctx.violation("hashmod: " + what, rp)
    return len(recs)


def run(ctx):
    q = ctx.quick
    bdir = ctx.build("asan", "adt")
    ctx.build("plain", "adt")

    # ---- 0. hash-table arithmetic, pointwise: every row of the prime table x adversarial hash codes ---------------
    hm_pool = ThreadPoolExecutor(max_workers=1)          # runs beside the model checking / harness runs below
    hm_future = hm_pool.submit(hashmod_leg, ctx, bdir, 4000000 if q else 34000000)

    # ---- 1. abstract types: model checking + behaviour export -------------------------------------------------
    params = {"tree": (6, 5, 5000), "list": (4, 4, 4000), "vector": (4, 0, 1500), "bitset": (3, 0, 1500)} if q else \
             {"tree": (7, 5, 30000), "list": (5, 3, 20000), "vector": (4, 0, 12000), "bitset": (3, 0, 12000)}
    scripts = []
    mc_states = {}

    res, nst = export_behaviours(ctx, params)
    mc_states = {"distinct_states": nst, **{c: res[c][1] for c in res}}
    for comp, (beh, total) in res.items():
        for i, b in enumerate(beh):
            sc = {"c": comp, "arena": [[1024, 0], [1024, 256], [4096, 0]][i % 3], "ops": b}
            if comp == "list":
                sc["nodes"] = params["list"][1]
            scripts.append(sc)
    ctx.extra["mc_states"] = mc_states
    sp = ctx.path("scripts.ndjson")
    vlib.write_ndjson(sp, scripts)
    fp = ctx.path("scenarios.ndjson")
    vlib.write_ndjson(fp, fixed_scripts(q))
    ctx.log(f"{len(scripts)} exported scripts + {len(fixed_scripts(q))} hand-written scenarios")

    # ---- 2./3. execute on the real code -------------------------------------------------------------------------
    runs = []          # (tag, prefix)
    nshard, nexec, steps = (6, 100, 260) if q else (14, 150, 400)

    def rnd(i):
        if i < 0:
            tg, src = ("s", sp) if i == -1 else ("f", fp)
            rc, _, err = vlib.run_harness(ctx, bdir, "adt", ["script", src, ctx.path(tg)], timeout=1500, env={"VERIF_SEED": ctx.seed})
            open(ctx.path(tg + ".err"), "w").write(err)
            if rc != 0:
                raise Broken(f"harness script mode exit {rc}: {err[-1500:]}")
            return (tg, ctx.path(tg))
        pre = ctx.path(f"r{i}")
        rc2, _, err2 = vlib.run_harness(ctx, bdir, "adt", ["random", pre, nexec, steps], timeout=1200, env={"VERIF_SEED": int(ctx.seed) * 1000 + i})
        open(pre + ".err", "w").write(err2)
        if rc2 != 0:
            raise Broken(f"harness random mode exit {rc2}: {err2[-1500:]}")
        return (f"r{i}", pre)
    with ThreadPoolExecutor(max_workers=8) as ex:
        runs += list(ex.map(rnd, range(-2, nshard)))
    ctx.log("harness runs done")

    # ---- 4. trace validation (one TLC per component and shard, in parallel) ------------------------------------
    # Few, large trace files: all executions of one component (scripts and every random shard) are concatenated
    # and cut into chunks of at most CHUNK events - the JVM start dominates short validations.
    CHUNK = 80000 if q else 60000
    tasks = []
    for comp, mod in COMPS.items():
        execs = []
        scen = []          # the hand-written scenarios get a small file of their own
        for tag, pre in runs:
            path = f"{pre}.{comp}.ndjson"
            if not os.path.exists(path) or os.path.getsize(path) == 0:
                continue
            for e in vlib.split_executions(vlib.read_ndjson(path)):
                # executions that never touched this component carry no information: drop them (keeps TLC short)
                if any(r.get("e") in ("Op", "ABORT", "Destroyed") for r in e):
                    (scen if tag == "f" else execs).append(e)
        chunks, cur, n = ([scen] if scen else []), [], 0
        for e in execs:
            if cur and n + len(e) > CHUNK:
                chunks.append(cur)
                cur, n = [], 0
            cur.append(e)
            n += len(e)
        if cur:
            chunks.append(cur)
        for j, part in enumerate(chunks):
            p = ctx.path(f"in_{comp}_{j}.ndjson")
            vlib.write_ndjson(p, [r for e in part for r in e])
            tasks.append((comp, mod, f"{comp}_{j}", p, part))
    hm_future.result()
    hm_pool.shutdown()
    lock = threading.Lock()
    timing = {}
    # many short single-threaded validations run side by side: keep each JVM small (2 GC threads; the quick tier's
    # runs last a few seconds, where the C1 compiler alone is faster than tiered compilation)
    os.environ["JAVA_TOOL_OPTIONS"] = "-Xss64m -XX:ParallelGCThreads=2" + (" -XX:TieredStopAtLevel=1" if q else "")
    results = []

    def validate(task):
        comp, mod, tag, p, part = task
        sub = SubCtx(ctx)
        import time as _t
        t0 = _t.time()
        rej = vlib.validate_executions(sub, os.path.join(SPEC, mod + ".tla"), os.path.join(SPEC, mod + ".cfg"), p,
                                       tag=tag, timeout=1700, heap="5g", max_rejects=4 if sum(len(x[2]) for x in results) < 6 else 1)
        with lock:
            results.append((task, sub, rej))
            timing[tag] = (round(_t.time() - t0, 1), sum(len(e) for e in part))
    tasks.sort(key=lambda t: -os.path.getsize(t[3]))          # longest first
    with ThreadPoolExecutor(max_workers=6) as ex:      # vlib admits at most 7 TLC JVMs machine-wide
        list(ex.map(validate, tasks))
    os.environ.pop("JAVA_TOOL_OPTIONS", None)
    ctx.log(f"{len(tasks)} trace files validated; slowest (s, events):", sorted(timing.items(), key=lambda kv: -kv[1][0])[:4])

    nops = 0
    per_comp = {}
    for (comp, mod, tag, p, part), sub, rej in sorted(results, key=lambda x: x[0][2]):
        ctx.states += sub.states
        ctx.transitions += sub.transitions
        ctx.traces += sub.traces
        ctx.tlc_cmds += sub.tlc_cmds[:1]
        n = 0
        for e in part:
            for r in e:
                if r.get("e") == "Op":
                    n += 1
                    ctx.distinct.add((comp, json.dumps(r["op"])[:80], json.dumps(r["r"])[:40]))
        nops += n
        per_comp[comp] = per_comp.get(comp, 0) + n
        if part and len(ctx.samples) < 9 and tag.endswith("_0"):
            ev = [r for r in part[-1] if r.get("e") == "Op"][:2]
            ctx.add_sample({"component": comp, "events": [{"op": x["op"][:6], "r": x["r"][:4]} for x in ev]}, limit=9)
        for x in rej:
            key, what = classify(comp, x)
            if key and key in ctx.known:
                ctx.known_finding(key, ctx.known[key] or what)
            else:
                hint = f" [matches finding signature {key}, not listed in KNOWN_FINDINGS.txt]" if key else ""
                ctx.violation(what + hint, x["path"])
    ctx.evaluations = nops + ctx.extra.get("hashmod_observations", 0)
    ctx.extra["operations_per_component"] = per_comp
    ctx.log("operations validated per component:", per_comp)
    ctx.assumptions += [
        "projection (harness/adt.cpp) reads public members only: block chain / dynamic blocks / container headers / node links; addresses are logged as <<hi,lo>> pairs",
        "allocation never fails in this check (failure handling is C15); a reported failure is accepted by the contracts as 'state unchanged / unspecified'",
        "ASan/UBSan build is the environment: overruns abort the execution, the ABORT line is rejected by the trace spec",
        "hash bucket counts, vector/string growth factors and free-list order are deliberately unspecified (only size <= capacity, reachability, exact contents)",
    ]
    vlib.write_evidence(ctx, "model_checking",
        rule="evaluations = container/allocator/string operations executed on the real code and accepted or rejected by TLC against the "
             "contract of their component; distinct = distinct (component, operation+arguments, result) triples; states = TLC states of "
             "AdtMC (abstract types) plus one state per validated trace event",
        trusted_base=["TLC", "spec/adt/*.tla (contracts)", "harness/adt.cpp projection", "spec/lib/TraceLib.tla"])


def replay(ctx, path):
    path = os.path.abspath(path)
    base = os.path.basename(path)
    if base.startswith("hashmod"):
        hashmod_leg(ctx, ctx.build("asan", "adt"), 4000000, tag="hashmod_replay")
        return
    comp = next((c for c in COMPS if base.startswith(c + "_") or f".{c}." in base), None)
    recs = vlib.read_ndjson(path)
    if comp is None:
        raise Broken("cannot tell the component from the file name " + base)
    mod = os.path.join(SPEC, COMPS[comp] + ".tla")
    cfg = os.path.join(SPEC, COMPS[comp] + ".cfg")
    # (a) the recorded execution as it is
    ok, maxl, r = vlib.validate_trace_file(ctx, mod, cfg, path, tag="replay_recorded")
    if not ok:
        ctx.log(f"recorded execution is rejected at line {maxl} ({r.violated})")
    # (b) the same operations executed again on the current tree
    hdr = recs[0] if recs and recs[0].get("e") == "Reset" else {}
    ops = [r_["op"] for r_ in recs if r_.get("e") == "Op" and r_["op"][0] != "ext"]
    sc = {"c": comp, "arena": [hdr.get("blk", 1024), hdr.get("staticN", 0)], "hmode": hdr.get("hmode", 0), "ops": ops}
    sp = ctx.path("replay_script.ndjson")
    vlib.write_ndjson(sp, [sc])
    bdir = ctx.build("asan", "adt")
    vlib.run_harness(ctx, bdir, "adt", ["script", sp, ctx.path("replay")], env={"VERIF_SEED": ctx.seed})
    tr = ctx.path(f"replay.{comp}.ndjson")
    ok2, maxl2, r2 = vlib.validate_trace_file(ctx, mod, cfg, tr, tag="replay_rerun")
    if not ok2:
        rr = vlib.read_ndjson(tr)
        key, what = classify(comp, {"records": rr, "index": maxl2 - 1, "inv": r2.violated})
        if key and key in ctx.known:
            ctx.known_finding(key, ctx.known[key] or what)
        else:
            ctx.violation(f"replay rejected at line {maxl2}: {what}", tr)
    elif not ok:
        ctx.log("the re-executed operations are accepted on the current tree (the recorded rejection needed the original interleaving)")
