"""C10 - sections are laid out without overlap and the flattened image is exact.

Decided by: (1) LayoutImpl (flatten / code_size / copy_flattened_data / address-table shrink transcribed) refines the
contract Layout.tla (TLC, exhaustive over small section tables); (2) trace validation of the real CodeHolder against
the contract: TLC-enumerated and TLC-simulated section tables replayed on real code, plus seeded random tables with
up to 12 sections and 64 KiB alignments.  The verdict is TLC's: a rejected execution is re-validated alone in strict
mode before it is reported."""
import json, os, re, threading
from concurrent.futures import ThreadPoolExecutor
import vlib
from vlib import Broken

SPEC = os.path.join(vlib.VERIF, "spec", "code")
MC = os.path.join(SPEC, "LayoutMC.tla")
TMOD, TCFG = os.path.join(SPEC, "LayoutTrace.tla"), os.path.join(SPEC, "LayoutTrace.cfg")
MAXINT = 2147483647
_lock = threading.Lock()


def mc_cfg(ctx, name, max_user, aligns="AlignsStd", orders="OrdersStd", bufs="BufsStd", vsizes="VSizesStd",
           text="TextStd", at="ATNone", fixed=True, copy=False, check=True, export=False):
    lines = ["SPECIFICATION Spec", "CONSTANTS", f"  MaxUser = {max_user}", f"  Aligns <- {aligns}", f"  Orders <- {orders}",
             f"  Bufs <- {bufs}", f"  VSizes <- {vsizes}", f"  TextBufs <- {text}", f"  ATSizes <- {at}",
             f"  SkipEmptyPrev = {'TRUE' if fixed else 'FALSE'}", f"  WithCopy = {'TRUE' if copy else 'FALSE'}",
             "  CopyFlags <- FlagsAll"]
    if check:
        lines += ["INVARIANTS Glue Sorted", "PROPERTY RefinesContract", "VIEW View"]
    if export:
        lines += ["INVARIANT Export"]
    p = ctx.path(name + ".cfg")
    open(p, "w").write("\n".join(lines) + "\n")
    return p


def parse_cfgs(out):
    res = []
    for v in vlib.parse_beh(out, "CFG"):          # value = ToString(hist): one string, never split by a worker switch
        res.append(json.loads(v.replace("<<", "[").replace(">>", "]")))
    return res


FAR_SETS = {8: [[0], [1], [2]], 16: [[0, 1], [1, 2], [0, 3], [1, 4]]}   # near = 0, 3; far = 1, 2, 4


def hist_to_script(h, k):
    """TLC configuration (<<kind, align, order, buf, vsize>> per section, creation order) -> harness script."""
    ops = []
    for sid, (kind, a, o, b, v) in enumerate(h):
        if kind == 0:
            if b:
                ops.append(["embed", 0, b])
        elif kind == 1:
            # names of length 2..35, sharing prefixes with each other
            ops.append(["new", ("n%d" % sid) + "y" * ((k * 7 + sid * 5) % 34), a, o])
            if b:
                ops.append(["embed", sid, b])
            if v:
                ops.append(["vsize", sid, v])
        else:
            ts = FAR_SETS[v][k % len(FAR_SETS[v])]
            for j, t in enumerate(ts):
                ops.append(["far", 0, t, (k + j) % 2])
    s = {"ops": ops, "salt": k}
    if k % 4:      # every 4th table gets the full 4 sizes x 4 flag sets matrix, the others one flag set per size
        s["copies"] = [["abs", 0, k % 4], ["need", -1, (k + 1) % 4], ["need", 0, (k + 2) % 4], ["need", 7, (k + 3) % 4], ["need", 0, (k // 4) % 4]]
    return s


# always replayed: the witness of the known finding, the address table followed by a user section, ties with .text
FIXED_SCRIPTS = [
    {"ops": [["embed", 0, 5], ["new", "empty", 8, 0], ["new", "data", 16, 0], ["embed", 2, 4]]},
    {"ops": [["embed", 0, 5], ["far", 0, 1, 0], ["new", "after-table", 4, MAXINT], ["embed", 2, 3]]},
    {"ops": [["embed", 0, 5], ["far", 0, 1, 0], ["far", 0, 0, 1], ["new", "bss", 8, 0], ["vsize", 2, 40], ["new", "d", 64, -1], ["embed", 3, 16]]},
    {"ops": [["embed", 0, 3], ["new", "first?", 16, -MAXINT - 1], ["embed", 1, 5], ["new", ".text", 2, -MAXINT - 1], ["embed", 2, 1]]},
    {"ops": [["new", "x" * 35, 65536, 1], ["embed", 1, 16], ["new", "x" * 36, 8, 0], ["new", "x" * 35, 4096, 1], ["vsize", 2, 3], ["embed", 0, 1]]},
    {"ops": []},
    # names: prefixes of each other, duplicates, maximal length, looked up after further sections / the table were created
    {"ops": [["new", "a", 1, 0], ["new", "ab", 1, 0], ["new", "abc", 2, 0], ["new", "a", 4, 1], ["new", "x" * 35, 1, 0],
             ["new", "x" * 34, 1, 0], ["embed", 1, 3], ["far", 0, 1, 0], ["new", ".addrtab", 1, 0], ["new", "", 1, 0]]},
]


def signature(ev, why):
    return ev.lower() + ":" + "+".join(sorted(why))


def describe(execution):
    """Short human description of the section table of an execution (from its own trace)."""
    secs = []
    for r in execution:
        e = r.get("e")
        if e == "Reset":
            secs = [{"a": r["text"]["align"], "o": r["text"]["order"], "b": 0, "v": 0}]
        elif e == "New" and r["r"] == "Ok":
            secs.append({"a": r["align"], "o": r["order"], "b": 0, "v": 0})
        elif e in ("Embed", "Far") and r["id"] < len(secs):
            secs[r["id"]]["b"] = r["buf"]
            if e == "Far":
                at = r["at"]
                if at["id"] == len(secs):
                    secs.append({"a": at["align"], "o": at["order"], "b": 0, "v": 0, "at": 1})
                secs[at["id"]]["v"] = at["vsize"]
        elif e == "VSize" and r["id"] < len(secs):
            secs[r["id"]]["v"] = r["v"]
    return secs


def config_key(secs):
    return tuple((s["a"], s["o"], s["b"], s["v"], s.get("at", 0)) for s in secs)


def fmt_cfg(secs):
    return "".join("[%sord%d,a%d,sz%d,vs%d]" % ("addrtab," if s.get("at") else "", s["o"], s["a"], s["b"], s["v"]) for s in secs)


def trace_to_script(execution):
    ops, copies, salt, sc = [], [], 0, 2
    reloc = False
    for r in execution:
        e = r.get("e")
        if e == "Reset":
            salt, sc = r.get("salt", 0), r.get("seccopies", 2)
        elif e == "New":
            ops.append(["new", r["name"], r["align"], r["order"]])
        elif e == "Embed":
            ops.append(["embed", r["id"], sum(x[0] for x in r["rle"])])
        elif e == "VSize":
            ops.append(["vsize", r["id"], r["v"]])
        elif e == "Far":
            ops.append(["far", r["id"], r["t"], 1 if r["call"] else 0])
        elif e == "Reloc":
            reloc = True
        elif e == "Copy" and not reloc:
            copies.append(["abs", r["size"], r["flags"]])
    s = {"ops": ops, "salt": salt, "seccopies": sc}
    if copies:
        s["copies"] = copies
    return s


def validate_shard(ctx, path, tag, strict=False, timeout=1500):
    """TLC trace validation of one file.  Returns (rejections [(line, event, whyset)], tlc result)."""
    env = {"TRACE": path}
    if strict:
        env["STRICT"] = "1"
    r = vlib.run_tlc(ctx, TMOD, TCFG, workers=1, timeout=timeout, env=env, heap="3g", tag=tag)
    with _lock:
        ctx.states += r.distinct
        ctx.transitions += r.generated
    rej = []
    for v in vlib.parse_beh(r.out, "REJ"):            # <<"REJ", line, event, "{reasons}">> (possibly wrapped by TLC)
        item = (int(v[0]), v[1], tuple(sorted(re.findall(r'"([^"]+)"', v[2]))))
        if item not in rej:
            rej.append(item)
    printed = len(re.findall(r'"REJ",', r.out))
    if printed and not rej or len(rej) > printed:
        raise Broken(f"cannot parse the rejections printed by TLC ({tag}: {printed} printed, {len(rej)} parsed)")
    return rej, r


def validate_trace(ctx, path, tag, shards=16):
    """Split a concatenation of executions into shards, validate in parallel JVMs (diagnostic mode).
    Returns (executions, list of (execution index, event index, event, why))."""
    recs = vlib.read_ndjson(path)
    execs = vlib.split_executions(recs)
    if not execs:
        raise Broken(f"{tag}: harness produced no execution")
    shards = max(1, min(shards, len(execs) // 20 + 1))
    per = (len(execs) + shards - 1) // shards
    jobs = []
    for s in range(shards):
        part = execs[s * per:(s + 1) * per]
        if not part:
            continue
        p = ctx.path(f"{tag}_shard{s}.ndjson")
        vlib.write_ndjson(p, [r for e in part for r in e])
        jobs.append((s, p, part))

    def work(job):
        s, p, part = job
        rej, r = validate_shard(ctx, p, f"{tag}{s}")
        m = re.search(r'<<"MAXL", (\d+), (\d+)>>', r.out)
        if r.kind != "ok" or not m or int(m.group(1)) != int(m.group(2)) + 1:
            raise Broken(f"trace validation ({tag} shard {s}) did not run to the end: kind={r.kind} rc={r.rc}\n" + "\n".join(r.out.splitlines()[-25:]))
        starts, n = [], 1
        for e in part:
            starts.append(n)
            n += len(e)
        out = []
        for (line, ev, why) in rej:
            xi = max(i for i, st in enumerate(starts) if st <= line)
            out.append((s * per + xi, line - starts[xi], ev, why))
        return out

    rejected = []
    with ThreadPoolExecutor(max_workers=16) as tp:
        for res in tp.map(work, jobs):
            rejected += res
    ctx.traces += len(execs) - len({x[0] for x in rejected})
    return execs, rejected


def classify(ctx, execs, rejected, tag, summary):
    """Group rejections by signature; confirm one representative per signature in strict mode; report."""
    groups = {}
    for (xi, idx, ev, why) in rejected:
        groups.setdefault(signature(ev, why), []).append((xi, idx, ev, why))
    for sig, items in sorted(groups.items()):
        # smallest execution first: the most readable witness
        items.sort(key=lambda it: (len(describe(execs[it[0]])), it[0]))
        xi, idx, ev, why = items[0]
        rp = ctx.path(f"{tag}_rejected_{re.sub(r'[^a-z0-9]+', '_', sig)}.ndjson")
        vlib.write_ndjson(rp, execs[xi])
        rej2, r2 = validate_shard(ctx, rp, f"{tag}_strict_{len(summary)}", strict=True)
        strict_rejected = r2.kind == "error" and "Postcondition" in r2.out and "is false" in r2.out
        if r2.kind == "ok":
            raise Broken(f"rejection {sig} of {rp} does not repeat in strict mode")
        if not strict_rejected and r2.kind != "violation":
            raise Broken(f"strict validation of {rp} failed to run: kind={r2.kind} rc={r2.rc}\n" + "\n".join(r2.out.splitlines()[-25:]))
        bad = execs[xi][idx] if idx < len(execs[xi]) else {"e": "EOF"}
        cfg = fmt_cfg(describe(execs[xi]))
        nx = len({it[0] for it in items})
        what = f"{nx} execution(s) rejected at {ev} [{', '.join(why)}]; smallest: sections={cfg} event={json.dumps(bad)[:260]}"
        summary.append({"signature": sig, "executions": nx, "witness": cfg, "replay": rp})
        if sig in ctx.known:
            ctx.known_finding(sig, ctx.known[sig] + f" -- still fails: {nx} execution(s), smallest sections={cfg} ({rp})")
        else:
            ctx.violation(what, rp)


def run(ctx):
    q = ctx.quick
    bdir = ctx.build("plain", "layout")

    # ---- 1. design: the transcribed algorithms refine the contract;  2. TLC enumerates section tables ----------
    small = dict(aligns="AlignsSmall", bufs="BufsSmall", vsizes="VSizesSmall", text="TextSmall")
    tiny = dict(aligns="AlignsTiny", bufs="BufsSmall", vsizes="VSizesSmall", text="TextSmall")
    if q:
        runs = [("d_two", dict(max_user=2, text="TextSmall"), 6),
                ("d_tab", dict(max_user=2, orders="OrdersTab", at="ATStd", **small), 3),
                ("d_copy", dict(max_user=2, copy=True, **tiny), 4),
                ("d_three", dict(max_user=3, **tiny), 3)]
    else:
        runs = [("d_two", dict(max_user=2), 8),
                ("d_tab", dict(max_user=2, orders="OrdersWide", at="ATStd", **small), 6),
                ("d_copy", dict(max_user=2, copy=True, **small), 4),
                 ("d_three", dict(max_user=3, aligns="AlignsStd", bufs="BufsSmall", vsizes="VSizesStd", text="TextSmall"), 12),
                 ("d_four", dict(max_user=4, **tiny), 12),
                 ("d_copytab", dict(max_user=2, at="ATStd", copy=True, **tiny), 8)]
    nsim = 1500 if q else 20000
    jobs = [(name, kw, w, {}) for name, kw, w in runs]
    # the algorithm exactly as written in the pinned tree (every section becomes `prev`): a hint, not a verdict
    jobs.append(("d_pinned", dict(max_user=2, fixed=False), 2, {}))
    jobs.append(("x_enum", dict(max_user=2, check=False, export=True, **small), 1, {}))
    jobs.append(("x_sim", dict(max_user=4, at="ATStd", orders="OrdersWide", check=False, export=True), 1,
                 dict(simulate=nsim // 2, depth=12, seed=ctx.seed)))
    jobs.append(("x_simbig", dict(max_user=4, aligns="AlignsBig", at="ATStd", check=False, export=True), 1,
                 dict(simulate=nsim // 2, depth=12, seed=ctx.seed + 1)))

    def tlc_job(job):
        name, kw, w, xkw = job
        return name, vlib.run_tlc(ctx, MC, mc_cfg(ctx, name, **kw), workers=w, timeout=2400, heap="6g", tag=name, **xkw)

    with ThreadPoolExecutor(max_workers=4 if q else 3) as tp:
        results = dict(tp.map(tlc_job, jobs))
    design = {}
    for name, _, _ in runs:
        r = results[name]
        vlib.tlc_must_ok(ctx, r, f"design {name} (LayoutImpl[empty sections never become prev] => Layout)")
        design[name] = r.distinct
        ctx.log(f"design {name}: {r.distinct} distinct states, {r.generated} transitions, refinement + invariants hold ({r.wall:.0f}s)")
    ctx.extra["design_states"] = design
    r = results["d_pinned"]
    hint_scripts = []
    if r.kind == "violation":
        st = vlib.parse_state_dump(r.out)
        try:
            h = json.loads(st.get("hist", "").replace("<<", "[").replace(">>", "]"))
            hint_scripts.append(hist_to_script(h, 0))
            ctx.extra["design_flatten_as_written"] = f"does not refine the contract ({r.violated}); counterexample {h} replayed on the real code"
        except Exception:
            ctx.extra["design_flatten_as_written"] = f"does not refine the contract ({r.violated})"
        ctx.log("design hint: flatten() transcribed as written", ctx.extra["design_flatten_as_written"])
    elif r.kind == "ok":
        ctx.extra["design_flatten_as_written"] = "refines the contract"
    else:
        raise Broken("design d_pinned: " + r.out[-800:])
    hists = []
    for name in ("x_enum", "x_sim", "x_simbig"):
        r = results[name]
        if r.kind != "ok":
            raise Broken(f"configuration export {name} failed: " + r.out[-800:])
        hs = parse_cfgs(r.out)
        if not hs:
            raise Broken(f"configuration export {name} printed nothing")
        hists += hs
    uniq = sorted({json.dumps(h) for h in hists})
    scripts = FIXED_SCRIPTS + hint_scripts + [hist_to_script(json.loads(h), k) for k, h in enumerate(uniq)]
    ctx.log(f"{len(uniq)} distinct section tables exported by TLC (+{len(FIXED_SCRIPTS) + len(hint_scripts)} fixed) for replay")
    sp, tr = ctx.path("scripts.ndjson"), ctx.path("trace_scripts.ndjson")
    vlib.write_ndjson(sp, scripts)
    rc, _, err = vlib.run_harness(ctx, bdir, "layout", ["script", sp, tr], timeout=900)
    if rc != 0:
        ctx.log("harness (script) exit", rc, err[-1500:])
    # ---- 3. seeded random section tables (up to 12 sections, 64 KiB alignments, arbitrary names) -----------
    tr2 = ctx.path("trace_random.ndjson")
    nexec = 2000 if q else 25000
    rc2, _, err2 = vlib.run_harness(ctx, bdir, "layout", ["random", tr2, nexec], timeout=900, env={"VERIF_SEED": ctx.seed})
    if rc2 != 0:
        ctx.log("harness (random) exit", rc2, err2[-1500:])

    # ---- 4. trace validation ------------------------------------------------------------------------------
    summary, nrec, moved = [], 0, 0
    all_execs, all_rej = [], []
    for tag, path in (("scripts", tr), ("random", tr2)):
        execs, rejected = validate_trace(ctx, path, tag)
        ctx.log(f"{tag}: {len(execs)} executions, {sum(len(e) for e in execs)} events, {len({x[0] for x in rejected})} executions rejected")
        for e in execs:
            nrec += len(e)
            key = config_key(describe(e))
            ctx.distinct.add(key)
            for r_ in e:
                if r_.get("e") == "Copy":
                    ctx.distinct.add((key, r_["size"], r_["flags"], r_["r"]))
                elif r_.get("e") == "Flatten2" and not r_.get("same", True):
                    moved += 1
        all_rej += [(xi + len(all_execs), idx, ev, why) for (xi, idx, ev, why) in rejected]
        all_execs += execs
        if execs:
            big = max(execs[: 400], key=len)
            ctx.add_sample({"source": tag, "sections": fmt_cfg(describe(big)), "events": [x for x in big if x.get("e") in ("Flatten", "CodeSize")][:3]})
    classify(ctx, all_execs, all_rej, "trace", summary)
    ctx.evaluations = nrec
    ctx.extra["rejections"] = summary
    ctx.extra["second_flatten_changed_layout"] = f"{moved} executions (informational: codeholder.h forbids a second flatten())"
    ctx.assumptions += [
        "harness projection: offsets / sizes / run-length encoded bytes read through the public Section and CodeHolder API",
        "sizes stay below 2^31 (the kTooLarge / SIZE_MAX overflow exits of flatten() and code_size() are not exercised)",
        "a destination is 'too small' when a section's real bytes do not fit; between that and code_size() either answer is accepted",
        "bytes nobody asked to be zeroed may be left as they were or zeroed; a second flatten() is not judged (documented as unsupported)",
        "plain (unsanitised) build: UBSan stops the pinned tree at memcpy(dst, nullptr, 0) for empty sections (codeholder.cpp:1357), "
        "which is not part of this property; 256 guard cells on both sides of every destination replace the redzones",
        "section names: name() must read back as given and section_by_name() must find a section carrying the name (any of them for "
        "duplicates); the harness makes malloc return non-zero memory first, as the arena does not clear its blocks",
        "allocation never fails in this check (failure is C15)"]
    vlib.write_evidence(ctx, "model_checking",
        rule="events = API calls executed on real CodeHolders (new_section/section_by_name/embed/set_virtual_size/far jmp+call/code_size/flatten/"
             "copy_flattened_data/copy_section_data/relocate_to_base), each judged by the contract; distinct = distinct section tables "
             "(alignment, order, buffer size, virtual size per section) plus distinct (table, destination size, flags, result) copies; "
             "tables = all LayoutImpl configurations with <=2 user sections over a reduced domain + TLC-simulated tables with <=4 user "
             "sections and an address table + seeded random tables with <=12 sections",
        trusted_base=["TLC 1.8.0", "spec/code/Layout.tla (contract)", "harness/layout.cpp projection (run-length encoding, guard cells)"])


def replay(ctx, path):
    recs = vlib.read_ndjson(path)
    execs = vlib.split_executions(recs)
    bdir = ctx.build("plain", "layout")
    sp, tr = ctx.path("replay_script.ndjson"), ctx.path("replay_trace.ndjson")
    vlib.write_ndjson(sp, [trace_to_script(e) for e in execs])
    vlib.run_harness(ctx, bdir, "layout", ["script", sp, tr])
    execs2, rejected = validate_trace(ctx, tr, "replay", shards=1)
    classify(ctx, execs2, rejected, "replay", [])
    if not rejected:
        ctx.log("replay: accepted by the contract")
