"""C04 - relocated code addresses its absolute targets correctly at any base (see coderef_common)."""
import coderef_common
def run(ctx): coderef_common.run(ctx, "C04")
def replay(ctx, path): coderef_common.replay(ctx, path)
