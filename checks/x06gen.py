"""X06: random scenario generator for the invoke leg (Part A).  A scenario is a small structured program against the
Compiler API (see spec/comp/Invoke.tla for its meaning and harness/invoke.cpp for its translation into API calls).
Everything random derives from the seed.  The generator knows types and sizes only - no calling convention."""
import random

INT = ["i8", "u8", "i16", "u16", "i32", "u32", "i64", "u64"]
FP = ["f32", "f64"]
V16 = ["i32x4", "f32x4", "f64x2"]
V32 = ["i32x8", "f32x8"]
SIZE = {"i8": 1, "u8": 1, "i16": 2, "u16": 2, "i32": 4, "u32": 4, "i64": 8, "u64": 8, "f32": 4, "f64": 8,
        "i32x4": 16, "f32x4": 16, "f64x2": 16, "i32x8": 32, "f32x8": 32, "void": 0}
CLS = {t: ("int" if t in INT else "fp" if t in FP else "vec") for t in SIZE if t != "void"}


def kind(t):
    return (CLS[t], SIZE[t])


def limbs(rng, n, special=0.35):
    """n random 16-bit limbs (little endian), with a bias to boundary patterns."""
    c = rng.random()
    if c < special * 0.25:
        return [0] * n
    if c < special * 0.5:
        return [65535] * n
    if c < special * 0.7:
        return [rng.randrange(1, 200)] + [0] * (n - 1)
    if c < special * 0.85:
        return [0] * (n - 1) + [32768]
    if c < special:
        return [65535] * (n - 1) + [32767]
    return [rng.randrange(65536) for _ in range(n)]


def container_limbs(t, avx):
    """limbs of the container a value of type t travels in when f is entered (register width)"""
    if CLS[t] == "int":
        return 4
    if SIZE[t] == 32:
        return 16
    return 8


def sext_limbs(v, bits):
    """64-bit two's complement limbs of the sign-extended low `bits` of v"""
    v &= (1 << bits) - 1
    if v >> (bits - 1):
        v |= ((1 << 64) - 1) ^ ((1 << bits) - 1)
    return [(v >> (16 * i)) & 0xFFFF for i in range(4)]


class G:
    def __init__(self, rng, sid, prof):
        self.rng, self.id, self.p = rng, sid, prof
        self.vregs = []          # types
        self.callees = []
        self.nstk = 0
        self.stk_steps = []
        self.calls_static = 0

    # ---- virtual registers
    def new_vreg(self, t):
        self.vregs.append(t)
        return len(self.vregs)

    def pick_type(self, allow_vec=True):
        r = self.rng.random()
        p = self.p
        if allow_vec and p["vec"] and r < p["vec"]:
            if self.avx >= 1 and self.rng.random() < p.get("v32", 0.3):
                return self.rng.choice(V32)
            return self.rng.choice(V16)
        if r < p["vec"] + p["fp"]:
            return self.rng.choice(FP)
        return self.rng.choice(INT if self.rng.random() < 0.7 else ["i32", "i64", "u64", "i32"])

    def imm_step(self, t, defined):
        v = self.new_vreg(t)
        n = max(4, SIZE[t] // 2)
        st = {"op": "imm", "v": v, "val": limbs(self.rng, n)}
        if CLS[t] != "int":
            st["pool"] = self.rng.choice(["local", "global", "local"] + (["gp"] if CLS[t] == "fp" else []))
        defined.add(v)
        return st

    def of_kind(self, defined, t):
        return [v for v in sorted(defined) if kind(self.vregs[v - 1]) == kind(t)]

    # ---- callees
    def new_callee(self):
        rng, p = self.rng, self.p
        nargs = rng.choice(p["cargs"])
        theme = rng.random()
        args = []
        for _ in range(nargs):
            if theme < 0.15:
                args.append(rng.choice(["i32", "i64", "u8", "i16"]))
            elif theme < 0.3:
                args.append(rng.choice(FP))
            else:
                args.append(self.pick_type())
        ret = "void" if rng.random() < 0.15 else self.pick_type(allow_vec=rng.random() < 0.5)
        va = 255
        target = rng.choice(p["targets"])
        if p["va"] and rng.random() < p["va"] and nargs >= 1:
            if rng.random() < p.get("va_imm", 0.75):
                target = "imm"
            # C default argument promotions: no char / short / float among the variadic arguments
            va = rng.randrange(1, nargs + 1) if nargs > 1 else 1
            for j in range(va, nargs):
                if args[j] in ("i8", "u8", "i16", "u16"):
                    args[j] = "i32"
                if args[j] == "f32":
                    args[j] = "f64"
                if CLS[args[j]] == "vec":
                    args[j] = "f64"
            if target == "label":
                target = "imm"
        used = {c["thunk"] for c in self.callees}
        thunk = rng.choice([x for x in range(16) if x not in used])
        self.callees.append({"ret": ret, "args": args, "va": va, "target": target, "thunk": thunk})
        return len(self.callees)

    def invoke_steps(self, defined):
        rng = self.rng
        if not self.callees or (len(self.callees) < self.p["ncallees"] and rng.random() < 0.6):
            c = self.new_callee()
        else:
            c = rng.randrange(1, len(self.callees) + 1)
        cal = self.callees[c - 1]
        pre, args = [], []
        for t in cal["args"]:
            r = rng.random()
            cands = self.of_kind(defined, t)
            if r < 0.03:
                args.append({"k": "none", "v": 0, "val": []})
            elif CLS[t] == "int" and r < 0.22:
                bits = SIZE[t] * 8
                # an immediate operand: any 64-bit value; the callee must see its low bits
                if rng.random() < 0.5:
                    val = sext_limbs(rng.choice([0, 1, -1, 127, 128, 255, 256, -128, -129, 32767, 32768, 65535, 65536, -32768,
                                                 2**31 - 1, 2**31, 2**32 - 1, 2**32, -2**31, -2**31 - 1, 2**63 - 1, -2**63]), 64)
                else:
                    val = limbs(rng, 4)
                args.append({"k": "imm", "v": 0, "val": val})
            elif cands and r < 0.85:
                args.append({"k": "v", "v": rng.choice(cands), "val": []})
            else:
                st = self.imm_step(t, defined)
                pre.append(st)
                args.append({"k": "v", "v": st["v"], "val": []})
        ret = 0
        if cal["ret"] != "void" and rng.random() < 0.85:
            cands = self.of_kind(defined, cal["ret"])
            if cands and rng.random() < 0.5:
                ret = rng.choice(cands)
            else:
                ret = self.new_vreg(cal["ret"])
        st = {"op": "invoke", "c": c, "args": args, "ret": ret}
        self.calls_static += 1
        return pre, st, ret

    def block(self, defined, depth, budget, mult):
        """budget = number of steps; mult = how often this block runs (bounds the dynamic number of calls)"""
        rng, p = self.rng, self.p
        out = []
        while budget > 0:
            budget -= 1
            r = rng.random()
            ints = [v for v in sorted(defined) if CLS[self.vregs[v - 1]] == "int"]
            if r < p["w_invoke"] and self.dyn_calls + mult <= p["maxcalls"]:
                pre, st, ret = self.invoke_steps(defined)
                out += pre
                out.append(st)
                self.dyn_calls += mult
                if ret:
                    defined.add(ret)
                    if rng.random() < 0.5:
                        out.append({"op": "store", "slot": ret, "v": ret})
            elif r < p["w_invoke"] + 0.12:
                out.append(self.imm_step(self.pick_type(), defined))
            elif r < p["w_invoke"] + 0.20 and defined:
                a = rng.choice(sorted(defined))
                v = self.new_vreg(self.vregs[a - 1])
                out.append({"op": "mov", "v": v, "a": a})
                defined.add(v)
            elif r < p["w_invoke"] + 0.30 and ints:
                v = rng.choice(ints)
                same = [a for a in ints if self.vregs[a - 1] == self.vregs[v - 1] or kind(self.vregs[a - 1]) == kind(self.vregs[v - 1])]
                if rng.random() < 0.5 and same:
                    out.append({"op": "add", "v": v, "a": rng.choice(same)})
                else:
                    out.append({"op": "addi", "v": v, "val": sext_limbs(rng.randrange(-2**31, 2**31) if rng.random() < 0.5 else rng.randrange(-130, 130), 64)})
            elif r < p["w_invoke"] + 0.40 and defined:
                v = rng.choice(sorted(defined))
                out.append({"op": "store", "slot": v, "v": v})
            elif r < p["w_invoke"] + 0.40 + p["w_loop"] and depth < 2 and mult * 2 <= 16:
                n = rng.randrange(1, 4) if depth else rng.randrange(1, 5)
                inner = set(defined)
                body = self.block(inner, depth + 1, rng.randrange(1, 5), mult * n)
                if body:
                    out.append({"op": "loop", "n": n, "body": body})
                    defined |= inner          # the body runs at least once
            elif r < p["w_invoke"] + 0.40 + p["w_loop"] + p["w_if"] and depth < 2 and ints:
                inner = set(defined)
                body = self.block(inner, depth + 1, rng.randrange(1, 5), mult)
                if body:
                    out.append({"op": "ifnz", "v": rng.choice(ints), "body": body})
            elif r < p["w_invoke"] + 0.40 + p["w_loop"] + p["w_if"] + p.get("w_switch", 0.03) and depth < 2 and ints:
                cases = []
                for _ in range(rng.choice([2, 2, 4])):
                    inner = set(defined)
                    cases.append(self.block(inner, depth + 1, rng.randrange(0, 4), mult))
                out.append({"op": "switch", "v": rng.choice(ints), "cases": cases})
            elif r < p["w_invoke"] + 0.40 + p["w_loop"] + p["w_if"] + p.get("w_switch", 0.03) + p["w_stk"]:
                if rng.random() < 0.5 or not defined:
                    self.nstk += 1
                    st = {"op": "stk", "slot": -self.nstk, "size": rng.choice([8, 16, 32, 64, 100]), "align": rng.choice(p["aligns"])}
                    self.stk_steps.append(st)
                    out.append(st)
                else:
                    v = rng.choice(sorted(defined))
                    al = rng.choice(p["aligns"])
                    out.append({"op": "stkrt", "v": v, "align": max(al, SIZE[self.vregs[v - 1]]) if CLS[self.vregs[v - 1]] == "vec" else al})
        return out

    def scenario(self):
        rng, p = self.rng, self.p
        self.avx = rng.choice(p["avx"])
        self.dyn_calls = 0
        cfg = {"avx": self.avx, "fp": rng.randrange(2), "cleanup": rng.choice([0, 1, 2]) if self.avx else 0,
               "horder": rng.choice(["before", "after"]), "outmode": rng.choice(["fresh", "fresh", "pinned"])}
        nf = rng.choice(p["fargs"])
        fargs = [self.pick_type() for _ in range(nf)]
        fret = "void" if rng.random() < 0.15 else self.pick_type(allow_vec=rng.random() < 0.3)
        if SIZE[fret] == 32:
            cfg["cleanup"] = 0       # vzeroupper before ret (requested by the user) would clear the upper half of a ymm result
        steps, defined = [], set()
        order = list(range(1, nf + 1))
        rng.shuffle(order)
        for j in order:
            if rng.random() < 0.92:
                v = self.new_vreg(fargs[j - 1])
                steps.append({"op": "arg", "v": v, "i": j})
                defined.add(v)
        for _ in range(rng.choice(p["consts"])):
            steps.append(self.imm_step(self.pick_type(), defined))
        steps += self.block(defined, 0, rng.choice(p["steps"]), 1)
        # everything that is still alive is observed at the end
        alive = sorted(defined)
        rng.shuffle(alive)
        for v in alive:
            if rng.random() < 0.9:
                steps.append({"op": "store", "slot": v, "v": v})
        retv = 0
        if fret != "void":
            cands = self.of_kind(defined, fret)
            if cands and rng.random() < 0.9:
                retv = rng.choice(cands)
            else:
                st = self.imm_step(fret, defined)
                steps.append(st)
                retv = st["v"]
        # stack probe slots come after the per-register slots
        nv = len(self.vregs)
        for st in self.stk_steps:
            st["slot"] = nv + (-st["slot"])
        nslots = nv + self.nstk
        runs = []
        for _ in range(rng.choice(p["runs"])):
            runs.append({"args": [limbs(rng, container_limbs(t, self.avx)) for t in fargs],
                         "rets": [limbs(rng, 16, special=0.2) for _ in range(rng.randrange(1, 6))]})
        sw = 2
        for c in self.callees:
            sw = max(sw, sum(max(8, SIZE[t]) // 8 for t in c["args"]) + 4 * sum(1 for t in c["args"] if SIZE[t] >= 16) + 2)
        return {"id": self.id, "cfg": cfg, "f": {"ret": fret, "args": fargs, "va": 255}, "callees": self.callees, "vregs": self.vregs,
                "steps": steps, "retv": retv, "nslots": nslots, "stackwords": min(sw, 160), "runs": runs, "profile": p["name"]}


BASE = dict(vec=0.08, fp=0.3, v32=0.3, cargs=[0, 1, 2, 3, 4, 5, 6, 7, 8], targets=["imm", "imm", "reg", "mem", "label"], va=0.1, ncallees=3,
            w_invoke=0.3, w_loop=0.06, w_if=0.06, w_stk=0.03, aligns=[8, 16, 32, 64], avx=[0, 0, 0, 1], fargs=[0, 1, 2, 3, 4, 5, 6], consts=[0, 1, 2, 4],
            steps=[3, 5, 8, 12], runs=[1, 2, 3], maxcalls=24)
PROFILES = {
    "basic": dict(BASE),
    "stack": dict(BASE, cargs=[7, 8, 9, 10, 12, 14, 16], steps=[2, 3, 5], va=0.15),
    "fpstack": dict(BASE, fp=0.75, vec=0.05, cargs=[9, 10, 11, 12, 16], steps=[2, 3, 5]),
    "pressure": dict(BASE, consts=[8, 12, 16, 22], steps=[6, 10], cargs=[0, 1, 2, 3, 4, 6]),
    "fppressure": dict(BASE, fp=0.8, consts=[10, 16, 20], steps=[6, 10], cargs=[0, 1, 2, 3, 8]),
    "chains": dict(BASE, w_invoke=0.55, steps=[8, 12, 16], ncallees=5),
    "loops": dict(BASE, w_loop=0.25, w_invoke=0.35, steps=[6, 10, 14]),
    "conds": dict(BASE, w_if=0.25, w_invoke=0.35, steps=[6, 10, 14]),
    "switch": dict(BASE, w_switch=0.22, w_invoke=0.35, steps=[6, 10, 14]),
    "va": dict(BASE, va=1.0, fp=0.5, cargs=[1, 2, 3, 5, 8, 10, 12], targets=["imm", "reg", "mem"]),
    "targets": dict(BASE, targets=["reg", "mem", "label", "label"], ncallees=4, w_invoke=0.45),
    "dyn": dict(BASE, w_stk=0.2, aligns=[32, 64], vec=0.15, steps=[6, 10]),
    "avx": dict(BASE, avx=[1, 1, 2], vec=0.3, v32=0.6, fp=0.25, consts=[2, 6, 10]),
    "fstack": dict(BASE, fargs=[7, 9, 12, 16], steps=[3, 6], fp=0.4),
    "vec": dict(BASE, vec=0.45, fp=0.2, cargs=[1, 2, 4, 6, 9, 10], avx=[0, 0, 1]),
}


def gen(seed, n, profiles=None, first_id=1, max_avx=2):
    rng = random.Random(seed)
    names = profiles or list(PROFILES)
    res = []
    for i in range(n):
        name = names[i % len(names)]
        p = dict(PROFILES[name], name=name)
        p["avx"] = [min(a, max_avx) for a in p["avx"]]
        res.append(G(rng, first_id + i, p).scenario())
    return res


# ----------------------------------------------------------------------------------------------------------
# static cases (Part B, second half): f(fargs) { callee(permutation / duplication of f's arguments, immediates) }
# ----------------------------------------------------------------------------------------------------------
STATIC_TARGETS = [
    ("x86-sysv", ["cdecl", "stdcall", "fastcall"], ["i8", "u8", "i16", "u16", "i32", "u32", "i64", "f32", "f64"], 4),
    ("x86-win", ["cdecl", "stdcall", "fastcall"], ["i8", "u16", "i32", "u32", "i64", "f32", "f64"], 4),
    ("x64-win", ["cdecl"], ["i8", "u16", "i32", "u32", "i64", "u64", "f32", "f64"], 8),
    ("a64-aapcs", ["cdecl"], ["i32", "u32", "i64", "u64", "f32", "f64", "f32x4"], 8),
]


def gen_static(seed, n, first_id=1):
    rng = random.Random(seed * 7919 + 13)
    res = []
    for i in range(n):
        env, convs, types, regsize = STATIC_TARGETS[i % len(STATIC_TARGETS)]
        theme = rng.random()
        nc = rng.choice([0, 1, 2, 3, 4, 5, 6, 8, 9, 10, 12]) if theme < 0.8 else rng.choice([9, 10, 12, 14])
        if theme < 0.15:
            pool = [t for t in types if CLS[t] == "int"]
        elif theme < 0.3:
            pool = [t for t in types if CLS[t] != "int"] or types
        else:
            pool = types
        cargs = [rng.choice(pool) for _ in range(nc)]
        fargs, mp, imms = [], [], []
        for t in cargs:
            same = [k + 1 for k, ft in enumerate(fargs) if ft == t]
            r = rng.random()
            if CLS[t] == "int" and SIZE[t] <= regsize and r < 0.2:
                mp.append(0)
                imms.append(101 + len(imms))
            elif same and r < 0.55:
                mp.append(rng.choice(same))              # the same argument of f again
            elif len(fargs) < 14:
                fargs.append(t)
                mp.append(len(fargs))
            elif same:
                mp.append(rng.choice(same))
            else:
                mp.append(0 if CLS[t] == "int" and SIZE[t] <= regsize else 1)
                if mp[-1] == 0:
                    imms.append(101 + len(imms))
                else:
                    fargs[0] = t if len(fargs) else t
                    if not fargs:
                        fargs.append(t)
        # arguments of f that are not passed on, in random positions: the order in which f receives them is a permutation
        for _ in range(rng.choice([0, 0, 1, 2])):
            if len(fargs) < 14:
                fargs.append(rng.choice(types))
        perm = list(range(len(fargs)))
        rng.shuffle(perm)                               # new position p holds old argument perm[p]
        inv = {old: new for new, old in enumerate(perm)}
        fargs2 = [fargs[perm[p]] for p in range(len(fargs))]
        mp2 = [0 if x == 0 else inv[x - 1] + 1 for x in mp]
        # type consistency after the fix-ups above
        ok = all(x == 0 or fargs2[x - 1] == cargs[j] for j, x in enumerate(mp2))
        if not ok:
            continue
        res.append({"id": first_id + len(res), "env": env, "fconv": rng.choice(convs), "cconv": rng.choice(convs), "fargs": fargs2, "cargs": cargs,
                    "map": mp2, "imms": imms, "fp": rng.randrange(2)})
    return res


# ----------------------------------------------------------------------------------------------------------
# static cases with vector arguments passed BY REFERENCE (Win64: 16-byte vectors travel as a pointer to a temporary the
# caller makes in its call area; vectorcall: the 7th+ vector).  f receives its vectors in registers (System V, or
# vectorcall on Windows) and keeps a local with known contents live across the call.
# ----------------------------------------------------------------------------------------------------------
def gen_static_byref(first_id, full):
    res = []
    confs = [("x64-sysv", "cdecl", "x64win"), ("x64-win", "vectorcall", "cdecl")]
    n = 0
    for mask in range(1, 64):                       # which of the callee's positions 1..6 are vectors
        pos = [b for b in range(6) if mask >> b & 1]
        width = max(pos) + 1
        for ci, (env, fconv, cconv) in enumerate(confs):
            for live in ((0, 48) if full else (48,)):
                for fp in ((0, 1) if full else ((mask + ci) % 2,)):
                    vt = "f32x4" if (mask + ci) % 3 else "i32x4"
                    k = len(pos)
                    cargs, mp, imms = [], [], []
                    dup = full and mask % 5 == 0 and k >= 2          # the same vector of f twice
                    for j in range(width):
                        if j in pos:
                            cargs.append(vt)
                            q = pos.index(j) + 1
                            mp.append(1 if dup and q == k else q)
                        else:
                            cargs.append("i64" if j % 2 else "i32")
                            mp.append(0)
                            imms.append(101 + len(imms))
                    fargs = [vt] * (k - 1 if dup else k)
                    res.append({"id": first_id + n, "env": env, "fconv": fconv, "cconv": cconv, "fargs": fargs, "cargs": cargs,
                                "map": mp, "imms": imms, "fp": fp, "live": live})
                    n += 1
    # vectorcall callee: six vectors in registers, the 7th (and 8th) by reference on the stack
    for extra in (1, 2):
        for live in (0, 48):
            res.append({"id": first_id + n, "env": "x64-win", "fconv": "vectorcall", "cconv": "vectorcall", "fargs": ["f32x4"] * 6,
                        "cargs": ["f32x4"] * (6 + extra), "map": [1, 2, 3, 4, 5, 6, 1, 2][:6 + extra], "imms": [], "fp": 0, "live": live})
            n += 1
    return res
