"""C08 - Builder/Compiler serialization is byte-identical to direct assembling.

Decided by:
 (1) TLC: BuilderImpl.tla (builder.cpp's list algorithms transcribed: add_node/add_after/add_before/remove_node/
     remove_nodes/section/update_section_links/bind) refines the contract Builder.tla for every edit/emit sequence up to
     the bound; a second run with bind() transcribed as written is reported as a design-level lead only.
 (2) trace validation against the contract (BuilderTrace.tla): TLC-exported edit scripts and seeded random programs
     are executed on the real x86::Builder (x64, x86-32), a64::Builder and x86::Compiler; per call the stored node
     payload must equal the call and the real list (next-walk, prev-walk, cursor, active flags) must equal the abstract
     list; the calls serialize_to() hands over must be the recorded calls in list order; finalize() must produce the
     same section bytes, label positions, relocations and first-error position as issuing the calls, in the order of the
     abstract list, to a fresh Assembler.
"""
import json, os
import vlib
from vlib import Broken

SPEC = os.path.join(vlib.VERIF, "spec", "code")
MOD_I = os.path.join(SPEC, "BuilderImpl.tla")
MOD_T, CFG_T = os.path.join(SPEC, "BuilderTrace.tla"), os.path.join(SPEC, "BuilderTrace.cfg")

KEY_DOUBLE_BIND = "bind:label_node_already_active"

MC_TMPL = """SPECIFICATION Spec
CONSTANTS
  MaxNodes = {nodes}
  NLab = 2
  MaxOps = {ops}
  BindGuard = {guard}
{checks}
"""
CHECKS = "INVARIANTS ListRefinesSeq ContractInv SerializedIsSeq LinksExact Unlinked\nPROPERTY RefinesContract\nVIEW View"


def is_double_bind(ev):
    return (ev.get("e") == "Emit" and ev.get("r") == "Ok" and ev.get("call", {}).get("k") == "Bind" and ev.get("wasActive") is True)


def describe(ev):
    if ev.get("e") == "Emit":
        c = ev.get("call", {})
        extra = {k: c[k] for k in ("id", "n", "opt", "label", "base", "size", "type", "count", "rep", "mode", "al") if k in c}
        return f"Emit {c.get('k')} {json.dumps(extra)} r={ev.get('r')} ns={ev.get('ns')}"
    if ev.get("e") == "Finalize":
        return "Finalize " + json.dumps({k: ev[k] for k in ("order", "finOk", "perr", "errD", "errB", "errDname", "rej", "cmode", "lastIsPool", "lastLabel",
                                                           "finalPools", "dB", "dD", "dumpB", "dumpD") if k in ev})[:1100]
    if ev.get("e") in ("NewConst", "AddFunc", "EndFunc"):
        return json.dumps({k: v for k, v in ev.items() if k not in ("ps",)})[:700]
    return json.dumps({k: v for k, v in ev.items() if k != "p"})[:500]


def program_of(records, upto):
    """the call sequence of an execution, compact (for reports)"""
    out = []
    for ev in records[:upto + 1]:
        e = ev.get("e")
        if e == "Reset":
            out.append(f"[{ev.get('arch')} {ev.get('emitter')} diag={ev.get('diag')}]")
        elif e == "Emit":
            c = ev["call"]
            k = c["k"]
            if k == "Inst":
                out.append(f"inst#{c['id']}/{c['n']}ops" + ("!" if ev.get("r") != "Ok" else ""))
            elif k in ("Bind", "EmbedLabel", "ConstPool"):
                out.append(f"{k}(L{c['label']})" + ("!" if ev.get("r") != "Ok" else ""))
            else:
                out.append(k + ("!" if ev.get("r") != "Ok" else ""))
        elif e == "Section":
            out.append(f"section({ev['s']})")
        elif e in ("SetCursor", "AddNode", "RemoveNode"):
            out.append(f"{e}({ev['n']})")
        elif e in ("AddAfter", "AddBefore"):
            out.append(f"{e}({ev['n']},{ev['ref']})")
        elif e == "RemoveNodes":
            out.append(f"RemoveNodes({ev['f']},{ev['l']})")
        elif e == "NewConst":
            out.append(f"new_const({'local' if ev['scope'] == 0 else 'global'},{ev['size']}B)->[L{ev['label']}+{ev['off']}]")
        elif e == "AddFunc":
            out.append(f"add_func{ev.get('ns')}")
        elif e == "EndFunc":
            out.append(f"end_func(pool={ev.get('n')})")
        elif e in ("Serialize", "Finalize"):
            out.append(e)
    return " ".join(out)


def judge_trace(ctx, tag, path):
    """Validate one recorded trace file.  Executions that contain the double-bind pattern are validated up to (not
    including) that call together with the others; a few of them are validated whole to decide the pattern itself."""
    recs = vlib.read_ndjson(path)
    execs = vlib.split_executions(recs)
    main, suspects = [], []
    for e in execs:
        cut = next((i for i, ev in enumerate(e) if is_double_bind(ev)), None)
        if cut is None:
            main.append(e)
        else:
            suspects.append((e, cut))
            main.append(e[:cut])
    for e in execs:
        last_p = None
        for ev in e:
            k = ev.get("e")
            if k == "Emit":
                c = ev["call"]
                if c["k"] == "Inst":
                    ctx.distinct.add(("I", c["id"], c["n"], tuple(c["opt"]), tuple(c["xr"]), c["hc"], ev["r"] == "Ok"))
                else:
                    ctx.distinct.add((c["k"], c.get("size"), c.get("type"), c.get("rep"), c.get("mode"), c.get("al"), ev["r"] == "Ok"))
            elif k in ("SetCursor", "AddNode", "AddAfter", "AddBefore", "RemoveNode", "RemoveNodes", "Section"):
                p = ev.get("p", {})
                pos = p.get("fwd", []).index(p["cur"]) if p.get("cur") in p.get("fwd", []) else -1
                ctx.distinct.add((k, len(p.get("fwd", [])), pos))
            elif k == "Finalize":
                p = last_p or {}
                pos = p.get("fwd", []).index(p["cur"]) if p.get("cur") in p.get("fwd", []) else -1
                ctx.distinct.add(("F", ev.get("finOk"), ev.get("rej"), min(ev.get("errD", 0), 1), len(ev.get("order", [])), ev.get("cmode"),
                                  len(ev.get("finalPools", [])), pos if ev.get("cmode") else None))
            elif k == "NewConst":
                ctx.distinct.add(("NC", ev.get("scope"), ev.get("size"), ev.get("off")))
            elif k in ("AddFunc", "EndFunc"):
                p = ev.get("p", {})
                pos = p.get("fwd", []).index(p["cur"]) if p.get("cur") in p.get("fwd", []) else -1
                ctx.distinct.add((k, len(p.get("fwd", [])), pos, ev.get("n", 0) != 0))
            if "p" in ev:
                last_p = ev["p"]
    mp = ctx.path(f"{tag}_main.ndjson")
    vlib.write_ndjson(mp, [r for e in main for r in e])
    rej = vlib.validate_executions(ctx, MOD_T, CFG_T, mp, tag=tag, timeout=2400, heap="8g", max_rejects=6)
    for x in rej:
        bad = x["records"][x["index"]] if x["index"] < len(x["records"]) else {"e": "END-OF-TRACE (truncated/aborted)"}
        ctx.violation(f"{tag}: trace rejected at event {x['index']}: {describe(bad)} inv={x['inv']} | program: {program_of(x['records'], x['index'])[:700]}", x["path"])
    # the double-bind pattern
    suspects.sort(key=lambda t: len(t[0]))
    for n, (e, cut) in enumerate(suspects[:2]):
        sp = ctx.path(f"{tag}_doublebind_{n}.ndjson")
        vlib.write_ndjson(sp, e)
        ok, maxl, r = vlib.validate_trace_file(ctx, MOD_T, CFG_T, sp, tag=f"{tag}db{n}")
        if ok:
            ctx.traces += 1
            continue
        what = (f"BaseBuilder::bind() of a label whose LabelNode is already part of the code returns Ok and re-links the active node "
                f"(list after the call: next-walk {e[cut]['p']['fwd'][:12]}, prev-walk {e[cut]['p']['bwd'][:12]}) while the Assembler reports LabelAlreadyBound; "
                f"{len(suspects)} execution(s) in {tag}, smallest: {program_of(e, cut)[:300]} ({sp})")
        if maxl - 1 == cut and KEY_DOUBLE_BIND in ctx.known:
            if n == 0:
                ctx.known_finding(KEY_DOUBLE_BIND, what)
        else:
            ctx.violation(f"{tag}: trace rejected at event {maxl - 1}: {describe(e[min(maxl - 1, len(e) - 1)])} | {what if maxl - 1 == cut else program_of(e, maxl - 1)[:500]}", sp)
    if len(recs) > 4:
        ctx.add_sample({"source": tag, "events": [{k: v for k, v in ev.items() if k != "p"} for ev in recs[1:3]]})
    return len(recs), len(execs), len(suspects)


def run(ctx):
    q = ctx.quick
    bdir = ctx.build("asan", "builder")
    # ---- 1. design level: the transcribed list algorithms refine the contract ----
    for nodes, ops in ([(5, 6)] if q else [(6, 6), (5, 7)]):
        cfg = ctx.path(f"mc_{nodes}_{ops}.cfg")
        open(cfg, "w").write(MC_TMPL.format(nodes=nodes, ops=ops, guard="TRUE", checks=CHECKS))
        r = vlib.run_tlc(ctx, MOD_I, cfg, workers=16, timeout=3000, heap="16g", tag=f"design_{nodes}_{ops}")
        vlib.tlc_must_ok(ctx, r, "design (BuilderImpl => Builder)")
        ctx.log(f"design: nodes<={nodes} ops<={ops}: {r.distinct} distinct states; list algorithms refine the contract (bind guarded)")
    ctx.extra["design_states"] = ctx.states
    cfg = ctx.path("mc_asis.cfg")
    open(cfg, "w").write(MC_TMPL.format(nodes=4, ops=4, guard="FALSE", checks=CHECKS))
    r = vlib.run_tlc(ctx, MOD_I, cfg, workers=4, timeout=600, tag="design_asis")
    if r.kind == "violation":
        ctx.log(f"design lead (not a verdict): bind() transcribed as written violates {r.violated} - decided on the real code below")
        ctx.extra["design_lead_bind_as_written"] = f"violates {r.violated}"
    elif r.kind != "ok":
        raise Broken("as-written design run failed: " + r.out[-800:])

    # ---- 2. model behaviours -> edit scripts for the real emitters ----
    scripts = []
    cfg = ctx.path("beh.cfg")
    open(cfg, "w").write(MC_TMPL.format(nodes=4, ops=3, guard="TRUE", checks="INVARIANT Export"))
    r = vlib.run_tlc(ctx, MOD_I, cfg, workers=8, timeout=900, tag="beh3")
    vlib.tlc_must_ok(ctx, r, "behaviour export depth 3")
    scripts += vlib.parse_beh(r.out)
    nsim = 600 if q else 12000
    for depth, nn in ((7, 6), (10, 6)):
        cfg = ctx.path(f"sim{depth}.cfg")
        open(cfg, "w").write(MC_TMPL.format(nodes=nn, ops=depth, guard="TRUE", checks="INVARIANT Export"))
        r = vlib.run_tlc(ctx, MOD_I, cfg, workers=4, timeout=1500, tag=f"sim{depth}", simulate=nsim // 8, depth=depth + 1, seed=ctx.seed)
        if r.kind != "ok":
            raise Broken("simulation export failed: " + r.out[-800:])
        scripts += vlib.parse_beh(r.out)
    uniq = sorted({json.dumps(s) for s in scripts})
    scripts = [json.loads(s) for s in uniq]
    ctx.log(f"{len(scripts)} distinct model behaviours exported as edit scripts")
    ctx.extra["scripts"] = len(scripts)
    sp = ctx.path("scripts.ndjson")
    vlib.write_ndjson(sp, [{"ops": s} for s in scripts])
    traces = []
    tr = ctx.path("trace_scripts.ndjson")
    vlib.record_trace(ctx, bdir, "builder", ["script", sp, tr], tr, timeout=1200, env={"VERIF_SEED": ctx.seed})
    traces.append(("scripts", tr))
    # ---- 3. random programs ----
    # (thorough: several chunks with their own seeds, so that one TLC run never has to load more than ~10 MB of JSON)
    nchunks, nexec, steps = (1, 700, 40) if q else (8, 1000, 60)
    for i in range(nchunks):
        tag = "random" if nchunks == 1 else f"random{i}"
        tr2 = ctx.path(f"trace_{tag}.ndjson")
        vlib.record_trace(ctx, bdir, "builder", ["random", tr2, nexec, steps], tr2, timeout=2400,
                          env={"VERIF_SEED": ctx.seed if nchunks == 1 else ctx.seed * 1000 + i})
        traces.append((tag, tr2))
    # ---- 3b. Compiler programs: functions, local/global constant pools, cursor anywhere at end_func / finalize ----
    nchunks, nexec, steps = (1, 500, 30) if q else (4, 1000, 40)
    for i in range(nchunks):
        tag = "cpool" if nchunks == 1 else f"cpool{i}"
        tr3 = ctx.path(f"trace_{tag}.ndjson")
        vlib.record_trace(ctx, bdir, "builder", ["cpool", tr3, nexec, steps], tr3, timeout=2400,
                          env={"VERIF_SEED": ctx.seed if nchunks == 1 else ctx.seed * 1000 + 500 + i})
        traces.append((tag, tr3))
    # ---- 4. validation ----
    nrec = 0
    for tag, path in traces:
        n, ne, ns = judge_trace(ctx, tag, path)
        nrec += n
        ctx.log(f"{tag}: {n} events in {ne} executions ({ns} with a bind of an active label node) validated")
    ctx.evaluations = nrec
    ctx.assumptions += [
        "digest = section bytes + label (section, offset) + relocation entries (type, format, source/target section, offset, payload or expression) + unresolved fixup count",
        "errors are compared at program level: position of the first refused call and everything produced before it; error codes are not compared",
        "a call the Builder refuses when it is recorded ends the program; the direct run issues it after the recorded calls",
        "the node list is never emptied and the initial .text section node may be moved but finalize()/section() are only called on a non-empty list",
        "Compiler is used with physical registers only; in the cpool programs functions are void(void), contain no control-flow instructions and no code is "
        "placed between an exit label and its end sentinel; the direct run emits emit_prolog/emit_epilog with the frame the real FuncNode ended up with",
        "constant pools: the direct run issues embed_const_pool(label, pool) at the pool node's place of the abstract list (local, next to the end sentinel) and "
        "after the last node (global), pools rebuilt with the same add order; a function is never the very first node of the list",
        "ASan/UBSan build is the environment; an abort truncates the trace and the ABORT line is rejected",
        "empty inline comments are not generated (the node stores no comment for an empty string)"]
    vlib.write_evidence(ctx, "model_checking",
        rule="events = emitter/editing/serialize/finalize calls executed on the real Builder/Compiler; distinct = distinct (instruction id, operand count, "
             "options, extra reg, comment, outcome) calls + (edit kind, list length, cursor position) edits + finalize outcome classes; histories = all model "
             "behaviours of depth 3 + TLC-simulated edit scripts of depth 7 and 10 over <=6 nodes + seeded random programs on x64/x86/a64 Builder and x86 Compiler",
        trusted_base=["TLC 1.8.0", "spec/code/Builder.tla (contract)", "harness/builder.cpp (projection of the node list, payload reader, digest, direct run)"])


def replay(ctx, path):
    ok, maxl, r = vlib.validate_trace_file(ctx, MOD_T, CFG_T, path)
    if not ok:
        recs = vlib.read_ndjson(path)
        ev = recs[min(maxl - 1, len(recs) - 1)]
        if is_double_bind(ev) and KEY_DOUBLE_BIND in ctx.known:
            ctx.known_finding(KEY_DOUBLE_BIND, f"recorded trace rejected at line {maxl}: {describe(ev)}")
        else:
            ctx.violation(f"recorded trace rejected at line {maxl}: {describe(ev)} (re-record with tools/check C08 for the current tree)", path)
