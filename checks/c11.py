"""C11 - thread safety of JitAllocator/JitRuntime and independence of code generation.
Decided by: (1) TLC on JitAllocConc.tla: all interleavings of the lock protocol with a non-atomic critical section
(mutual exclusion, no overlap, exact counters, linearizable statistics, liveness under fairness; negative control
without the lock must fail); (2) trace validation of real multi-threaded runs (hook H3 emits lock events under
the lock): lock protocol + the operations in lock order must be a behaviour of the sequential contract JitAlloc
with the results the threads observed; (3) independent generation: concurrent output = solo output.
TSan build is an additional environment (a report aborts the run => truncated trace => rejection)."""
import json, os
import vlib
from vlib import Broken

SPEC = os.path.join(vlib.VERIF, "spec", "alloc")
MOD, CFG = os.path.join(SPEC, "JitAllocConcTrace.tla"), os.path.join(SPEC, "JitAllocConcTrace.cfg")


def run(ctx):
    q = ctx.quick
    # ---- design ----
    m = os.path.join(SPEC, "JitAllocConc.tla")
    mc = open(os.path.join(SPEC, "JitAllocConcMC.cfg")).read()
    if not q:
        mc = mc.replace("Threads = {1, 2}", "Threads = {1, 2, 3}").replace("OpsPerThread = 2", "OpsPerThread = 2").replace("G = 4", "G = 4")
    cfg = ctx.path("mc.cfg"); open(cfg, "w").write(mc)
    r = vlib.run_tlc(ctx, m, cfg, workers=16, timeout=3000, heap="16g", tag="design")
    vlib.tlc_must_ok(ctx, r, "design (lock protocol)")
    ctx.log(f"design: {r.distinct} states, MutexOK/NoOverlap/UsedIsUnion/CountExact/StatsLinearizable hold")
    r = vlib.run_tlc(ctx, m, os.path.join(SPEC, "JitAllocConcLive.cfg"), workers=8, timeout=900, tag="live")
    vlib.tlc_must_ok(ctx, r, "liveness under weak fairness")
    r = vlib.run_tlc(ctx, m, os.path.join(SPEC, "JitAllocConcNeg.cfg"), workers=8, timeout=900, tag="neg")
    if r.kind != "violation":
        raise Broken("negative control (no lock) did not violate NoOverlap - the design model is vacuous")
    ctx.log("negative control (UseLock = FALSE) violates NoOverlap as expected")
    ctx.extra["design_states"] = ctx.states

    # ---- real executions ----
    runs = []
    flavours = ["plain"] + (["tsan"] if True else [])
    plans = [(2, 10, 300), (4, 8, 250), (8, 5, 200), (16, 3, 150)] if q else [(2, 40, 2000), (3, 30, 1500), (4, 30, 1500), (8, 20, 800), (16, 12, 500)]
    for fl in flavours:
        bdir = ctx.build(fl, "jitconc")
        for (nt, nexec, nops) in (plans if fl == "plain" else plans[1:3]):
            tr = ctx.path(f"trace_{fl}_{nt}.ndjson")
            env = {"VERIF_SEED": ctx.seed + nt, "TSAN_OPTIONS": "halt_on_error=1:exitcode=66:report_signal_unsafe=0"}
            vlib.record_trace(ctx, bdir, "jitconc", ["alloc", tr, nexec, nt, nops], tr, timeout=1800, env=env)
            runs.append((f"{fl}-{nt}thr", tr))
        tg = ctx.path(f"trace_{fl}_gen.ndjson")
        vlib.record_trace(ctx, bdir, "jitconc", ["gen", tg, 3 if q else 20, 8], tg, timeout=1800,
                          env={"VERIF_SEED": ctx.seed, "TSAN_OPTIONS": "halt_on_error=1:exitcode=66"})
        runs.append((f"{fl}-gen", tg))
        if fl == "plain":
            # cold start: threads racing on the first use of the host information (forked children, see harness)
            tc = ctx.path(f"trace_{fl}_cold.ndjson")
            vlib.record_trace(ctx, bdir, "jitconc", ["cold", tc, 150 if q else 2000, 8], tc, timeout=1800, env={"VERIF_SEED": ctx.seed})
            runs.append((f"{fl}-cold", tc))
    nrec = 0
    for tag, path in runs:
        recs = vlib.read_ndjson(path)
        nrec += len(recs)
        for rec in recs:
            if rec.get("e") == "Call":
                ctx.distinct.add((rec["op"], rec.get("req", rec.get("n", rec.get("trunc"))), rec.get("r"), rec.get("ncs")))
            elif rec.get("e") == "Gen":
                ctx.distinct.add(("Gen", rec["prog"], rec["seed"]))
        rej = vlib.validate_executions(ctx, MOD, CFG, path, tag=tag, timeout=2400, heap="8g")
        for x in rej:
            bad = x["records"][x["index"]] if x["index"] < len(x["records"]) else {"e": "END-OF-TRACE"}
            ctx.violation(f"[{tag}] trace rejected at event {x['index']}: {json.dumps(bad)[:400]}", x["path"])
        if len(recs) > 6:
            ctx.add_sample({"source": tag, "events": recs[1:6]})
    ctx.evaluations = nrec
    ctx.assumptions += ["lock events come from hook H3 in Lock::lock/unlock (emitted while the lock is held, sequence number taken under it)",
                        "call/return events are per-thread; the merge respects per-thread order and lock order only (no wall clock)",
                        "memory-level races that no hook observes are visible only through the TSan environment",
                        "host information (CpuInfo::host, VirtMem::info) is initialised before the threads start (the property's premise) in all legs but 'cold', "
                        "which lets 8 threads of a fresh process race on its first use (plain build only: the tree initialises it with a same-value race)"]
    vlib.write_evidence(ctx, "model_checking",
        rule="events = Call/Acq/Rel/Ret events of 2..16 real threads on one JitRuntime/JitAllocator (+ Gen comparisons); "
             "distinct = distinct (operation, size, result, #critical sections) tuples and generated programs",
        trusted_base=["TLC 1.8.0", "spec/alloc/JitAlloc.tla + JitAllocConcTrace.tla", "harness/jitconc.cpp (merge of lock-ordered and thread-ordered events)", "hook H3"])


def replay(ctx, path):
    ok, maxl, r = vlib.validate_trace_file(ctx, MOD, CFG, path)
    if not ok:
        ctx.violation(f"recorded trace rejected at line {maxl}", path)
