"""C05 - register allocation preserves the meaning of Compiler programs.

Leg 2 (execution):  spec/machine/RegAllocProg.tla (TLC, simulation + small exhaustive enumeration) generates well-defined
  programs of a virtual-register language and interprets them;  harness/regalloc `run` builds each with x86::Compiler,
  JIT-runs it on the host;  spec/machine/RegAllocProgObs.tla (TLC, pointwise, interpreter as Next) decides
  observed = expected for (return value, memory, call log) on every input.
Leg 1 (translation validation):  harness/regalloc `record` writes the node list before/after run_passes() for x86-64,
  x86-32 and AArch64;  spec/machine/RegAlloc.tla explores (pc, location map) and rejects a function in which some use
  does not see its value.

A rejected case is re-run on the tree with ONE proposed fix applied (FIXES below; only for keys listed in
KNOWN_FINDINGS.txt): if exactly that repair makes the case pass it is reported as KNOWN-FINDING under that key, otherwise it
is a VIOLATION.  The proposed diffs are written to out/C05/proposed_fix_<n>.diff on every run.
"""
import json, os, re, shutil, subprocess, hashlib, time
import vlib
from vlib import Broken
import c05_tv

SPEC = os.path.join(vlib.VERIF, "spec", "machine")
GEN = os.path.join(SPEC, "RegAllocProg.tla")
OBS = os.path.join(SPEC, "RegAllocProgObs.tla")
OBSCFG = os.path.join(SPEC, "RegAllocProgObs.cfg")
TV = os.path.join(SPEC, "RegAlloc.tla")
TVCFG = os.path.join(SPEC, "RegAlloc.cfg")

ALL_SK = ["straight", "diamond", "loop2", "irreducible", "jtab", "jtabloop", "nested", "hdrloop"]
LOOP_SK = ["loop2", "irreducible", "jtabloop", "nested", "hdrloop"]
ALL_HZ = ["plain", "fixed", "calls", "mem", "all"]


def tla_set(xs):
    return "{" + ", ".join(json.dumps(x) if isinstance(x, str) else str(x) for x in xs) + "}"


def gen_cfg(ctx, name, pset, sks, hzs, blen, randomized, qset=(0,), wset=(0,)):
    p = ctx.path(name)
    open(p, "w").write(
        "SPECIFICATION Spec\nCONSTANTS\n  JAnn = {TRUE, FALSE}\n  TSet = {0, 1, 2, 3, 4, 5}\n"
        f"  PSet = {tla_set(pset)}\n  QSet = {tla_set(qset)}\n  WSet = {tla_set(wset)}\n  Skeletons = {tla_set(sks)}\n  Hazards = {tla_set(hzs)}\n"
        f"  BlockLen = {blen}\n  Randomized = {'TRUE' if randomized else 'FALSE'}\n"
        "INVARIANTS WellDefined Export\n")
    return p


# ----------------------------------------------------------------------------------------------------------
# proposed fixes = identity of the known findings (see module doc)
# ----------------------------------------------------------------------------------------------------------
FIXES = {}   # key -> {"n": int, "diff": str}     (filled below by fix())


def fix(key, n, diff):
    FIXES[key] = {"n": n, "diff": diff.lstrip("\n")}


fix("x86:cmpxchg-accumulator-not-written", 1, r"""
--- a/asmjit/x86/x86instdb.cpp
+++ b/asmjit/x86/x86instdb.cpp
@@ -5814,7 +5814,7 @@ const InstDB::RWInfo InstDB::rw_info_b_table[] = {
   { InstDB::RWInfo::kCategoryGeneric   , 0 , { 2 , 2 , 3 , 0 , 0 , 0  } }, // #13 [ref=16x]
   { InstDB::RWInfo::kCategoryGeneric   , 4 , { 6 , 7 , 0 , 0 , 0 , 0  } }, // #14 [ref=1x]
   { InstDB::RWInfo::kCategoryGeneric   , 5 , { 8 , 9 , 0 , 0 , 0 , 0  } }, // #15 [ref=1x]
-  { InstDB::RWInfo::kCategoryGeneric   , 11, { 2 , 3 , 22, 0 , 0 , 0  } }, // #16 [ref=1x]
+  { InstDB::RWInfo::kCategoryGeneric   , 11, { 2 , 3 , 42, 0 , 0 , 0  } }, // #16 [ref=1x]
   { InstDB::RWInfo::kCategoryGeneric   , 15, { 4 , 23, 18, 24, 25, 0  } }, // #17 [ref=1x]
   { InstDB::RWInfo::kCategoryGeneric   , 12, { 26, 27, 28, 29, 30, 0  } }, // #18 [ref=1x]
   { InstDB::RWInfo::kCategoryGeneric   , 0 , { 28, 31, 32, 16, 0 , 0  } }, // #19 [ref=1x]
""")


fix("ra:consecutive-out-overwrites-live-register", 2, r"""
--- a/asmjit/core/ralocal.cpp
+++ b/asmjit/core/ralocal.cpp
@@ -991,6 +991,13 @@ Error RALocalAllocator::alloc_instruction(InstNode* node) noexcept {
             uint32_t consecutive_index = best_lead_reg + i;
             RATiedReg* tied_reg = consecutive_regs[i];
             tied_reg->set_out_id(consecutive_index);
+
+            // The chosen register may still hold a live value - it must be spilled before it's overwritten.
+            RAWorkId occupant_id = _cur_assignment.phys_to_work_id(group, consecutive_index);
+            if (occupant_id != kBadWorkId) {
+              ASMJIT_PROPAGATE(on_spill_reg(group, work_reg_by_id(occupant_id), occupant_id, consecutive_index));
+              live_regs &= ~Support::bit_mask<RegMask>(consecutive_index);
+            }
           }
         }
       }
""")


fix("ra:reg-to-mem-narrow-write", 3, r"""
--- a/asmjit/core/ralocal.cpp
+++ b/asmjit/core/ralocal.cpp
@@ -635,7 +635,9 @@ Error RALocalAllocator::alloc_instruction(InstNode* node) noexcept {
             uint32_t op_index = Support::ctz(tied_reg->use_rewrite_mask()) / uint32_t(sizeof(Operand) / sizeof(uint32_t));
             uint32_t rm_size = tied_reg->rm_size();
 
-            if (rm_size <= work_reg->virt_reg()->virt_size()) {
+            // A written operand can only be patched when the memory form writes the whole register - a narrower
+            // write to a register may extend (X86 32-bit writes zero the upper half), the same write to memory doesn't.
+            if (rm_size <= work_reg->virt_reg()->virt_size() && (!tied_reg->is_write() || rm_size == work_reg->virt_reg()->virt_size())) {
               Operand& op = node->operands()[op_index];
               op = _pass.work_reg_as_mem(work_reg);
 
""")


def write_fixes(ctx):
    for key, f in FIXES.items():
        open(ctx.path(f"proposed_fix_{f['n']}.diff"), "w").write(f["diff"])


def keep(ctx, path):
    """copy a replay file to out/C05_replay (tools/check wipes out/C05 at start-up, also for --replay)"""
    d = os.path.join(vlib.VERIF, "out", ctx.pid + "_replay")
    os.makedirs(d, exist_ok=True)
    dst = os.path.join(d, os.path.basename(path))
    try:
        shutil.copy(path, dst)
        return dst
    except Exception:
        return path


def repo_dir():
    return os.environ.get("VERIF_REPO", "/repo")


_variant_cache = {}


def variant_binary(ctx, bdir, keys):
    """regalloc binary = tree under test + the proposed fixes `keys` (patched translation units are compiled and linked in
    front of libasmjit.a).  Returns path or None when a patch does not apply / compile."""
    keys = tuple(sorted(keys))
    if keys in _variant_cache:
        return _variant_cache[keys]
    tag = hashlib.sha1(("|".join(keys)).encode()).hexdigest()[:10]
    vdir = ctx.path("variant_" + tag)
    shutil.rmtree(vdir, ignore_errors=True)
    os.makedirs(vdir)
    repo = repo_dir()
    files = set()
    for k in keys:
        files |= set(re.findall(r"^\+\+\+ b/(\S+)", FIXES[k]["diff"], re.M))
    res = None
    try:
        for f in files:
            os.makedirs(os.path.dirname(os.path.join(vdir, f)), exist_ok=True)
            shutil.copy(os.path.join(repo, f), os.path.join(vdir, f))
        for k in keys:
            dp = os.path.join(vdir, "fix.diff")
            open(dp, "w").write(FIXES[k]["diff"])
            p = subprocess.run(["patch", "-p1", "-s", "-i", dp], cwd=vdir, capture_output=True, text=True)
            if p.returncode != 0:
                rv = subprocess.run(["patch", "-p1", "-s", "-R", "--dry-run", "-i", dp], cwd=vdir, capture_output=True, text=True)
                raise RuntimeError("already applied in this tree" if rv.returncode == 0 else "patch does not apply: " + p.stdout[-200:])
        ninja = open(os.path.join(bdir, "build.ninja")).read()
        cxx = re.search(r"^cxx = (.*)$", ninja, re.M).group(1)
        cflags = re.search(r"^cflags = (.*)$", ninja, re.M).group(1)
        ldflags = re.search(r"^ldflags = (.*)$", ninja, re.M).group(1)
        objs = []
        procs = []
        for f in files:
            if not f.endswith(".cpp"):
                continue
            o = os.path.join(vdir, f.replace("/", "_") + ".o")
            objs.append(o)
            # headers of the patched copy first, then the tree
            procs.append(subprocess.Popen(f"{cxx} -I{vdir} {cflags} -c {os.path.join(vdir, f)} -o {o}", shell=True,
                                          stdout=subprocess.PIPE, stderr=subprocess.STDOUT, text=True))
        hdr_only = any(not f.endswith(".cpp") for f in files)
        if hdr_only:
            raise RuntimeError("header patches need a full rebuild (not supported by the quick classifier)")
        for pr in procs:
            out, _ = pr.communicate()
            if pr.returncode != 0:
                raise RuntimeError("compile failed: " + out[-400:])
        exe = os.path.join(vdir, "regalloc")
        cmd = f"{cxx} {os.path.join(bdir, 'h', 'regalloc.o')} {' '.join(objs)} {os.path.join(bdir, 'libasmjit.a')} -o {exe} {ldflags}"
        p = subprocess.run(cmd, shell=True, capture_output=True, text=True)
        if p.returncode != 0:
            raise RuntimeError("link failed: " + (p.stdout + p.stderr)[-400:])
        res = exe
    except Exception as e:      # a repair that cannot be applied explains nothing
        ctx.log(f"variant {keys}: {e}")
        res = None
    _variant_cache[keys] = res
    return res


# ----------------------------------------------------------------------------------------------------------
# Leg 2
# ----------------------------------------------------------------------------------------------------------
def export_programs(ctx, r, first_id):
    recs = []
    for n, b in enumerate(vlib.parse_beh(r.out, "PROG")):
        meta, prog, inputs, res = b
        recs.append({"id": first_id + n, "meta": meta, "prog": prog, "inputs": inputs})
    return recs


def run_obs(ctx, exe, progs_path, obs_path, timeout=900):
    p = subprocess.run([exe, "run", progs_path, obs_path], capture_output=True, text=True, timeout=timeout)
    if p.returncode != 0:
        raise Broken(f"regalloc run failed rc={p.returncode}: {p.stderr[-400:]}")


def judge_obs(ctx, obs_path, mode, tag, workers=8, timeout=1500):
    """TLC over the observation file.  Returns (tlc result, list of mismatching program ids)."""
    r = vlib.run_tlc(ctx, OBS, OBSCFG, workers=workers, timeout=timeout, heap="6g", tag=tag,
                     env={"OBS": obs_path, "MODE": mode})
    if r.kind == "violation" and r.violated == "WellDefined":
        raise Broken("an ill-defined program reached the code (generator bug)\n" + r.out[-1200:])
    if mode == "report":
        if r.kind != "ok":
            raise Broken(f"TLC (observations, report mode) kind={r.kind} rc={r.rc}\n" + "\n".join(r.out.splitlines()[-30:]))
        bad = [m[0] for m in vlib.parse_beh(r.out, "MISMATCH")]
        return r, bad
    if r.kind == "ok":
        return r, []
    if r.kind == "violation" and r.violated == "ObservedEqualsExpected":
        return r, [-1]
    raise Broken(f"TLC (observations, strict) kind={r.kind} rc={r.rc}\n" + "\n".join(r.out.splitlines()[-30:]))


def strict_single(ctx, exe, rec, tag):
    """Re-execute one program with `exe` and let TLC decide strictly.  Returns True iff observed = expected."""
    pp, op = ctx.path(f"{tag}.prog.ndjson"), ctx.path(f"{tag}.obs.ndjson")
    vlib.write_ndjson(pp, [{k: rec[k] for k in ("id", "meta", "prog", "inputs")}])
    run_obs(ctx, exe, pp, op)
    r, bad = judge_obs(ctx, op, "strict", tag, workers=1, timeout=600)
    return not bad, op


def leg2(ctx, bdir):
    q = ctx.quick
    exe = os.path.join(bdir, "regalloc")
    progs = []
    # (a) exhaustive enumeration: every straight-line program of 2 block instructions over 3 registers from the
    #     fixed-register mix is generated (Randomized = FALSE), i.e. all pairs of hazards x operand permutations
    cfg = gen_cfg(ctx, "gen_exh.cfg", [3], ["tiny"], ["exh"], 2, False)
    if not q:
        r = vlib.run_tlc(ctx, GEN, cfg, workers=8, timeout=1500, heap="6g", tag="gen_exh")
        vlib.tlc_must_ok(ctx, r, "program enumeration (exhaustive)")
        progs += export_programs(ctx, r, 1)
        ctx.log(f"exhaustive enumeration: {len(progs)} programs, {r.distinct} states")
    # (b) simulation: skeleton x pressure x hazard mix
    # (name, GP pressures, block length, programs, vector pressures, 64-bit register counts, skeletons)
    plan = [
        ("lo", list(range(1, 15)), 6, 44 if q else 500, (0,), (0,), ALL_SK),
        ("mid", list(range(12, 41)), 5, 48 if q else 700, (0,), (0,), ALL_SK),
        ("vec", [3, 6, 10, 14, 20], 5, 40 if q else 600, (4, 10, 15, 17, 20, 30, 40), (0,), ALL_SK),
        # 64-bit registers with mixed-width writes (32-bit writes zero-extend, 8/16-bit writes do not) under GP pressure
        ("wide", [5, 8, 11, 14, 20], 6, 48 if q else 600, (0,), (3, 5, 8, 12, 16), ALL_SK),
        # more than 64 block-crossing registers (multi-word live sets) in loops with multi-block bodies, incl. registers
        # that are read only in the loop header
        ("hdr", [66, 72, 90, 110, 130], 4, 12 if q else 120, (0,), (0, 4), ["hdrloop"]),
        ("hi", [70, 85, 100, 130], 4, 16 if q else 150, (0,), (0,), LOOP_SK + ["diamond", "jtab"]),
        # indirect jumps in every operand shape (jmp r / [b] / [b+i*W] / [b+i*W+d] / [label+i*W] / table on the stack),
        # annotated and not; base and index are distinct long-lived registers
        ("jt", [3, 5, 8, 12, 15, 20, 30, 40], 4, 28 if q else 400, (0,), (0, 4), ["jtab", "jtabloop"]),
        # register SWAPS: few 32-bit and many 64-bit registers (TypeIds kInt64/kUInt64/kIntPtr/kUIntPtr by type salt) with
        # non-zero upper halves in small loops / diamonds whose bodies pin values to CL, rdx:rax, argument and return registers
        # AVX-512 frame with 24..28 live xmm/ymm registers: VEX vpand/vpandn/vpor/vpxor/vmovdqa/vmovdqu whose operands land in
        # registers 16..31 are rewritten to their EVEX twins by the allocator
        ("avx", [3, 5], 8, 24 if q else 300, (24, 26, 28), (0,), ["straight", "diamond", "loop2", "nested", "hdrloop"]),
        ("swap", [3, 4], 3, 56 if q else 400, (0,), (5, 6, 7, 8, 9), ["swapl", "swapl", "swapd"]),
    ]
    if not q:
        plan.append(("vhi", [48, 64, 96, 160, 200], 6, 120, (0, 24), (0, 6), ALL_SK))
    for name, pset, blen, num, qset, wset, sks in plan:
        cfg = gen_cfg(ctx, f"gen_{name}.cfg", pset, sks, ["fixed", "calls", "all"] if name == "swap" else ["plain", "mem", "fixed"] if name == "avx" else ALL_HZ, blen, True, qset, wset)
        workers = 4
        r = vlib.run_tlc(ctx, GEN, cfg, workers=workers, timeout=600, heap="4g", tag=f"gen_{name}",
                         simulate=max(1, num // workers), depth=6000, seed=ctx.seed)
        if r.kind != "ok" or "StackOverflowError" in r.out:
            raise Broken(f"program generation ({name}) kind={r.kind} violated={r.violated}\n" + "\n".join(r.out.splitlines()[-25:]))
        m = re.search(r"The number of states generated: (\d+)", r.out)
        r.generated = int(m.group(1)) if m else 0
        ctx.transitions += r.generated
        got = export_programs(ctx, r, len(progs) + 1)
        progs += got
        ctx.log(f"simulation {name}: {len(got)} programs generated and interpreted by TLC ({r.generated} states)")
    # de-duplicate
    seen, uniq = set(), []
    for p in progs:
        k = json.dumps(p["prog"])
        if k not in seen:
            seen.add(k)
            uniq.append(p)
    progs = uniq
    for n, p in enumerate(progs):
        p["id"] = n + 1
    pp, op = ctx.path("leg2_programs.ndjson"), ctx.path("leg2_obs.ndjson")
    vlib.write_ndjson(pp, progs)
    run_obs(ctx, exe, pp, op)
    obs = vlib.read_ndjson(op)
    st = {}
    for o in obs:
        st[o.get("status")] = st.get(o.get("status"), 0) + 1
    ctx.log(f"leg 2: {len(obs)} programs executed on the host: {st}")
    r, bad = judge_obs(ctx, op, "report", "obs", workers=8)
    ctx.states += r.distinct
    ctx.transitions += r.generated
    ninputs = sum(len(p["inputs"]) for p in progs)
    ctx.evaluations += ninputs
    for p in progs:
        ctx.distinct.add(("leg2", p["meta"][0], p["meta"][1], p["meta"][2], vlib.digest(p["prog"])))
    byid = {p["id"]: p for p in progs}
    obsid = {o["id"]: o for o in obs}
    ctx.log(f"leg 2: TLC compared {ninputs} (program,input) observations, {len(bad)} programs disagree")
    ctx.extra["leg2_programs"] = len(progs)
    ctx.extra["leg2_disagreeing_programs"] = len(bad)
    if progs:
        o = obsid[progs[0]["id"]]
        ctx.add_sample({"leg": 2, "meta": o["meta"], "prog_head": o["prog"][:6], "input": o["inputs"][1], "observed": o["obs"][1] if o["obs"] else None})
    bad = sorted(set(bad))
    for pid in bad:
        if obsid[pid].get("status") == "compile_error":
            raise Broken(f"program {pid}: the Compiler refused a valid program: {obsid[pid].get('msg')}")
    # attribution: a disagreeing program that agrees once ONE listed proposed fix is applied is that known finding
    remaining = list(bad)
    for k in sorted(k for k in ctx.known if k in FIXES):
        if not remaining:
            break
        vexe = variant_binary(ctx, bdir, [k])
        if not vexe:
            continue
        bp, bo = ctx.path(f"leg2_attr_{FIXES[k]['n']}.prog.ndjson"), ctx.path(f"leg2_attr_{FIXES[k]['n']}.obs.ndjson")
        vlib.write_ndjson(bp, [byid[i] for i in remaining])
        run_obs(ctx, vexe, bp, bo)
        _, still = judge_obs(ctx, bo, "report", f"attr{FIXES[k]['n']}", workers=4)
        fixed = [i for i in remaining if i not in set(still)]
        if fixed:
            ctx.known_finding(k, ctx.known[k])
            ctx.log(f"leg 2: {len(fixed)} disagreeing programs agree with proposed fix {FIXES[k]['n']} applied -> known finding {k}")
        remaining = [i for i in remaining if i in set(still)]
    ctx.extra["leg2_unexplained"] = len(remaining)
    for nb, pid in enumerate(remaining[: (6 if q else 12)]):
        rec = byid[pid]
        ok, sop = strict_single(ctx, exe, rec, f"bad{nb}")
        if ok:
            raise Broken(f"program {pid}: mismatch not reproducible in isolation")
        ctx.violation(f"x86-64 host run differs from the interpreter: skeleton={rec['meta'][0]} pressure={rec['meta'][1]} mix={rec['meta'][2]} "
                      f"status={obsid[pid].get('status')} (program id {pid}, {len(rec['prog'])} instructions; {len(remaining)} unexplained programs in total)", keep(ctx, sop))
    return progs


# ----------------------------------------------------------------------------------------------------------
# Leg 1
# ----------------------------------------------------------------------------------------------------------
ARCHS = ["x64", "x86", "a64"]


def record_and_translate(ctx, exe, arch, progs_path, tag, gen=None):
    """-> (list of RegAlloc.tla function records, dict of unsupported reasons, number recorded).
    gen = (seed, count): the harness's own seeded generator instead of a program file.  Crashes of the allocator are
    returned under the reason key 'CRASH' as a list of function ids."""
    rp = ctx.path(f"{tag}_rec_{arch}.ndjson")
    if gen and gen[0] == "tests":
        cmd = [exe, "recordtests", arch, rp]
    elif gen:
        cmd = [exe, "recordgen", arch, rp, str(gen[0]), str(gen[1])]
    else:
        cmd = [exe, "record", arch, progs_path, rp]
    p = subprocess.run(cmd, capture_output=True, text=True, timeout=1800)
    if p.returncode != 0:
        raise Broken(f"regalloc record {arch} failed rc={p.returncode}: {p.stderr[-400:]}")
    out, why, n = [], {}, 0
    with open(rp) as f:
        for ln in f:
            ln = ln.strip()
            if not ln:
                continue
            rec = json.loads(ln)
            n += 1
            try:
                out.append(c05_tv.translate(rec))
            except c05_tv.Unsupported as e:
                why[str(e)] = why.get(str(e), 0) + 1
            except c05_tv.Crashed:
                why.setdefault("CRASH", []).append(rec["id"])
    return out, why, n


def judge_tv(ctx, tv_path, mode, tag, workers=6, timeout=1500):
    r = vlib.run_tlc(ctx, TV, TVCFG, workers=workers, timeout=timeout, heap="6g", tag=tag, env={"REC": tv_path, "MODE": mode})
    if mode == "report":
        if r.kind != "ok":
            raise Broken(f"TLC (translation validation, report) kind={r.kind} rc={r.rc}\n" + "\n".join(r.out.splitlines()[-30:]))
        rej = {}
        for m in vlib.parse_beh(r.out, "REJECT"):
            rej.setdefault(m[0], (m[1], m[2]))
        return r, rej
    if r.kind == "ok":
        return r, {}
    if r.kind == "violation" and r.violated in ("UsesSeeTheirValue", "SlotsInv", "ConsecutiveInv", "RenameInv"):
        return r, {-1: (0, r.violated)}
    raise Broken(f"TLC (translation validation, strict) kind={r.kind} rc={r.rc}\n" + "\n".join(r.out.splitlines()[-30:]))


def tv_single(ctx, exe, arch, prog_rec, tag):
    """record + translate + strict TLC for one program with `exe`.  True = accepted, False = rejected, None = unsupported."""
    pp = ctx.path(f"{tag}.prog.ndjson")
    vlib.write_ndjson(pp, [dict({k: prog_rec[k] for k in ("id", "meta", "prog", "inputs")}, tv_arch=arch)])
    fns, why, n = record_and_translate(ctx, exe, arch, pp, tag)
    if why.get("CRASH"):
        return False, pp          # the allocator crashed on it
    if not fns:
        return None, pp
    tp = ctx.path(f"{tag}.tv.ndjson")
    vlib.write_ndjson(tp, fns)
    r, rej = judge_tv(ctx, tp, "strict", tag, workers=1, timeout=600)
    return (not rej), pp


def leg1(ctx, bdir, progs):
    exe = os.path.join(bdir, "regalloc")
    pp = ctx.path("leg1_programs.ndjson")
    vlib.write_ndjson(pp, progs)
    byid = {p["id"]: p for p in progs}
    total, unsupported, rejected = 0, {}, 0
    # x86-32: functions with xmm registers need a dynamically aligned frame (not supported by the translator): not recorded
    pp32 = ctx.path("leg1_programs_x86.ndjson")
    vlib.write_ndjson(pp32, [p for p in progs if all(x == 0 for x in p["meta"][3:5])])     # no xmm, no 64-bit registers
    for arch in ARCHS:
        fns, why, n = record_and_translate(ctx, exe, arch, pp32 if arch == "x86" else pp, "leg1")
        crashed = why.pop("CRASH", [])
        total += len(fns)
        for k, v in why.items():
            unsupported[f"{arch}: {k}"] = unsupported.get(f"{arch}: {k}", 0) + v
        tp = ctx.path(f"leg1_tv_{arch}.ndjson")
        vlib.write_ndjson(tp, fns)
        r, rej = judge_tv(ctx, tp, "report", f"tv_{arch}")
        ctx.states += r.distinct
        ctx.transitions += r.generated
        ctx.traces += len(fns) - len(rej)
        ctx.log(f"leg 1 {arch}: {len(fns)} of {n} functions explored by TLC ({r.distinct} states), {len(rej)} rejected, unsupported: {why}")
        for f in fns[:1]:
            ctx.add_sample({"leg": 1, "arch": arch, "fid": f["fid"], "nloc": f["nloc"], "ops": len(f["code"]), "code_head": f["code"][:5]})
        for f in fns:
            ctx.distinct.add(("leg1", arch, f["fid"], len(f["code"])))
        rejected += len(rej) + len(crashed)
        if crashed:
            ctx.log(f"leg 1 {arch}: the allocator CRASHED on {len(crashed)} programs: {crashed[:8]}")
        remaining = sorted(set(rej) | set(crashed))
        for k in sorted(k for k in ctx.known if k in FIXES):
            if not remaining:
                break
            vexe = variant_binary(ctx, bdir, [k])
            if not vexe:
                continue
            bp = ctx.path(f"leg1_attr_{arch}_{FIXES[k]['n']}.prog.ndjson")
            vlib.write_ndjson(bp, [byid[i] for i in remaining])
            vf, vwhy, _ = record_and_translate(ctx, vexe, arch, bp, f"leg1_attr_{FIXES[k]['n']}")
            tp2 = ctx.path(f"leg1_attr_{arch}_{FIXES[k]['n']}.tv.ndjson")
            vlib.write_ndjson(tp2, vf)
            _, still = judge_tv(ctx, tp2, "report", f"tvattr_{arch}_{FIXES[k]['n']}", workers=4)
            ok_ids = {f["fid"] for f in vf} - set(still)
            fixed = [i for i in remaining if i in ok_ids]
            if fixed:
                ctx.known_finding(k, ctx.known[k])
                ctx.log(f"leg 1 {arch}: {len(fixed)} rejected functions are accepted with proposed fix {FIXES[k]['n']} applied -> known finding {k}")
            remaining = [i for i in remaining if i not in ok_ids]
        for fid in remaining[:4]:
            rec = byid[fid]
            if fid in crashed:
                rp = ctx.path(f"crash_{arch}_{fid}.prog.ndjson")
                vlib.write_ndjson(rp, [dict({k: rec[k] for k in ("id", "meta", "prog", "inputs")}, tv_arch=arch)])
                ctx.violation(f"{arch}: the register allocator crashes (or hangs) on program {fid} (skeleton={rec['meta'][0]} pressure={rec['meta'][1]} "
                              f"mix={rec['meta'][2]}); {len(remaining)} unexplained functions for this architecture", keep(ctx, rp))
                continue
            ok, rp = tv_single(ctx, exe, arch, rec, f"rej_{arch}_{fid}")
            if ok is not False:
                raise Broken(f"{arch} function {fid}: rejection not reproducible in isolation")
            pc, what = rej[fid]
            ctx.violation(f"{arch}: translation validation rejects program {fid} (skeleton={rec['meta'][0]} pressure={rec['meta'][1]} mix={rec['meta'][2]}): "
                          f"at op {pc} the instruction reads {what} (location, virtual register) but the location does not hold that register's value; "
                          f"{len(remaining)} unexplained functions for this architecture", keep(ctx, rp))
    ctx.extra["leg1_functions"] = total
    ctx.extra["leg1_rejected"] = rejected
    ctx.extra["leg1_unsupported"] = unsupported


def leg1_gen(ctx, bdir, tests=False):
    """Leg 1 on the harness's seeded generator (mixed register classes and sizes, partial writes, same-register idioms,
    a64 ld1/ld2/st1/tbl register lists that need consecutive registers), or (tests=True) on the functions of the
    repository's asmjit_test_compiler_x86.cpp / _a64.cpp."""
    exe = os.path.join(bdir, "regalloc")
    count = 40 if ctx.quick else 300
    src = "tests" if tests else "gen"
    for arch in ((("x64", "a64") if ctx.quick else ("x64", "x86", "a64")) if tests else ("x64", "a64")):
        g = ("tests",) if tests else (ctx.seed, count)
        fns, why, n = record_and_translate(ctx, exe, arch, None, src, gen=g)
        crashed = why.pop("CRASH", [])
        if tests:
            crashed = []          # test functions are written for the host architecture; not every one is valid elsewhere
        tp = ctx.path(f"{src}_tv_{arch}.ndjson")
        vlib.write_ndjson(tp, fns)
        r, rej = judge_tv(ctx, tp, "report", f"tv{src}_{arch}")
        ctx.states += r.distinct
        ctx.transitions += r.generated
        ctx.traces += len(fns) - len(rej)
        for f in fns:
            ctx.distinct.add((src, arch, f["fid"], len(f["code"])))
        ctx.log(f"leg 1 {src} {arch}: {len(fns)} of {n} functions explored ({r.distinct} states), {len(rej)} rejected, "
                f"{len(crashed)} allocator crashes, unsupported: {why}")
        ctx.extra[f"{src}_{arch}_functions"] = len(fns)
        ctx.extra[f"{src}_{arch}_rejected"] = len(rej)
        ctx.extra[f"{src}_{arch}_crashed"] = len(crashed)
        ctx.extra[f"{src}_{arch}_unsupported"] = why
        bad = sorted(set(rej) | set(crashed))
        remaining = list(bad)
        for k in sorted(k for k in ctx.known if k in FIXES):
            if not remaining:
                break
            vexe = variant_binary(ctx, bdir, [k])
            if not vexe:
                continue
            vf, vwhy, _ = record_and_translate(ctx, vexe, arch, None, f"{src}attr_{FIXES[k]['n']}", gen=g)
            vcr = set(vwhy.get("CRASH", []))
            tp2 = ctx.path(f"{src}attr_{arch}_{FIXES[k]['n']}.tv.ndjson")
            vlib.write_ndjson(tp2, [f for f in vf if f["fid"] in set(remaining)])
            _, still = judge_tv(ctx, tp2, "report", f"tv{src}attr_{arch}_{FIXES[k]['n']}", workers=4)
            ok_ids = {f["fid"] for f in vf} - set(still) - vcr
            fixed = [i for i in remaining if i in ok_ids]
            if fixed:
                ctx.known_finding(k, ctx.known[k])
                ctx.log(f"leg 1 {src} {arch}: {len(fixed)} failing functions pass with proposed fix {FIXES[k]['n']} applied -> known finding {k}")
            remaining = [i for i in remaining if i not in ok_ids]
        for fid in remaining[:4]:
            rp = ctx.path(f"{src}_{arch}_{fid}.replay.ndjson")
            vlib.write_ndjson(rp, [{"gen": src, "arch": arch, "seed": ctx.seed, "count": count, "fid": fid}])
            if fid in crashed:
                ctx.violation(f"{arch}: the register allocator crashes (or hangs) on {src} function {fid} (seed {ctx.seed}) "
                              f"(valid program with register lists / mixed register classes); {len(remaining)} unexplained", keep(ctx, rp))
            else:
                pc, what = rej[fid]
                ctx.violation(f"{arch}: translation validation rejects {src} function {fid} (seed {ctx.seed}): at op {pc} the instruction reads "
                              f"{what} (location, virtual register) but the location does not hold that register's value; {len(remaining)} unexplained", keep(ctx, rp))


def run(ctx):
    write_fixes(ctx)
    bdir = ctx.build("plain", "regalloc")
    progs = leg2(ctx, bdir)
    sel = progs if ctx.quick else progs[-1000:]
    leg1(ctx, bdir, sel)
    leg1_gen(ctx, bdir)
    leg1_gen(ctx, bdir, tests=True)
    ctx.assumptions += [
        "Leg 1 takes operand access kinds (read/write, byte masks) from asmjit's InstAPI::query_rw_info, except cmpxchg's accumulator (Intel SDM)",
        "Leg 1 starts from the calling convention's argument locations and ends at the return; prolog/epilog correctness is C07's, argument classification C06's",
        "the macro expansion of a language instruction into x86 instructions (harness/regalloc.cpp build_x86) is trusted",
        "the host CPU executes x86-64 as architected",
    ]
    vlib.write_evidence(ctx, "translation_validation",
        rule="programs = distinct TLC-generated programs executed on the host; evaluations = (program,input) pairs whose observed (ret, memory, "
             "call log) TLC compared with the interpreter; traces_validated_against_impl = allocated functions (x86-64, x86-32, AArch64) "
             "accepted by the location-map exploration; states = TLC states of the comparison and of the exploration",
        explanation="level translation_validation: every allocated function is validated individually (Leg 1: symbolic, all inputs, all paths; "
                    "Leg 2: concrete execution on 8 inputs); nothing is proved about the allocator for programs outside the explored set",
        trusted_base=["TLC", "spec/machine/RegAllocInterp.tla (language semantics)", "spec/machine/RegAlloc.tla (location-map semantics)",
                      "harness/regalloc.cpp macro expansion + node recorder", "checks/c05_tv.py translator (syntactic)",
                      "asmjit InstAPI::query_rw_info (operand access kinds, Leg 1 only)"],
        extra={"programs": ctx.extra.get("leg2_programs", 0),
               "disagreements_checked": ctx.extra.get("leg2_disagreeing_programs", 0) + ctx.extra.get("leg1_rejected", 0),
               "functions_validated_leg1": ctx.extra.get("leg1_functions", 0) + sum(v for k, v in ctx.extra.items() if k.endswith("_functions") and k != "leg1_functions")})


def replay(ctx, path):
    write_fixes(ctx)
    bdir = ctx.build("plain", "regalloc")
    recs = vlib.read_ndjson(path)
    exe = os.path.join(bdir, "regalloc")
    for n, rec in enumerate(recs):
        if "gen" in rec:
            g = ("tests",) if rec["gen"] == "tests" else (rec["seed"], rec["count"])
            fns, why, _ = record_and_translate(ctx, exe, rec["arch"], None, f"replay{n}", gen=g)
            if rec["fid"] in why.get("CRASH", []):
                ctx.violation(f"replay: allocator still crashes on {rec['gen']} function {rec['fid']}", path)
                continue
            tp = ctx.path(f"replay{n}.tv.ndjson")
            vlib.write_ndjson(tp, [f for f in fns if f["fid"] == rec["fid"]])
            _, rej = judge_tv(ctx, tp, "strict", f"replay{n}", workers=1)
            if rej:
                ctx.violation(f"replay: {rec['gen']} function {rec['fid']} still rejected", path)
            continue
        if "prog" in rec and "tv_arch" in rec:
            ok, _ = tv_single(ctx, exe, rec["tv_arch"], rec, f"replay{n}")
            if ok is False:
                ctx.violation(f"replay: {rec['tv_arch']} translation validation still rejects program {rec.get('id')}", path)
        elif "prog" in rec:
            ok, sop = strict_single(ctx, exe, rec, f"replay{n}")
            if not ok:
                ctx.violation(f"replay: program {rec.get('id')} still disagrees", sop)
