"""X02 - the CodeHolder label / section / relocation registry behaves like its documented abstract data type.

Decided by the contract spec/code/Registry.tla (one action per API call, parameterised by what the code reported; the doc
comment that promises each clause is quoted next to it):
 1. design  : RegistryMC.tla - TLC explores every call sequence of the contract over small alphabets, bounded only by the
              contract's own limits (kTooMany* reached), all ADT invariants (RInv) in every state, `-coverage` (every API
              action taken); negative controls that must FAIL (duplicates let in; reachability).  RegistryImpl.tla - the
              name table (hash with parent mixing, bucket growth schedule, failed growth) transcribed; TLC checks that it
              refines the contract and that bucket lookups agree with the name map; GrowBug=TRUE must FAIL.
 2. export  : the history that first reaches each distinct state of the models (and simulated long ones, incl. real-sized
              tables crossing the growth points with allocation failures at the growing insert) become scripts.
 3. record  : harness/registry.cpp executes scripts and seeded random histories (small / boundary / big profiles) on a real
              CodeHolder with x86 Assembler / Builder / a64 Assembler attached, allocation failures injected through hook H1,
              and logs arguments, results and the projection of the whole registry after every call.
 4. validate: RegistryTrace.tla accepts an execution iff every call is a contract step for the reported result AND the
              projected registry equals the contract state after every call (refused calls change nothing, ids dense and
              stable, accessors return what was given, lookups exact).  The verdict is TLC's.
The ASan/UBSan build is the environment (an abort becomes an ABORT event that no action consumes); the `big` profile is
also run on the plain build, where an out-of-bounds bucket read does not abort but misbehaves."""
import json, os, re, threading
from concurrent.futures import ThreadPoolExecutor
import vlib
from vlib import Broken

SPEC = os.path.join(vlib.VERIF, "spec", "code")
MC = os.path.join(SPEC, "RegistryMC.tla")
IMPL = os.path.join(SPEC, "RegistryImpl.tla")
TMOD = os.path.join(SPEC, "RegistryTrace.tla")

K_EMPTY = "label_id_by_name:empty_name_returns_0"
K_OFF = "label_offset:unbound_label_with_fixups_nonzero"
MASKABLE = (K_EMPTY, K_OFF)

ACTIONS = ["AInit", "AReinit", "AResetH", "ASetEH", "ASetLG", "AAttach", "ADetach", "AELabel", "AENamed", "AELookup", "AEBindAsm",
           "AEBindBuilder", "AEValid", "ALabel", "ANamed", "ALookup", "ABind", "AFixup", "AResolve", "AFlatten", "ASection",
           "ASecByName", "AEnsure", "AAddAddr", "AReloc", "AResize"]
EVENTS = ["Init", "Reinit", "ResetH", "Attach", "Detach", "SetEH", "SetLG", "Label", "Named", "Lookup", "Sweep", "Bind", "Fixup",
          "Resolve", "Flatten", "Section", "SecByName", "Ensure", "AddAddr", "Reloc", "Resize", "ELabel", "ENamed", "ELookup",
          "EValid", "EBind"]
_lock = threading.Lock()


def mc_cfg(ctx, name, groups, max_labels=2, max_sections=3, max_relocs=2, faults=True, max_ops=0, lite=True, dup=True,
           invariants=("RInv",), view=False):
    g = "{" + ", ".join('"%s"' % x for x in groups) + "}"
    suf = "Lite" if lite else ""
    lines = ["SPECIFICATION Spec", "CONSTANTS", "  MaxLabelName = 2", "  MaxSectionName = 2", f"  MaxLabels = {max_labels}",
             f"  MaxSections = {max_sections}", f"  MaxRelocs = {max_relocs}", "  RegSize = 8", "  OrderMin <- MCOrderMin",
             "  OrderMax <- MCOrderMax", f"  DupCheck = {'TRUE' if dup else 'FALSE'}", f"  Groups = {g}",
             f"  WithFaults = {'TRUE' if faults else 'FALSE'}", f"  MaxOps = {max_ops}", "  MaxFix = 2", "  MaxAddr = 2",
             "  Emitters = {1, 2, 3}", f"  LNames <- MCNames{suf}", f"  LTypes <- MCTypes{suf}", f"  LParents <- MCParents{suf}"]
    for inv in invariants:
        lines.append(f"INVARIANT {inv}")
    if view:
        lines.append("VIEW View")
    p = ctx.path(name + ".cfg")
    open(p, "w").write("\n".join(lines) + "\n")
    return p


def impl_cfg(ctx, name, max_named=4, max_ops=0, bug=False, real=False, invariants=("IInv",), prop=True, view=True):
    lines = ["SPECIFICATION ISpec", "CONSTANTS"]
    if real:
        lines += ["  PrimeArr <- RealPrimes", "  INames <- SimNames", "  ITypes = {1, 2, 3}", "  IParents <- SimParents", "  MaxLabelName = 2048"]
    else:
        lines += ["  PrimeArr <- MCPrimes", "  INames <- MCINames", "  ITypes = {0, 1, 2, 4}", "  IParents <- MCIParents", "  MaxLabelName = 2"]
    lines += [f"  MaxNamed = {max_named}", f"  MaxOpsI = {max_ops}", f"  GrowBug = {'TRUE' if bug else 'FALSE'}"]
    for inv in invariants:
        lines.append(f"INVARIANT {inv}")
    if prop:
        lines.append("PROPERTY RefinesContract")
    if view:
        lines.append("VIEW IView")
    p = ctx.path(name + ".cfg")
    open(p, "w").write("\n".join(lines) + "\n")
    return p


def trace_cfg(ctx, name, known, diag=False):
    src = open(os.path.join(SPEC, "RegistryTraceDiag.cfg" if diag else "RegistryTrace.cfg")).read()
    ks = "{" + ", ".join('"%s"' % k for k in sorted(known)) + "}"
    p = ctx.path(name + ".cfg")
    open(p, "w").write(src.replace("Known = {}", "Known = " + ks))
    return p


def parse_cov(out):
    cov = {}
    for m in re.finditer(r"^<(\w+) line \d+, col \d+ to line \d+, col \d+ of module \w+>: (\d+):(\d+)", out, re.M):
        cov[m.group(1)] = cov.get(m.group(1), 0) + int(m.group(3))
    return cov


def parse_json_beh(out):
    res = []
    for m in re.finditer(r'^<<"BEH", (".*")>>\s*$', out, re.M):
        try:
            res.append(json.loads(json.loads(m.group(1))))
        except Exception:
            pass
    return res


# ---- abstract model alphabet -> concrete arguments -------------------------------------------------------------------
def conc_byte(b):
    return {0: 0, 1: 97, 2: 98, 3: 115}.get(b, b)


def conc_name(n, maxlen_abs, maxlen_real):
    """keeps equality, the position of an embedded NUL and the relation of the length to the limit"""
    c = [conc_byte(b) for b in n]
    if 0 in n or len(n) < maxlen_abs or any(b > 3 for b in n):
        return c
    pad = maxlen_real - maxlen_abs
    return [112] * pad + c            # len == limit -> exactly the real limit, len == limit + 1 -> one byte more


FAULT_MODES = ["all", "first", "second", "grow", "big", "all"]


def concretize(ops, salt=0):
    res = []
    for i, o in enumerate(ops):
        o = dict(o)
        if o["op"] == "resize":
            continue
        f = o.pop("fault", None)
        if f is True:
            o["fault"] = FAULT_MODES[(salt + i) % len(FAULT_MODES)]
        elif isinstance(f, str) and f != "none":
            o["fault"] = f
        if "name" in o:
            if o["op"] in ("section", "secbyname"):
                o["name"] = conc_name(o["name"], 2, 35)
            else:
                o["name"] = conc_name(o["name"], 2, 2048)
            o["z"] = ((salt + i) % 3 == 0)
        res.append(o)
    return res


def export_items(ctx, q, ml):
    return [
        ("x_label", MC, mc_cfg(ctx, "x_label", ["label", "bind"], max_labels=ml, lite=q, max_ops=99, invariants=("ExportStates",), view=True), None),
        ("x_sect", MC, mc_cfg(ctx, "x_sect", ["sect", "addr", "reloc"], max_sections=3, max_ops=99, invariants=("ExportStates",), view=True), None),
        ("x_life", MC, mc_cfg(ctx, "x_life", ["life", "emit", "label"], max_labels=1 if q else 2, max_sections=2, max_relocs=1, max_ops=99,
                              invariants=("ExportStates",), view=True), None),
        ("x_fix", MC, mc_cfg(ctx, "x_fix", ["fixup", "bind", "label", "sect"], max_labels=1 if q else 2, max_sections=2, max_relocs=1, faults=False, max_ops=99,
                             invariants=("ExportStates",), view=True), None),
        ("x_impl", IMPL, impl_cfg(ctx, "x_impl", max_named=3 if q else 4, max_ops=99, invariants=("ExportStatesI",), prop=False, view=True), None),
        # simulation: long histories incl. refused calls; real-sized name table crossing 2 / 27 / 54 / 118 (/ 243) entries
        ("s_all", MC, mc_cfg(ctx, "s_all", ["life", "emit", "label", "bind", "fixup", "sect", "addr", "reloc"], max_labels=3, max_sections=4,
                             max_ops=40, invariants=("ExportLong",)), (30 if q else 300, 41)),
        ("s_impl", IMPL, impl_cfg(ctx, "s_impl", max_named=400, max_ops=170 if q else 330, real=True, invariants=("ExportI",), prop=False, view=False),
         (3 if q else 16, 171 if q else 331)),
    ]



def do_export_run(ctx, item):
    tag, mod, cfg, sim = item
    if sim:
        r = vlib.run_tlc(ctx, mod, cfg, workers=2, timeout=900, heap="4g", tag=tag, simulate=sim[0], depth=sim[1], seed=ctx.seed)
    else:
        r = vlib.run_tlc(ctx, mod, cfg, workers=4, timeout=900, heap="4g", tag=tag)
    return item, r


def run(ctx):
    q = ctx.quick
    known = {k for k in MASKABLE if k in ctx.known}
    bdir = ctx.build("asan", "registry")
    pdir = ctx.build("plain", "registry")

    # ------------------------------------------------------------------------------------------------------------------
    # 1. design
    # ------------------------------------------------------------------------------------------------------------------
    ml = 2 if q else 3
    design = [
        # tag, module, cfg, expectation ("ok" | "violation"), coverage?
        ("mc_label", MC, mc_cfg(ctx, "mc_label", ["label", "bind"], max_labels=ml, lite=False), "ok", True),
        ("mc_sect", MC, mc_cfg(ctx, "mc_sect", ["sect", "addr", "reloc"], max_sections=3 if q else 4), "ok", True),
        ("mc_life", MC, mc_cfg(ctx, "mc_life", ["life", "emit", "label"], max_sections=2, max_relocs=1), "ok", True),
        ("mc_fix", MC, mc_cfg(ctx, "mc_fix", ["fixup", "bind", "label", "sect"], max_labels=1 if q else 2, max_sections=2, max_relocs=1, faults=False), "ok", True),
        ("mc_resize", MC, mc_cfg(ctx, "mc_resize", ["resize", "sect", "addr"], max_labels=1, max_sections=3, max_relocs=1, faults=False), "ok", True),
        ("impl", IMPL, impl_cfg(ctx, "impl", max_named=4 if q else 5), "ok", False),
        # negative controls: each must be violated
        ("neg_dup", MC, mc_cfg(ctx, "neg_dup", ["label"], dup=False, invariants=("KeysUnique",)), "violation", False),
        ("neg_two", MC, mc_cfg(ctx, "neg_two", ["label"], invariants=("NeverTwoNamed",)), "violation", False),
        ("neg_full", MC, mc_cfg(ctx, "neg_full", ["label"], invariants=("NeverFull",)), "violation", False),
        ("neg_local", MC, mc_cfg(ctx, "neg_local", ["label"], max_labels=3, lite=False, invariants=("NeverLocalPair",)), "violation", False),
        ("neg_growbug_inv", IMPL, impl_cfg(ctx, "neg_growbug_inv", bug=True, invariants=("LookupAgrees",), prop=False), "violation", False),
        ("neg_growbug_ref", IMPL, impl_cfg(ctx, "neg_growbug_ref", bug=True, invariants=(), prop=True), "violation", False),
        ("neg_grew", IMPL, impl_cfg(ctx, "neg_grew", max_named=5, invariants=("NeverGrewTwice",), prop=False), "violation", False),
    ]
    cov = {}
    dstates = {}

    def do_export(item):
        return do_export_run(ctx, item)

    def do_design(item):
        tag, mod, cfg, expect, wantcov = item
        r = vlib.run_tlc(ctx, mod, cfg, workers=4, timeout=1500, heap="4g", tag=tag, coverage=wantcov)
        return item, r

    pool = ThreadPoolExecutor(max_workers=7)
    dfut = [pool.submit(do_design, it) for it in design]
    xfut = [pool.submit(do_export, it) for it in export_items(ctx, q, ml)]
    for fu in dfut:
        item, r = fu.result()
        tag, mod, cfg, expect, wantcov = item
        if expect == "ok":
            vlib.tlc_must_ok(ctx, r, f"design {tag}")
            dstates[tag] = r.distinct
            if wantcov:
                for k, v in parse_cov(r.out).items():
                    cov[k] = cov.get(k, 0) + v
        else:
            if r.kind != "violation":
                raise Broken(f"negative control {tag} did not fail (kind={r.kind}): the invariants would be vacuous\n" + r.out[-600:])
            ctx.log(f"negative control {tag}: violated {r.violated} as required")
    missing = [a for a in ACTIONS if cov.get(a, 0) == 0]
    if missing:
        raise Broken(f"coverage: actions never taken in any design run: {missing}")
    ctx.log(f"design: {dstates} distinct states, RInv / refinement hold, every one of {len(ACTIONS)} API actions taken, 7 negative controls fail as required")
    ctx.extra["design_states"] = dstates
    ctx.extra["action_coverage"] = {a: cov[a] for a in ACTIONS}

    # ------------------------------------------------------------------------------------------------------------------
    # 2. export behaviours of the models
    # ------------------------------------------------------------------------------------------------------------------
    scripts = []
    if True:
        for fu in xfut:
            item, r = fu.result()
            if r.kind != "ok":
                raise Broken(f"behaviour export {item[0]} failed: kind={r.kind}\n" + r.out[-800:])
            behs = parse_json_beh(r.out)
            if not behs:
                raise Broken(f"behaviour export {item[0]} produced nothing")
            if item[0] == "s_all":
                ctx.states += 0
            pre = [] if item[0] in ("x_life", "s_all") else [{"op": "init", "envok": True, "base": -1}]
            for b in behs:
                if b:
                    scripts.append((item[0], pre + b))
            ctx.log(f"export {item[0]}: {len(behs)} behaviours")
    uniq = {}
    for tag, ops in scripts:
        uniq.setdefault(json.dumps(ops, sort_keys=True), tag)
    scripts = [(t, json.loads(s)) for s, t in sorted(uniq.items())]
    import random
    rnd = random.Random(ctx.seed)
    cap_long, cap_all = (120, 2000) if q else (2000, 30000)
    longs = [x for x in scripts if x[0] == "s_all"]
    rnd.shuffle(longs)
    keep = [x for x in scripts if x[0] == "s_impl"] + longs[:cap_long]
    rest = [x for x in scripts if not x[0].startswith("s_")]
    rnd.shuffle(rest)           # quick: a seeded sample of the exhaustive per-state exports
    scripts = keep + rest[:max(0, cap_all - len(keep))]
    sp = ctx.path("scripts.ndjson")
    vlib.write_ndjson(sp, [{"tag": t, "ops": concretize(ops, i) + [{"op": "sweep"}]} for i, (t, ops) in enumerate(scripts)])
    ctx.log(f"{len(scripts)} model behaviours become scripts")
    ctx.extra["scripts"] = len(scripts)

    # ------------------------------------------------------------------------------------------------------------------
    # 3. record
    # ------------------------------------------------------------------------------------------------------------------
    traces = []
    t = ctx.path("trace_scripts.ndjson")
    vlib.record_trace(ctx, bdir, "registry", ["script", sp, t], t, timeout=900)
    traces.append(("scripts", t))
    jobs = [("mix", bdir, 60 if q else 700, "mix", ctx.seed), ("small", bdir, 30 if q else 400, "small", ctx.seed + 1),
            ("boundary", bdir, 15 if q else 150, "boundary", ctx.seed + 2),
            ("big_asan", bdir, 6 if q else 24, "big", ctx.seed + 3), ("big_plain", pdir, 6 if q else 24, "big", ctx.seed + 4)]
    for tag, bd, n, prof, seed in jobs:
        t = ctx.path(f"trace_{tag}.ndjson")
        vlib.record_trace(ctx, bd, "registry", ["random", t, n, prof], t, timeout=1200, env={"VERIF_SEED": seed})
        traces.append((tag, t))

    # ------------------------------------------------------------------------------------------------------------------
    # 4. validate
    # ------------------------------------------------------------------------------------------------------------------
    tcfg = trace_cfg(ctx, "trace", known)
    dcfg = trace_cfg(ctx, "trace_diag", known, diag=True)
    nev = 0
    kinds = {}
    faulted = 0

    def sig(rec):
        e = rec.get("e")
        if e in ("Named", "ENamed"):
            n = rec["name"]
            return (e, rec.get("r", rec.get("id", 0) >= 0), rec["type"], min(len(n), 3) if len(n) < 2047 else len(n), 0 in n, rec["parent"] >= 0, rec["fh"] > 0)
        if e in ("Lookup", "ELookup"):
            return (e, rec["r"] >= 0, len(rec["name"]) == 0, rec["parent"] >= 0)
        if e == "Section":
            return (e, rec["r"], rec["align"], min(len(rec["name"]), 37), rec["fh"] > 0)
        if e == "Sweep":
            return (e, min(len(rec["q"]), 50))
        return (e, rec.get("r"), rec.get("fh", 0) > 0, rec.get("id", 0) if isinstance(rec.get("id"), int) and rec.get("id") < 3 else 3)

    def do_validate(item):
        tag, path = item
        return item, vlib.validate_executions(ctx, TMOD, tcfg, path, tag=tag, timeout=1500, heap="3g")

    def shards(tag, path, recs, limit=9000):
        """split a recorded file into files of whole executions (one JVM each, validated in parallel)"""
        ex = vlib.split_executions(recs)
        out, cur, n = [], [], 0
        for e in ex:
            if cur and n + len(e) > limit:
                out.append(cur); cur, n = [], 0
            cur.append(e); n += len(e)
        if cur:
            out.append(cur)
        res = []
        for k, grp in enumerate(out):
            sp_ = ctx.path(f"shard_{tag}_{k}.ndjson")
            vlib.write_ndjson(sp_, [r for e in grp for r in e])
            res.append((f"{tag}{k}", sp_))
        return res

    maxnamed = 0
    work = []
    for tag, path in traces:
        recs = vlib.read_ndjson(path)
        nev += len(recs)
        work += shards(tag, path, recs)
        for rec in recs:
            kinds[rec.get("e")] = kinds.get(rec.get("e"), 0) + 1
            if rec.get("fh", 0) > 0:
                faulted += 1
            if "p" in rec:
                maxnamed = max(maxnamed, rec["p"].get("nl", 0))
            try:
                ctx.distinct.add(sig(rec))
            except Exception:
                pass
        if recs and len(ctx.samples) < 5:
            s = [dict((k, v) for k, v in r.items() if k != "p") for r in recs[3:6]]
            ctx.add_sample({"source": tag, "events": s})
    with ThreadPoolExecutor(max_workers=6) as ex:
        for (tag, path), rej in ex.map(do_validate, work):
            for x in rej:
                bad = x["records"][x["index"]] if x["index"] < len(x["records"]) else {"e": "END"}
                # name the failed clause (best effort): the projection clauses as invariants
                why = ""
                try:
                    ok, maxl, r = vlib.validate_trace_file(ctx, TMOD, dcfg, x["path"], tag=f"diag_{tag}")
                    if not ok and r.violated:
                        why = f" clause={r.violated}"
                except Broken:
                    pass
                b = dict((k, v) for k, v in bad.items() if k != "p")
                if isinstance(b.get("name"), list) and len(b["name"]) > 24:
                    b["name"] = f"<{len(b['name'])} bytes>"
                if isinstance(b.get("q"), list):
                    b["q"] = f"<{len(b['q'])} lookups>"
                ctx.violation(f"[{tag}] execution rejected at its event {x['index']}: {json.dumps(b)[:400]}{why}", x["path"])
    missing_ev = [e for e in EVENTS if kinds.get(e, 0) == 0]
    if missing_ev:
        raise Broken(f"trace actions never exercised by any recorded trace: {missing_ev}")
    ctx.evaluations = nev
    ctx.extra["event_counts"] = kinds
    ctx.extra["events_with_injected_failure"] = faulted
    ctx.extra["max_labels_in_one_execution"] = maxnamed
    ctx.log(f"{nev} events validated ({faulted} with an injected allocation failure), {ctx.traces} executions accepted, largest registry {maxnamed} labels")

    # ------------------------------------------------------------------------------------------------------------------
    # 5. the trace spec is not vacuous: a corrupted field and a deleted line must be rejected
    # ------------------------------------------------------------------------------------------------------------------
    selftest(ctx, bdir, tcfg)

    # ------------------------------------------------------------------------------------------------------------------
    # 6. known findings: each listed key is re-executed alone against the strict contract
    # ------------------------------------------------------------------------------------------------------------------
    strict = trace_cfg(ctx, "trace_strict", set())
    probes = {
        K_EMPTY: [{"op": "init", "envok": True, "base": -1}, {"op": "label"}, {"op": "lookup", "name": [], "z": False, "parent": -1}],
        K_OFF: [{"op": "init", "envok": True, "base": -1}, {"op": "label"}, {"op": "fixup", "id": 0, "sec": 0}],
    }
    for key in MASKABLE:
        sp2, tr2 = ctx.path(f"known_{key.split(':')[0]}.script.ndjson"), ctx.path(f"known_{key.split(':')[0]}.trace.ndjson")
        vlib.write_ndjson(sp2, [{"cfg": {"static": False}, "ops": probes[key]}])
        vlib.record_trace(ctx, bdir, "registry", ["script", sp2, tr2], tr2, timeout=120)
        ok, maxl, r = vlib.validate_trace_file(ctx, TMOD, strict, tr2, tag="known")
        if not ok:
            if key in ctx.known:
                ctx.known_finding(key, ctx.known[key][:160])
            else:
                ctx.violation(f"strict contract rejects the probe of {key} at line {maxl}", tr2)
        elif key in ctx.known:
            ctx.log(f"known finding {key} no longer reproduces (the probe is accepted by the strict contract)")

    ctx.assumptions += [
        "projection: harness/registry.cpp reads the registry back through the public accessors (label_entry_of / LabelEntry getters, label_offset*, "
        "is_label_valid/bound, sections(), sections_by_order(), section_by_id, reloc_entries(), address_table_section(), attached_first()/_attached_next, "
        "logger()/error_handler(), code_size(), unresolved_fixup_count()); label table delta-encoded by comparing full snapshots",
        "allocation failures are injected at the arena entry points (hook H1) of the CodeHolder's own arena only; malloc-level failures and failures inside emitters are C15's",
        "documented caller duties are respected by the driver: registry calls on an initialised holder only, new_fixup with valid label/section, "
        "resolve_cross_section_fixups after flatten, section names without NUL, flatten at most once per init",
        "layout arithmetic (flatten offsets) is taken as reported (C10); patched displacement bytes are C03's",
        "ASan/UBSan build is the environment; the big profile also runs on the plain build",
    ]
    vlib.write_evidence(ctx, "model_checking",
        rule="events = API calls executed on real CodeHolders (each with the projection of the whole registry compared to the contract state); "
             "distinct = distinct (call kind, result, argument class, failure injected) tuples; histories = shortest history to every distinct state of the "
             "bounded models + simulated long model histories (real-sized name table crossing its growth points, failures at the growing insert) + seeded random histories",
        trusted_base=["TLC", "spec/code/Registry.tla (contract)", "spec/code/RegistryTrace.tla", "harness/registry.cpp projection", "hook H1"],
        exhaustive=False)


def selftest(ctx, bdir, tcfg):
    ops = [{"op": "init", "envok": True, "base": -1}, {"op": "named", "name": [97], "z": False, "type": 2, "parent": -1},
           {"op": "label"}, {"op": "named", "name": [98], "z": False, "type": 1, "parent": 0},
           {"op": "lookup", "name": [98], "z": False, "parent": 0}, {"op": "section", "name": [100], "z": False, "flags": 0, "align": 8, "order": -1},
           {"op": "bind", "id": 1, "sec": 1, "off": 9}, {"op": "named", "name": [97], "z": False, "type": 2, "parent": -1}, {"op": "sweep"}]
    sp, tr = ctx.path("selftest.script.ndjson"), ctx.path("selftest.trace.ndjson")
    vlib.write_ndjson(sp, [{"cfg": {"static": False}, "ops": ops}])
    vlib.record_trace(ctx, bdir, "registry", ["script", sp, tr], tr, timeout=120)
    recs = vlib.read_ndjson(tr)
    ok, maxl, r = vlib.validate_trace_file(ctx, TMOD, tcfg, tr, tag="self0")
    if not ok:
        return   # the main validation reports it
    muts = []
    li = next(i for i, r in enumerate(recs) if r.get("e") == "Lookup")
    a = json.loads(json.dumps(recs)); a[li]["r"] = -1; muts.append(("lookup result flipped", a))
    ni = next(i for i, r in enumerate(recs) if r.get("e") == "Named" and r.get("r") == "LabelAlreadyDefined")
    b = json.loads(json.dumps(recs)); b[ni]["r"] = "Ok"; b[ni]["id"] = 3; muts.append(("duplicate reported as accepted", b))
    bi = next(i for i, r in enumerate(recs) if r.get("e") == "Bind")
    c = json.loads(json.dumps(recs)); c[bi]["off"] = 8; muts.append(("bind offset argument changed", c))
    si = next(i for i, r in enumerate(recs) if r.get("e") == "Section")
    e = json.loads(json.dumps(recs)); del e[si]; muts.append(("section event deleted", e))
    d = json.loads(json.dumps(recs)); d[ni]["p"]["nl"] = d[ni]["p"]["nl"] + 1
    d[ni]["p"]["lch"].append({"id": 3, "type": 0, "name": [], "parent": -1, "sec": -1, "off": 0, "nsz": 0, "hn": False, "hp": False, "nz": True,
                               "bound": False, "valid": True, "ofb": -1})
    muts.append(("refused call that consumed an id", d))
    for k, (what, m) in enumerate(muts):
        p = ctx.path(f"selftest_mut{k}.ndjson")
        vlib.write_ndjson(p, m)
        ok, maxl, r = vlib.validate_trace_file(ctx, TMOD, tcfg, p, tag=f"self{k + 1}")
        if ok:
            raise Broken(f"trace spec accepted a corrupted trace ({what})")
    ctx.log(f"trace spec rejects {len(muts)} corrupted variants of an accepted trace")


def replay(ctx, path):
    """re-execute the calls of a rejected execution on the current tree and validate the new trace"""
    known = {k for k in MASKABLE if k in ctx.known}
    recs = vlib.read_ndjson(path)
    ops = []
    for r in recs:
        e = r.get("e")
        f = {"fault": r["fm"]} if r.get("fm", "none") != "none" else {}
        m = {"Init": lambda: {"op": "init", "envok": r["envok"], "base": r["base"]}, "Reinit": lambda: {"op": "reinit"},
             "ResetH": lambda: {"op": "reset", "hard": r["hard"]}, "Attach": lambda: {"op": "attach", "em": r["em"]},
             "Detach": lambda: {"op": "detach", "em": r["em"]}, "SetEH": lambda: {"op": "seteh", "h": r["h"]},
             "SetLG": lambda: {"op": "setlg", "g": r["g"]}, "Label": lambda: {"op": "label"},
             "Named": lambda: {"op": "named", "name": r["name"], "z": r["z"], "type": r["type"], "parent": r["parent"]},
             "Lookup": lambda: {"op": "lookup", "name": r["name"], "z": r["z"], "parent": r["parent"]}, "Sweep": lambda: {"op": "sweep"},
             "Bind": lambda: {"op": "bind", "id": r["id"], "sec": r["sec"], "off": r["off"]}, "Fixup": lambda: {"op": "fixup", "id": r["id"], "sec": r["sec"]},
             "Resolve": lambda: {"op": "resolve"}, "Flatten": lambda: {"op": "flatten"},
             "Section": lambda: {"op": "section", "name": r["name"], "z": r["z"], "flags": r["flags"], "align": r["align"], "order": r["order"]},
             "SecByName": lambda: {"op": "secbyname", "name": r["name"], "z": r["z"]}, "Ensure": lambda: {"op": "ensure"},
             "Reloc": lambda: {"op": "reloc", "type": r["type"]}, "ELabel": lambda: {"op": "elabel", "em": r["em"]},
             "ENamed": lambda: {"op": "enamed", "em": r["em"], "name": r["name"], "z": r["z"], "type": r["type"], "parent": r["parent"]},
             "ELookup": lambda: {"op": "elookup", "em": r["em"], "name": r["name"], "z": r["z"], "parent": r["parent"]},
             "EValid": lambda: {"op": "evalid", "em": r["em"], "id": r["id"]}, "EBind": lambda: {"op": "ebind", "em": r["em"], "id": r["id"]}}
        if e == "AddAddr":
            addrs = [0x1000, 0x7FFFFFFF, 0x80000000, 0x123456789ABC, 0xFFFFFFFFFFFFFFF0, 0, 0x1001, 0x8000000000000000]
            v = sum(x << (16 * k) for k, x in enumerate(r["a"]))
            ops.append(dict({"op": "addaddr", "a": addrs.index(v)}, **f))
        elif e in m:
            ops.append(dict(m[e](), **f))
    static = bool(recs and recs[0].get("cfg", {}).get("static"))
    bdir = ctx.build("asan", "registry")
    sp, tr = ctx.path("replay.script.ndjson"), ctx.path("replay.trace.ndjson")
    vlib.write_ndjson(sp, [{"cfg": {"static": static}, "ops": ops}])
    vlib.record_trace(ctx, bdir, "registry", ["script", sp, tr], tr, timeout=600)
    ok, maxl, r = vlib.validate_trace_file(ctx, TMOD, trace_cfg(ctx, "trace", known), tr, tag="replay")
    if not ok:
        ctx.violation(f"replay rejected at line {maxl}", tr)
