"""X05 - register-allocator support structures: stack-slot allocation and register assignment maps behave like their
abstract data types.

Extension check (no listed property).  Components and their contracts (spec/ra/*):
  stack   RAStackAllocator / RAStackSlot (rastack_p.h, rastack.cpp)      RAStack.tla      (+ RAStackImpl: transcription)
  assign  RAAssignment, PhysToWorkMap, WorkToPhysMap (raassignment_p.h)   RAAssign.tla
  spans   RALiveSpans / RALiveSpan (radefs_p.h)                           LiveSpans.tla    (+ LiveSpansMC: transcription)
  tied    RAInstBuilder / RATiedReg (rainst_p.h, radefs_p.h)              RATied.tla
  blocks  RABlock successors / predecessors / flags (racfgblock_p.h)      RABlocks.tla
  tables  RARegCount/Index/Mask/Stats, RALiveCount, RAWorkReg, RAConstraints + snapshots of real allocator runs
          ("vivo": BaseRAPass::on_done of x86-64 / x86-32 / AArch64 functions)      RATablesObs.tla (pointwise)

Decided by TLC:
  1. design   every model is checked (invariants, refinement of the contract by the transcription) and every negative-control
              configuration (an injected slip) must FAIL; every call kind of a model must occur in its exported behaviours.
  2. replay   exhaustive short behaviours and TLC-simulated long behaviours of the models are executed on the REAL classes
              (harness/rasupport.cpp, private headers; ASan/UBSan build) ...
  3. record   ... and long seeded random histories are recorded; TLC validates every execution against the contract of its
              component (the projection read through the accessors after every call must be a state the contract admits).
  4. pointwise observations of the value types and of real allocator runs are judged line by line (RATablesObs.tla).
The contracts are the documented ones (header comments quoted in the specs); C05 judges the allocator end to end, X05 the
abstract data types it is built from."""
import collections, concurrent.futures, copy, json, os, re, threading, time
import vlib
from vlib import Broken

SPEC = os.path.join(vlib.VERIF, "spec", "ra")
P = lambda n: os.path.join(SPEC, n)
TRACE_MOD = {"stack": "RAStackTrace", "assign": "RAAssignTrace", "spans": "LiveSpansTrace", "tied": "RATiedTrace", "blocks": "RABlocksTrace"}
_lock = threading.Lock()

# known-finding keys (listed in KNOWN_FINDINGS.txt / VERIF_KNOWN_EXTRA when accepted by the lead)
K_ORDER = "stack:calc:slots-sorted-ascending-by-weight"
K_BYTES = "stack:bytes_used-never-maintained"
K_WRAP = "stack:calc:frame-beyond-32-bits-wraps-silently"
K_SIZE0 = "stack:calc:size0-slot-undefined-ctz"
K_MULTI = "workreg:has_multiple_use_ids-inverted"

EXPECTED_OPS = {
    "stack": {"new", "use", "setoff", "calc", "adjust", "reset"},
    "assign": {"assign", "unassign", "reassign", "swap", "dirty", "clean", "copy", "copyp2w", "clone", "munassign", "mreset", "swapobj", "resetmaps"},
    "spans": {"open", "close", "isect", "union", "swap", "reset", "width"},
    "tied": {"add", "arg", "ret", "ro", "wo", "reset"},
    "blocks": {"append", "prepend", "flag", "clear"},
}


class SubCtx:
    """Per-thread view of the context (vlib's helpers only need these members)."""
    def __init__(self, ctx):
        self._ctx = ctx
        self.states = self.transitions = self.traces = 0
        self.tlc_cmds = []
        self.pid, self.tier, self.seed = ctx.pid, ctx.tier, ctx.seed

    def path(self, name):
        return self._ctx.path(name)

    def log(self, *a):
        self._ctx.log(*a)


def merge(ctx, sub):
    with _lock:
        ctx.states += sub.states
        ctx.transitions += sub.transitions
        ctx.traces += sub.traces
        ctx.tlc_cmds += sub.tlc_cmds[:1]


# ----------------------------------------------------------------------------------------------------------------------
# 1. design: model configurations
# ----------------------------------------------------------------------------------------------------------------------
def stack_cfg(ctx, name, sizes, aligns, flags, ucs, deltas, maxslots, maxops, variant="head", invs="ContractInv NeverFails GapsDead",
              prop=True, view=True, export=False):
    p = ctx.path(name + ".cfg")
    S = lambda xs: "{" + ", ".join(str(x) for x in xs) + "}"
    t = (f"SPECIFICATION Spec\nCONSTANTS\n  Sizes = {S(sizes)}\n  Aligns = {S(aligns)}\n  FlagSet = {S(flags)}\n  UseCounts = {S(ucs)}\n"
         f"  Deltas <- {deltas}\n  MaxSlots = {maxslots}\n  MaxOps = {maxops}\n  Variant = \"{variant}\"\n")
    if invs or export:
        t += "INVARIANTS " + invs + (" Export" if export else "") + "\n"
    if prop:
        t += "PROPERTY RefinesContract\n"
    if view:
        t += "VIEW View\n"
    open(p, "w").write(t)
    return p


def simple_cfg(ctx, name, spec, consts, invs, props="", view=None, export=False):
    p = ctx.path(name + ".cfg")
    t = f"SPECIFICATION {spec}\nCONSTANTS\n" + "".join(f"  {c}\n" for c in consts)
    t += "INVARIANTS " + invs + (" Export" if export else "") + "\n"
    if props:
        t += f"PROPERTY {props}\n"
    if view:
        t += f"VIEW {view}\n"
    open(p, "w").write(t)
    return p


def design_jobs(ctx):
    """Returns a list of (tag, module, cfg, expect) with expect = 'ok' or the name of what must be violated."""
    q = ctx.quick
    jobs = []
    # ---- stack: transcription refines the contract; the gap lists stay empty; negative controls
    if q:
        jobs.append(("stack_mc", "RAStackMC", stack_cfg(ctx, "stack_mc", [4, 12], [0, 16], [1, 3], [5], "MCDeltas", 3, 8), "ok", 8))
        jobs.append(("stack_mc4", "RAStackMC", stack_cfg(ctx, "stack_mc4", [4, 16], [4, 16], [1], [5], "MCDeltas", 4, 6), "ok", 6))
    else:
        jobs.append(("stack_mc", "RAStackMC", stack_cfg(ctx, "stack_mc", [4, 8, 12], [0, 4, 16], [1, 3], [5], "MCDeltas", 3, 12), "ok", 12))
        jobs.append(("stack_mc4", "RAStackMC", stack_cfg(ctx, "stack_mc4", [4, 16], [4, 16], [1], [5], "MCDeltas", 4, 8), "ok", 6))
        jobs.append(("stack_mc_desc", "RAStackMC", stack_cfg(ctx, "stack_mc_desc", [4, 12], [0, 16], [1, 3], [5], "MCDeltas", 3, 12, variant="desc"), "ok", 4))
    small = dict(sizes=[4, 8, 12], aligns=[0, 4, 16], flags=[0, 1, 3], ucs=[5], deltas="MCDeltas", maxslots=3, maxops=8)
    for v in ("gapfix", "noalign", "argmove"):
        jobs.append((f"stack_neg_{v}", "RAStackMC", stack_cfg(ctx, f"stack_neg_{v}", variant=v, invs="ContractInv NeverFails", **small), "RefinesContract", 4))
    jobs.append(("stack_neg_size0", "RAStackMC", stack_cfg(ctx, "stack_neg_size0", [0, 8], [0, 4], [1], [5], "MCDeltas", 2, 8, invs="NeverFails", prop=False), "NeverFails", 2))
    # ---- assign
    lay = [("A", 5 if q else 6), ("B", 4 if q else 5), ("C", 6 if q else 7)]
    for nm, d in lay:
        jobs.append((f"assign_mc{nm}", "RAAssignMC", simple_cfg(ctx, f"assign_mc{nm}", "MCSpec", [f"MCpc <- Pc{nm}", f"MCwg <- Wg{nm}", f"MaxOps = {d}", 'Bug = "none"'],
                                                               "AssignInv", "DirtyTravels", "MCView"), "ok", 8))
    for bug, what in (("reassign_keeps_src", "AssignInv"), ("unassign_keeps_dirty", "AssignInv"), ("swap_keeps_dirty", "DirtyTravels")):
        jobs.append((f"assign_neg_{bug}", "RAAssignMC", simple_cfg(ctx, f"assign_neg_{bug}", "MCSpec", ["MCpc <- PcA", "MCwg <- WgA", "MaxOps = 5", f'Bug = "{bug}"'],
                                                                   "AssignInv", "DirtyTravels", "MCView"), what, 4))
    # ---- spans
    jobs.append(("spans_mc", "LiveSpansMC", simple_cfg(ctx, "spans_mc", "MCSpec", [f"U = {6 if q else 7}", f"MaxOps = {5 if q else 6}", 'Variant = "head"'],
                                                       "SpansInv Refines IntervalsAgree", view="MCView"), "ok", 8))
    for v in ("open_gt", "isect_touch", "union_nocheck"):
        jobs.append((f"spans_neg_{v}", "LiveSpansMC", simple_cfg(ctx, f"spans_neg_{v}", "MCSpec", ["U = 6", "MaxOps = 5", f'Variant = "{v}"'],
                                                                 "SpansInv Refines IntervalsAgree", view="MCView"), "Refines", 4))
    # ---- tied, blocks
    jobs.append(("tied_mc", "RATiedMC", simple_cfg(ctx, "tied_mc", "MCSpec", [f"MaxOps = {4 if q else 5}", 'Bug = "none"'], "TiedInv MaskWithinAll RefCounts", view="MCView"), "ok", 8))
    for bug, what in (("count_every_add", "TiedInv"), ("mask_union", "MaskWithinAll")):
        jobs.append((f"tied_neg_{bug}", "RATiedMC", simple_cfg(ctx, f"tied_neg_{bug}", "MCSpec", ["MaxOps = 4", f'Bug = "{bug}"'], "TiedInv MaskWithinAll RefCounts", view="MCView"), what, 4))
    jobs.append(("blocks_mc", "RABlocksMC", simple_cfg(ctx, "blocks_mc", "MCSpec", ["N = 3", f"MaxOps = {5 if q else 7}", 'Bug = "none"'], "BlocksInv", "PrependFirst", "MCView"), "ok", 8))
    for bug in ("nodupcheck", "onesided"):
        jobs.append((f"blocks_neg_{bug}", "RABlocksMC", simple_cfg(ctx, f"blocks_neg_{bug}", "MCSpec", ["N = 3", "MaxOps = 5", f'Bug = "{bug}"'], "BlocksInv", "PrependFirst", "MCView"), "BlocksInv", 2))
    return jobs


def run_design(ctx):
    jobs = design_jobs(ctx)
    res = {}
    walls = {}

    def one(job):
        tag, mod, cfg, expect, workers = job
        sub = SubCtx(ctx)
        r = vlib.run_tlc(sub, P(mod + ".tla"), cfg, workers=workers, timeout=1500 if not ctx.quick else 500, heap="8g" if workers >= 8 else "3g", tag=tag)
        merge(ctx, sub)
        walls[tag] = round(r.wall)
        return tag, expect, r
    with concurrent.futures.ThreadPoolExecutor(max_workers=5) as ex:
        for tag, expect, r in ex.map(one, jobs):
            if expect == "ok":
                vlib.tlc_must_ok(ctx, r, f"design {tag}")
                res[tag] = r.distinct
            else:
                allowed = {expect} | ({"RefinesContract", "?", "NeverFails"} if expect == "RefinesContract" else set())
                if r.kind != "violation" or r.violated not in allowed:
                    raise Broken(f"negative control {tag} must violate {expect}: kind={r.kind} violated={r.violated}\n" + "\n".join(r.out.splitlines()[-15:]))
                res[tag] = "fails as required (" + str(r.violated) + ")"
    ctx.extra["design"] = res
    ctx.log("design wall (s): " + ", ".join(f"{k}={v}" for k, v in sorted(walls.items(), key=lambda kv: -kv[1])[:8]))
    ctx.log("design: " + ", ".join(f"{k}={v}" for k, v in res.items() if isinstance(v, int)))
    ctx.log("negative controls: " + ", ".join(k for k, v in res.items() if not isinstance(v, int)) + " all fail as required")


# ----------------------------------------------------------------------------------------------------------------------
# 2. behaviour export -> scripts
# ----------------------------------------------------------------------------------------------------------------------
LAYOUTS = {"A": ([2, 2, 0, 1], [0, 0, 1, 3]), "B": ([3, 1, 1, 0], [0, 0, 0, 1, 2]), "C": ([2, 0, 0, 0], [0, 0, 0])}


def export_jobs(ctx):
    """(comp, hdr, tag, module, cfg, simulate, depth)"""
    q = ctx.quick
    J = []
    # exhaustive short behaviours
    J.append(("stack", {"scale": 1, "tag": "model"}, "exp_stack", "RAStackMC",
              stack_cfg(ctx, "exp_stack", [4, 12] if q else [4, 12, 16], [0, 16], [1, 3], [5], "MCDeltas", 2, 8 if q else 9, invs="", prop=False, view=False, export=True), None, None))
    J.append(("stack", {"scale": 1, "tag": "model"}, "sim_stack", "RAStackMC",
              stack_cfg(ctx, "sim_stack", [1, 2, 4, 8, 12, 16, 24, 32, 64, 100], [0, 1, 2, 4, 8, 16, 32, 64], [0, 1, 2, 3], [1, 3, 9], "MCDeltasWide", 7, 18,
                        invs="ContractInv NeverFails GapsDead", prop=True, view=False, export=True), 150 if q else 1500, 22))
    for nm in ("A", "B") if q else ("A", "B", "C"):
        pc, wg = LAYOUTS[nm]
        J.append(("assign", {"pc": pc, "wg": wg}, f"exp_assign{nm}", "RAAssignMC",
                  simple_cfg(ctx, f"exp_assign{nm}", "MCSpec", [f"MCpc <- Pc{nm}", f"MCwg <- Wg{nm}", "MaxOps = 3", 'Bug = "none"'], "AssignInv", export=True), None, None))
        J.append(("assign", {"pc": pc, "wg": wg}, f"sim_assign{nm}", "RAAssignMC",
                  simple_cfg(ctx, f"sim_assign{nm}", "MCSpec", [f"MCpc <- Pc{nm}", f"MCwg <- Wg{nm}", "MaxOps = 24", 'Bug = "none"'], "AssignInv", export=True), 60 if q else 500, 26))
    J.append(("spans", {"inf": 5 if q else 4}, "exp_spans", "LiveSpansMC",
              simple_cfg(ctx, "exp_spans", "MCSpec", [f"U = {5 if q else 4}", f"MaxOps = {3 if q else 4}", 'Variant = "head"'], "SpansInv Refines", export=True), None, None))
    J.append(("spans", {"inf": 12}, "sim_spans", "LiveSpansMC",
              simple_cfg(ctx, "sim_spans", "MCSpec", ["U = 12", "MaxOps = 22", 'Variant = "head"'], "SpansInv Refines", export=True), 100 if q else 800, 24))
    J.append(("tied", {"wg": [0, 1]}, "exp_tied", "RATiedMC",
              simple_cfg(ctx, "exp_tied", "MCSpec", [f"MaxOps = {2 if q else 3}", 'Bug = "none"'], "TiedInv", export=True), None, None))
    J.append(("tied", {"wg": [0, 1]}, "sim_tied", "RATiedMC",
              simple_cfg(ctx, "sim_tied", "MCSpec", ["MaxOps = 12", 'Bug = "none"'], "TiedInv", export=True), 60 if q else 400, 14))
    J.append(("blocks", {"n": 3}, "exp_blocks", "RABlocksMC",
              simple_cfg(ctx, "exp_blocks", "MCSpec", ["N = 3", f"MaxOps = {3 if q else 4}", 'Bug = "none"'], "BlocksInv", export=True), None, None))
    J.append(("blocks", {"n": 3}, "sim_blocks", "RABlocksMC",
              simple_cfg(ctx, "sim_blocks", "MCSpec", ["N = 3", "MaxOps = 16", 'Bug = "none"'], "BlocksInv", export=True), 40 if q else 300, 18))
    return J


def export_behaviours(ctx):
    scripts = collections.defaultdict(list)
    cap = 900 if ctx.quick else 4000

    def one(job):
        comp, hdr, tag, mod, cfg, sim, depth = job
        sub = SubCtx(ctx)
        r = vlib.run_tlc(sub, P(mod + ".tla"), cfg, workers=4, timeout=900, heap="4g", tag=tag, simulate=(sim // 4 if sim else None), depth=depth,
                         seed=(ctx.seed if sim else None))
        if r.kind != "ok":
            raise Broken(f"behaviour export {tag}: kind={r.kind} violated={r.violated}\n" + "\n".join(r.out.splitlines()[-20:]))
        beh = vlib.parse_beh(r.out)
        return comp, hdr, tag, beh
    with concurrent.futures.ThreadPoolExecutor(max_workers=5) as ex:
        for comp, hdr, tag, beh in ex.map(one, export_jobs(ctx)):
            uniq = sorted({json.dumps(b) for b in beh})
            total = len(uniq)
            if total > cap:
                step = total / cap
                uniq = [uniq[int(i * step)] for i in range(cap)]
            for u in uniq:
                scripts[comp].append({"hdr": hdr, "ops": json.loads(u)})
            ctx.log(f"export {tag}: {total} behaviours ({len(uniq)} replayed)")
    # every call kind of every model occurs in some exported behaviour (action coverage measured on TLC's own behaviours)
    for comp, want in EXPECTED_OPS.items():
        seen = {op[0] for sc in scripts[comp] for op in sc["ops"]}
        if want - seen:
            raise Broken(f"model of {comp}: call kinds never taken in the exported behaviours: {sorted(want - seen)}")
    ctx.extra["model_behaviours"] = {c: len(v) for c, v in scripts.items()}
    return scripts


# ----------------------------------------------------------------------------------------------------------------------
# hand-written scenarios for the stack allocator (limits)
# ----------------------------------------------------------------------------------------------------------------------
def stack_scenarios():
    G = 262144          # 2^30 / 4096
    S = []
    # documented order of slots(): three register homes with different access counts
    S.append(("order", {"scale": 1, "tag": "order"}, [["new", 8, 8, 1, 4], ["use", 0, 1], ["new", 8, 8, 1, 4], ["use", 1, 9], ["new", 8, 8, 1, 4], ["use", 2, 4], ["calc"]]))
    # sizes close to the 32-bit limits, in units of 4096 bytes
    S.append(("huge_fits", {"scale": 4096, "tag": "huge"}, [["new", G, 16, 1, 4], ["new", G - 1, 64, 0, 4], ["calc"], ["adjust", 16]]))
    S.append(("huge_int32", {"scale": 4096, "tag": "huge"}, [["new", G, 16, 1, 4], ["new", G, 16, 1, 4], ["new", G // 2, 16, 1, 4], ["calc"]]))
    S.append(("huge_wrap", {"scale": 4096, "tag": "huge"}, [["new", G, 16, 1, 4], ["new", G, 16, 1, 4], ["new", G, 16, 1, 4], ["new", G, 16, 1, 4], ["new", 1, 16, 1, 4], ["calc"]]))
    # a slot of size 0
    S.append(("size0", {"scale": 1, "tag": "size0"}, [["new", 0, 4, 1, 4], ["new", 8, 8, 1, 4], ["calc"]]))
    # stack arguments keep their position; alignment 0 / 128; flags added later; reset and reuse
    S.append(("args", {"scale": 1, "tag": "args"}, [["new", 4, 4, 3, 4], ["setoff", 0, 40], ["new", 16, 16, 1, 4], ["new", 4, 0, 0, 4], ["new", 8, 128, 1, 4],
                                                   ["flag", 2, 2], ["setoff", 2, -24], ["calc"], ["adjust", 48], ["calc"], ["adjust", -8], ["reset"],
                                                   ["new", 2, 2, 1, 31], ["calc"]]))
    return S


# ----------------------------------------------------------------------------------------------------------------------
# 3./4. record + validate
# ----------------------------------------------------------------------------------------------------------------------
def classify_stack(rej):
    recs, idx = rej["records"], rej["index"]
    bad = recs[idx] if idx < len(recs) else {"e": "END"}
    tag = recs[0].get("tag", "") if recs else ""
    what = f"stack: event {idx} {json.dumps(bad)[:300]} inv={rej['inv']}"
    if tag == "size0" and bad.get("e") in ("ABORT", "Calc", "END"):
        return K_SIZE0, what
    if tag == "huge" and bad.get("e") == "Calc":
        scale = recs[0].get("scale", 1)
        total = sum(r["size"] for r in recs if r.get("e") == "New") * scale
        if total >= 2 ** 31:
            return K_WRAP, what
    return None, what


def describe(comp, rej):
    recs, idx = rej["records"], rej["index"]
    bad = recs[idx] if idx < len(recs) else {"e": "END"}
    if bad.get("e") == "ABORT":
        prev = recs[idx - 1] if idx else {}
        return f"{comp}: the harness aborted (sanitizer report / crash) after event {idx - 1} {json.dumps(prev.get('op', prev.get('e')))[:200]}: {bad.get('why', '')[:160]}"
    d = {k: v for k, v in bad.items() if k != "st"}
    return f"{comp}: event {idx} {json.dumps(d)[:260]} rejected (inv={rej['inv']}); state read back: {json.dumps(bad.get('st'))[:400]}"


def run(ctx):
    q = ctx.quick
    bdir = ctx.build("asan", "rasupport")
    strict_order = K_ORDER not in ctx.known
    strict_bytes = K_BYTES not in ctx.known
    os.environ["X05_ORDER"] = "1" if strict_order else "0"
    os.environ["X05_BYTES"] = "1" if strict_bytes else "0"

    # ---- 1. design ---------------------------------------------------------------------------------------------------
    t0 = time.time()
    if os.environ.get("X05_SKIP_DESIGN") != "1":        # (builder's shortcut for mutant runs: the models do not depend on /repo)
        run_design(ctx)
    ctx.log(f"design done in {time.time() - t0:.0f}s")

    # ---- 2. behaviours of the models -> scripts ----------------------------------------------------------------------
    scripts = export_behaviours(ctx)

    # ---- 3. execute on the real code -----------------------------------------------------------------------------------
    traces = []       # (comp, tag, path)
    jobs = []
    for comp, scs in scripts.items():
        sp = ctx.path(f"scripts_{comp}.ndjson")
        vlib.write_ndjson(sp, scs)
        jobs.append((comp, "model", ["script", comp, sp, ctx.path(f"trace_{comp}_model.ndjson")], ctx.path(f"trace_{comp}_model.ndjson"), ctx.seed))
    nshard, nexec, steps = (2, 80, 40) if q else (6, 250, 60)
    for comp in TRACE_MOD:
        for s in range(nshard):
            tp = ctx.path(f"trace_{comp}_r{s}.ndjson")
            n = nexec if comp not in ("stack",) else nexec
            st = {"stack": 16, "assign": steps, "spans": steps, "tied": 30, "blocks": 30}[comp]
            jobs.append((comp, f"r{s}", ["random", comp, tp, n, st], tp, int(ctx.seed) * 100 + s))
    # stack scenarios: one process each (an abort must not take other executions with it)
    for name, hdr, ops in stack_scenarios():
        sp = ctx.path(f"scen_{name}.ndjson")
        vlib.write_ndjson(sp, [{"hdr": hdr, "ops": ops}])
        jobs.append(("stack", f"scen_{name}", ["script", "stack", sp, ctx.path(f"trace_stack_scen_{name}.ndjson")], ctx.path(f"trace_stack_scen_{name}.ndjson"), ctx.seed))
    # many slots in one frame
    for i, n in enumerate([3000] if q else [3000, 70000]):
        tp = ctx.path(f"trace_stack_big{i}.ndjson")
        jobs.append(("stack", f"big{i}", ["random", "stackbig", tp, 1, n], tp, int(ctx.seed) + i))

    def rec(job):
        comp, tag, args, tp, seed = job
        vlib.record_trace(ctx, bdir, "rasupport", args, tp, timeout=900, env={"VERIF_SEED": seed})
        return comp, tag, tp
    with concurrent.futures.ThreadPoolExecutor(max_workers=6) as ex:
        traces = list(ex.map(rec, jobs))
    ctx.log(f"{len(traces)} harness runs done")

    # ---- 4. trace validation ---------------------------------------------------------------------------------------------
    # scenario executions are validated one by one (their rejections are classified); the rest is concatenated per component
    tasks = []
    for comp in TRACE_MOD:
        bulk = []
        for c, tag, tp in traces:
            if c != comp:
                continue
            recs = vlib.read_ndjson(tp)
            if tag.startswith("scen_") or tag.startswith("big"):
                tasks.append((comp, f"{comp}_{tag}", tp, recs))
            else:
                bulk += recs
        CH = 30000 if q else 45000
        execs = vlib.split_executions(bulk)
        cur, n, k = [], 0, 0
        for e in execs:
            if cur and n + len(e) > CH:
                p = ctx.path(f"in_{comp}_{k}.ndjson"); vlib.write_ndjson(p, cur); tasks.append((comp, f"{comp}_{k}", p, cur)); cur, n, k = [], 0, k + 1
            cur += e
            n += len(e)
        if cur:
            p = ctx.path(f"in_{comp}_{k}.ndjson"); vlib.write_ndjson(p, cur); tasks.append((comp, f"{comp}_{k}", p, cur))
    os.environ["JAVA_TOOL_OPTIONS"] = "-Xss64m -XX:ParallelGCThreads=2"
    results = []

    def validate(task):
        comp, tag, p, recs = task
        sub = SubCtx(ctx)
        rej = vlib.validate_executions(sub, P(TRACE_MOD[comp] + ".tla"), P(TRACE_MOD[comp] + ".cfg"), p, tag=tag, timeout=1500, heap="4g", max_rejects=4)
        merge(ctx, sub)
        return task, rej
    tasks.sort(key=lambda t: -len(t[3]))
    with concurrent.futures.ThreadPoolExecutor(max_workers=6) as ex:
        results = list(ex.map(validate, tasks))
    os.environ.pop("JAVA_TOOL_OPTIONS", None)

    per_comp = collections.Counter()
    kinds = collections.defaultdict(collections.Counter)
    for (comp, tag, p, recs), rej in results:
        for r in recs:
            e = r.get("e")
            if e in ("Reset", None):
                continue
            per_comp[comp] += 1
            k = r["op"][0] if e == "Op" else e
            kinds[comp][k] += 1
            ctx.distinct.add((comp, k, json.dumps(r.get("op", [r.get(x) for x in ("size", "align", "flags", "i", "k", "d", "off")]))[:90], str(r.get("r"))))
        for x in rej:
            key, what = (classify_stack(x) if comp == "stack" else (None, None))
            what = describe(comp, x)
            if key and key in ctx.known:
                ctx.known_finding(key, ctx.known[key] or what)
            else:
                hint = f" [matches finding signature {key}, not listed in KNOWN_FINDINGS.txt]" if key else ""
                ctx.violation(what + hint, x["path"])
    ctx.evaluations = sum(per_comp.values())
    ctx.extra["calls_validated_per_component"] = dict(per_comp)
    ctx.extra["call_kinds"] = {c: dict(v) for c, v in kinds.items()}
    ctx.log("calls validated per component:", dict(per_comp))
    for comp in TRACE_MOD:
        for (c, tag, p, recs), rej in results:
            if c == comp and recs and not tag.startswith(comp + "_scen") and not tag.startswith(comp + "_big"):
                ev = [r for r in recs if r.get("e") != "Reset"][:2]
                ctx.add_sample({"component": comp, "events": [{k: v for k, v in x.items() if k != "st"} for x in ev]}, limit=8)
                break

    # ---- known findings that are switched off in the bulk validation: re-execute each one separately -------------------
    order_trace = ctx.path("trace_stack_scen_order.ndjson")
    for key, envk, listed in ((K_ORDER, "X05_ORDER", not strict_order), (K_BYTES, "X05_BYTES", not strict_bytes)):
        if listed:
            ok, maxl, r = vlib.validate_trace_file(ctx, P("RAStackTrace.tla"), P("RAStackTrace.cfg"), order_trace, tag="known_" + envk, extra_env={envk: "1"})
            if not ok:
                ctx.known_finding(key, ctx.known[key])
            else:
                ctx.log(f"known finding {key} no longer fires")

    # ---- trace specs reject a corrupted field and a deleted line (the acceptance is not vacuous) ------------------------
    negative_trace_controls(ctx, results)

    # ---- 5. pointwise: value types + real allocator runs ------------------------------------------------------------------
    pointwise(ctx, bdir)

    ctx.assumptions += [
        "projection = the accessors of the private headers (slots(), offset(), work_to_phys_id(), phys_to_work_id(), is_phys_assigned/dirty, data()/size(), tied registers, successors()/predecessors()); raw members only where no accessor exists (builder counters, PhysToWorkMap of a detached map)",
        "ASMJIT_ASSERT is compiled out: the drivers only issue calls whose asserted preconditions hold; the trace specs re-check every precondition in the specification state",
        "allocation never fails in this check (failure handling is C15)",
        "the in-vivo snapshots are taken in an on_done() override of the x86/AArch64 RA pass installed by the harness (no change of /repo)",
        "ASan/UBSan build is the environment: an abort truncates the trace and the ABORT line is rejected",
    ]
    vlib.write_evidence(ctx, "model_checking",
        rule="evaluations = API calls executed on the real classes and accepted or rejected by TLC against the contract of their component, plus pointwise "
             "observations; distinct = distinct (component, call, arguments, result) tuples and observation kinds; states = TLC states of the design models "
             "(transcriptions refine the contracts) plus one state per validated trace event",
        trusted_base=["TLC", "spec/ra/RAStack.tla, RAAssign.tla, LiveSpans.tla, RATied.tla, RABlocks.tla, RATablesObs.tla (contracts)", "harness/rasupport.cpp projection", "spec/lib/TraceLib.tla"])


def negative_trace_controls(ctx, results):
    done = set()
    for (comp, tag, p, recs), rej in results:
        if comp in done or rej or "_scen" in tag or "_big" in tag:
            continue
        execs = vlib.split_executions(recs)
        ex = next((e for e in execs if len(e) >= 6), None)
        if ex is None:
            continue
        done.add(comp)
        mod, cfg = P(TRACE_MOD[comp] + ".tla"), P(TRACE_MOD[comp] + ".cfg")
        # (a) one deleted line in the middle, (b) one corrupted field of the projection
        a = ex[:3] + ex[4:]
        b = copy.deepcopy(ex)
        corrupt(comp, b)
        for nm, t in (("deleted", a), ("corrupt", b)):
            tp = ctx.path(f"negtrace_{comp}_{nm}.ndjson")
            vlib.write_ndjson(tp, t)
            ok, maxl, r = vlib.validate_trace_file(ctx, mod, cfg, tp, tag=f"negtrace_{comp}_{nm}")
            if ok and not (nm == "deleted" and harmless_deletion(comp, ex[3])):
                raise Broken(f"trace spec {TRACE_MOD[comp]} accepts a trace with a {nm} event ({tp})")
    missing = set(TRACE_MOD) - done
    if missing:
        ctx.log(f"negative trace controls skipped for {sorted(missing)} (no accepted execution long enough)")


def harmless_deletion(comp, ev):
    """deleting a pure query (or a call that changed nothing) leaves a valid trace"""
    if comp == "stack":
        return ev.get("e") in ("Calc",)          # a repeated calc reproduces the same layout
    op = ev.get("op", [""])[0]
    return op in ("equals", "isect", "width", "isopen", "hassucc", "cdata", "open", "open2", "close", "union", "append", "prepend", "flag", "clear", "reach",
                  "target", "alloc", "constructed", "dirty", "clean", "clone", "mreset", "copy", "copymaps", "copyp2w", "aggr", "usedone", "outdone", "ro", "wo", "reset",
                  "resetmaps", "swapobj", "munassign")


def corrupt(comp, ex):
    for ev in ex[2:]:
        st = ev.get("st")
        if comp == "stack" and st and st["slots"]:
            st["slots"][0][0] += 1; return
        if comp == "assign" and st:
            st["A"]["w2p"][0] = 0 if st["A"]["w2p"][0] != 0 else 1; return
        if comp == "spans" and st:
            st["X"] = st["X"] + [[900, 901]]; return
        if comp == "tied" and st:
            st["cnt"][0] += 1; return
        if comp == "blocks" and st:
            st[0]["succ"] = st[0]["succ"] + [0]; return


# ----------------------------------------------------------------------------------------------------------------------
def pointwise(ctx, bdir):
    q = ctx.quick
    tp, vp = ctx.path("obs_tables.ndjson"), ctx.path("obs_vivo.ndjson")
    rc, _, err = vlib.run_harness(ctx, bdir, "rasupport", ["tables", tp, 150 if q else 1500], timeout=600, env={"VERIF_SEED": ctx.seed})
    if rc != 0:
        raise Broken(f"harness tables exit {rc}: {err[-800:]}")
    rc, _, err = vlib.run_harness(ctx, bdir, "rasupport", ["vivo", vp, 150 if q else 2500], timeout=1200, env={"VERIF_SEED": ctx.seed})
    vivo_abort = None
    if rc != 0:
        vivo_abort = (err or "").strip().splitlines()[-1:] or ["?"]
        open(vp + ".stderr", "w").write(err or "")
    obs = [o for o in vlib.read_ndjson(tp) + vlib.read_ndjson(vp) if "k" in o]      # (a crash leaves a truncated last line; it is reported below)
    # negative control: corrupted copies of real snapshots must be rejected
    bad = corrupted_snapshots([o for o in obs if o.get("k") == "vivo"])
    allp = ctx.path("obs_all.ndjson")
    vlib.write_ndjson(allp, obs + bad)
    r = vlib.run_tlc(ctx, P("RATablesObs.tla"), P("RATablesObs.cfg"), workers=8, timeout=1500, heap="6g", tag="obs", env={"OBS": allp})
    if r.kind != "ok":
        raise Broken("pointwise TLC run failed: " + "\n".join(r.out.splitlines()[-25:]))
    ctx.states += r.distinct
    rej = {}
    for m in re.finditer(r'<<\s*"REJECT",\s*(\d+),\s*\{(.*?)\}\s*>>', r.out, re.S):
        rej[int(m.group(1))] = sorted(x.strip().strip('"') for x in m.group(2).split(","))
    nreal = len(obs)
    missed = [i for i in range(nreal + 1, nreal + len(bad) + 1) if i not in rej]
    nok = len([o for o in obs if o.get("k") == "vivo" and o.get("r") == "Ok"])
    if missed or (not bad and nok >= 8):
        raise Broken(f"pointwise negative control: corrupted snapshots accepted: {missed} (of {len(bad)})")
    ctx.evaluations += nreal
    counts = collections.Counter(o.get("k") for o in obs)
    ctx.extra["observations"] = dict(counts)
    ctx.extra["vivo_functions"] = {f"{a}:{r_}": n for (a, r_), n in collections.Counter((o["arch"], o["r"]) for o in obs if o.get("k") == "vivo").items()}
    for k in counts:
        ctx.distinct.add(("obs", k))
    if vivo_abort:
        p = ctx.path("vivo_abort.txt")
        open(p, "w").write(err or "")
        ctx.violation(f"vivo: the harness aborted while compiling function #{counts.get('vivo', 0)} (sanitizer report / crash): {vivo_abort[0][:200]}", p)
    reported = set()
    for i in sorted(rej):
        if i > nreal:
            continue
        o = obs[i - 1]
        for clause in rej[i]:
            key = K_MULTI if clause == "workreg:has_multiple_use_ids" else None
            sig = (clause,)
            if key and key in ctx.known:
                ctx.known_finding(key, ctx.known[key])
                continue
            if sig in reported:
                continue
            reported.add(sig)
            rp = ctx.path(f"obs_rejected_{len(reported)}.ndjson")
            vlib.write_ndjson(rp, [o])
            hint = f" [matches finding signature {key}, not listed in KNOWN_FINDINGS.txt]" if key else ""
            small = {k: v for k, v in o.items() if k != "snap"}
            ctx.violation(f"observation {i} violates {clause}: {json.dumps(small)[:500]}{hint}", rp)
    ctx.add_sample({"observation": {k: v for k, v in obs[0].items()}}, limit=8)
    ctx.log(f"pointwise: {nreal} observations ({dict(counts)}), {len([i for i in rej if i <= nreal])} rejected; {len(bad)} corrupted snapshots rejected as required")


def corrupted_snapshots(vivo):
    out = []
    n = 0
    for r in vivo:
        s = r.get("snap")
        if not s or r.get("r") != "Ok":
            continue
        r2 = copy.deepcopy(r)
        s2 = r2["snap"]
        placed = [x for x in s2["stack"]["slots"] if not (x[2] & 2) and x[0] > 0]
        if n == 0 and len(placed) >= 2:
            placed[1][3] = placed[0][3]
        elif n == 1 and len(s2["pairs"]) > 3:
            s2["pairs"][0][2] = not s2["pairs"][0][2]
        elif n == 2 and len(s2["blocks"]) > 2 and s2["blocks"][1]["pred"]:
            s2["blocks"][1]["pred"] = []
        elif n == 3:
            s2["avail"][0].append(s2["sp"])
        elif n == 4 and s2["gspans"]:
            s2["gspans"][0]["spans"].append([900000, 900001])
        elif n == 5 and len([x for x in s2["regs"] if x["alloc"]]) >= 2:
            a = [x for x in s2["regs"] if x["alloc"]]
            a[1]["g"], a[1]["home"], a[1]["spans"] = a[0]["g"], a[0]["home"], a[0]["spans"]
        elif n == 6 and any(x["spans"] for x in s2["regs"]):
            x = next(x for x in s2["regs"] if x["spans"])
            x["spans"] = x["spans"] + [[x["spans"][-1][1], x["spans"][-1][1] + 2]]          # touching neighbour: not coalesced
        elif n >= 7:
            break
        else:
            continue
        out.append(r2)
        n += 1
    return out


def replay(ctx, path):
    """Re-execute the recorded calls of one rejected execution on the current tree and validate again."""
    path = os.path.abspath(path)
    recs = vlib.read_ndjson(path)
    if recs and recs[0].get("k"):
        r = vlib.run_tlc(ctx, P("RATablesObs.tla"), P("RATablesObs.cfg"), workers=1, timeout=600, tag="replay_obs", env={"OBS": path})
        if "REJECT" in r.out:
            ctx.violation("observation rejected: " + " ".join(re.findall(r'\{.*?\}', r.out)[:1]), path)
        return
    comp = recs[0].get("c") if recs else None
    if comp not in TRACE_MOD:
        raise Broken("cannot tell the component of " + path)
    os.environ.setdefault("X05_ORDER", "1" if K_ORDER not in ctx.known else "0")
    os.environ.setdefault("X05_BYTES", "1" if K_BYTES not in ctx.known else "0")
    mod, cfg = P(TRACE_MOD[comp] + ".tla"), P(TRACE_MOD[comp] + ".cfg")
    ok, maxl, r = vlib.validate_trace_file(ctx, mod, cfg, path, tag="replay_recorded")
    if not ok:
        ctx.log(f"recorded execution is rejected at line {maxl} ({r.violated})")
    hdr = {k: v for k, v in recs[0].items() if k in ("scale", "tag", "pc", "wg", "inf", "n")}
    ops = []
    for e in recs[1:]:
        if e.get("e") == "Op":
            ops.append(e["op"])
        elif comp == "stack":
            m = {"New": lambda e: ["new", e["size"], e["align"], e["flags"], e["base"]], "Use": lambda e: ["use", e["i"], e["k"]],
                 "Flag": lambda e: ["flag", e["i"], e["f"]], "SetOff": lambda e: ["setoff", e["i"], e["off"]], "SetBase": lambda e: ["setbase", e["i"], e["base"]],
                 "Calc": lambda e: ["calc"], "Adjust": lambda e: ["adjust", e["d"]], "ResetAlloc": lambda e: ["reset"]}.get(e.get("e"))
            if m:
                ops.append(m(e))
    bdir = ctx.build("asan", "rasupport")
    sp, tr = ctx.path("replay_script.ndjson"), ctx.path("replay_trace.ndjson")
    vlib.write_ndjson(sp, [{"hdr": hdr, "ops": ops}])
    vlib.record_trace(ctx, bdir, "rasupport", ["script", comp, sp, tr], tr)
    ok2, maxl2, r2 = vlib.validate_trace_file(ctx, mod, cfg, tr, tag="replay_rerun")
    if not ok2:
        rr = vlib.read_ndjson(tr)
        x = {"records": rr, "index": maxl2 - 1, "inv": r2.violated}
        key = classify_stack(x)[0] if comp == "stack" else None
        if key and key in ctx.known:
            ctx.known_finding(key, ctx.known[key])
        else:
            ctx.violation("replay " + describe(comp, x), tr)
