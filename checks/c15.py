"""C15 - allocation failure yields an error, never a crash, leak or wrong code.

Decided by: (1) TLC, design level: FaultsMC.tla - reserve-then-append and acquire/roll-back transactions with every
allocation request an explicit step, every program of MaxOps transactions and every single/double failure position,
with both continuations after a reported error (go on / repeat the failed transaction in place), invariants
NoCorruption / Consistent / Atomic / NoLeak / RetryEqualsClean / InPlaceCompletes; four negative controls must be violated.
(2) Trace validation against the CONTRACT Faults.tla: harness/faults.cpp runs each workload once clean and then, per
injected failure position (k-th arena request through hook H1, k-th heap request and k-th VM request through link-time
wrapping), once with the continuation "restart" (go on after every error) and once with "retry in place" (memory is
made available and exactly the failed call is repeated on the same objects, then the workload goes on); every run ends
with reset, a full retry on the same objects, destruction and leak accounting.  FaultsTrace.tla accepts an execution
iff the property held on it.  A crash/hang of the traced process is an ABORT line no action consumes.
Workloads W1..W5 (assemble x64/a64, build+serialize, compile+execute, JIT add, containers+pool), W6..W8 (arena grown
to several blocks -> soft reset / reinit / detach+attach -> request bigger than every retained block: directly, in the
builder arena, in the compiler's arenas).  Flavour: asan for all classes (the wrappers forward to ASan's allocator)."""
import collections, concurrent.futures, json, os, re
import vlib
from vlib import Broken

SPEC = os.path.join(vlib.VERIF, "spec", "fault")
MOD_T, CFG_T = os.path.join(SPEC, "FaultsTrace.tla"), os.path.join(SPEC, "FaultsTrace.cfg")
MOD_MC = os.path.join(SPEC, "FaultsMC.tla")

MC_TMPL = """SPECIFICATION Spec
CONSTANTS
  MaxOps = {ops}
  MaxFail = 2
  Discipline = "{disc}"
  RollBack = {rb}
  InPlace = {ip}
INVARIANTS NoCorruption Consistent NoLeak NoLeakAtEnd RetryEqualsClean InPlaceCompletes
PROPERTY Atomic
"""

# workload -> number of shards (quick, thorough)
# W1x64p<L>: W1x64 with the holder's arena drained to L bytes before each absolute call/jmp (arena phase sweep: which
# arena request of add_address_to_address_table / new_reloc_entry has to open a new block, i.e. can fail)
WORKLOADS = [("W1x64", 1, 1), ("W1a64", 1, 1)] + [("W1x64p%d" % l, 1, 1) for l in (0, 8, 16, 24, 32, 40, 48, 56, 64, 96)] + [ ("W2", 1, 1), ("W3", 3, 4), ("W4", 1, 1), ("W4dual", 1, 1), ("W5", 2, 3),
             ("W6", 1, 1), ("W7", 1, 1), ("W8", 3, 4)]
MASKS_THOROUGH = 400      # per workload: 7 x 400 = 2800 random multi-failure patterns

HARNESS_ENV = {"ASAN_OPTIONS": "detect_leaks=0:abort_on_error=0:exitcode=66:allocator_may_return_null=1",
               "UBSAN_OPTIONS": "print_stacktrace=1:halt_on_error=1:exitcode=66"}


def design(ctx):
    ops = 4 if ctx.quick else 5
    total = 0
    for ip in ("FALSE", "TRUE"):     # continuation after an error: go on with the next transaction / repeat it in place
        cfg = ctx.path(f"mc_{ip}.cfg")
        open(cfg, "w").write(MC_TMPL.format(ops=ops, disc="ReserveFirst", rb="TRUE", ip=ip))
        r = vlib.run_tlc(ctx, MOD_MC, cfg, workers=4, timeout=1500, heap="4g", tag=f"design_{ip}")
        vlib.tlc_must_ok(ctx, r, f"design InPlace={ip} (reserve-then-append / roll-back under every single and double failure)")
        total += r.distinct
    ctx.log(f"design: {total} distinct states, all invariants + Atomic hold (MaxOps={ops}, <=2 failures, continuations restart and retry-in-place)")
    ctx.extra["design_states"] = total
    # negative controls: the model must be able to see the breakage it is about
    for name, disc, rb, ip, inv in (("append-before-reserve", "AppendFirst", "TRUE", "FALSE", ("Consistent",)),
                                    ("no roll-back", "ReserveFirst", "FALSE", "FALSE", ("NoLeak",)),
                                    ("append without reserve", "NoReserve", "TRUE", "FALSE", ("NoCorruption",)),
                                    ("append-before-reserve, retried in place", "AppendFirst", "TRUE", "TRUE", ("Consistent", "InPlaceCompletes"))):
        cfg = ctx.path(f"mc_neg_{disc}_{rb}_{ip}.cfg")
        open(cfg, "w").write(MC_TMPL.format(ops=3, disc=disc, rb=rb, ip=ip))
        r = vlib.run_tlc(ctx, MOD_MC, cfg, workers=2, timeout=600, heap="2g", tag=f"neg_{disc}_{rb}_{ip}")
        if r.kind != "violation" or r.violated not in inv:
            raise Broken(f"negative control '{name}' was not rejected as expected (kind={r.kind} violated={r.violated})")
    ctx.log("design: 4 negative controls rejected (append-before-reserve, no roll-back, append without reserve, append-before-reserve retried in place)")


def split_execs(recs):
    """-> list of executions (lists of (lineno, rec)); the End line forms its own pseudo execution"""
    ex, cur = [], None
    for n, r in enumerate(recs, 1):
        if r.get("e") in ("Reset", "End"):
            cur = [(n, r)]
            ex.append(cur)
        elif cur is not None:
            cur.append((n, r))
        else:
            cur = [(n, r)]
            ex.append(cur)
    return ex


def run_validation(ctx, trace, tag):
    """One TLC pass over a whole file.  Returns list of rejected line numbers (1-based)."""
    r = vlib.run_tlc(ctx, MOD_T, CFG_T, workers=1, timeout=3000, env={"TRACE": trace}, heap="2g", tag=tag)
    ctx.states += r.distinct
    ctx.transitions += r.generated
    mm = re.search(r'<<"MAXL", (\d+), (\d+)>>', r.out)
    if r.kind == "ok":
        if not mm or int(mm.group(1)) != int(mm.group(2)) + 1:
            raise Broken(f"trace validation {tag}: accepted without consuming the file\n" + r.out[-800:])
        return []
    if r.kind == "error" and "Postcondition" in r.out and "is false" in r.out and mm:
        lst = vlib.parse_beh(r.out, tag="REJECTED")      # TLC pretty-prints the tuple over several lines
        lines = [x[0] for x in lst[-1]] if lst else []
        if not lines:     # file not consumed to the end although nothing was rejected: cannot happen with TRecover
            raise Broken(f"trace validation {tag}: postcondition false without rejections\n" + r.out[-800:])
        return lines
    raise Broken(f"trace validation {tag} failed to run: kind={r.kind} rc={r.rc}\n" + "\n".join(r.out.splitlines()[-30:]))


def crash_sites(stderr_path):
    """stderr of the workers -> {job: 'error; top asmjit frames'} (diagnostics only)"""
    res = {}
    if not os.path.exists(stderr_path):
        return res
    txt = open(stderr_path, errors="replace").read()
    chunks = re.split(r"=== worker died during job (-?\d+)\n", txt)
    for i in range(1, len(chunks), 2):
        body = chunks[i - 1]
        frames = [m.group(1) + " " + m.group(2) for m in re.finditer(r"#\d+ 0x[0-9a-f]+ in (\S+).*? (\S*/asmjit/[^\s]+)", body)]
        err = re.search(r"ERROR: AddressSanitizer: (\S+)", body) or re.search(r"runtime error: ([^\n]{0,90})", body)
        frames = [re.sub(r" \S*?/asmjit/", " asmjit/", f.replace("asmjit::v1_21::", "")) for f in frames]
        res[int(chunks[i])] = (err.group(1) if err else "signal") + " at " + " <- ".join(frames[:3])
    return res


def classify(clean, ex, lineno, sites=None):
    """ex: list of (lineno, rec) of the rejected execution; returns (key, text)"""
    head = ex[0][1]
    w, cls, ks = head.get("w", "?"), head.get("cls", "?"), head.get("k", [])
    inplace = head.get("cont") == "inplace"
    names = [c["c"] for c in clean if c.get("e") == "Call"]
    bad = next((r for n, r in ex if n == lineno), {"e": "END-OF-FILE"})
    calls = [r for n, r in ex if r.get("e") == "Call" and n < lineno]
    inj = next((r for r in calls if r.get("f")), None)
    injected_in = inj["c"] if inj else None
    tagp = ("physical" if inj.get("phys") else "synthetic") if inj and cls == "arena" else ("physical" if cls != "arena" else "?")
    what = ""
    e = bad.get("e")
    if cls == "none":
        kind = "clean-run-rejected"
        injected_in = "-"
        what = f"the failure-free run itself is rejected at {json.dumps(bad)[:160]}"
    elif lineno == ex[0][0]:
        # the Reset line itself was not consumable: the ghost of the clean run is missing (its execution was rejected)
        kind = "unjudged"
        injected_in = "-"
        what = "not judged: the clean execution of this file was rejected, so there is nothing to compare with"
    elif e == "ABORT" or e in ("Reset", "End", "END-OF-FILE"):
        # the call in progress = the one after the last recorded call of the current phase
        ph = calls[-1]["ph"] if calls else "F"
        if any(r.get("e") == "ResetObjects" for n, r in ex if n < lineno):
            ph_calls = [r for r in calls if r["ph"] == "R"]
            phase = "retry"
        else:
            ph_calls = [r for r in calls if r["ph"] == "F"]
            phase = "fault"
        i = len(ph_calls)
        if any(r.get("e") == "Destroy" for n, r in ex if n < lineno):
            crashed = "destroy"
        elif phase == "fault" and i >= len(names):
            crashed = "reset"
        else:
            crashed = names[i] if i < len(names) else "destroy"
            if phase == "retry":
                crashed = "retry:" + crashed
        if injected_in is None:
            injected_in = crashed
            if cls == "arena" and bad.get("inj"):
                tagp = "physical" if bad.get("phys") else "synthetic"
        kind = ("hang-in-" if "hang" in str(bad.get("why", "")) else "crash-in-") + crashed
        site = (sites or {}).get(head.get("job"), "")
        what = f"process died ({bad.get('why', 'truncated trace')}) during {crashed}" + (f": {site}" if site else "")
    elif e == "Call" and bad.get("ph") == "F" and inplace and (bad.get("redo") or any(r.get("redo") for r in calls)):
        rep = bad if bad.get("redo") else next(r for r in reversed(calls) if r.get("redo"))
        injected_in = rep["c"]
        if cls == "arena":
            tagp = "physical" if rep.get("phys") else "synthetic"
        if bad.get("redo"):
            kind = "redo-fails" if bad.get("r") != "Ok" and bad.get("r") != next((c["r"] for c in clean if c.get("e") == "Call" and c.get("i") == bad["i"]), None) else "redo-differs"
            what = (f"retry in place: {bad['c']} failed with the injected failure and was repeated with memory available: the repeated call returned {bad['r']}"
                    + (" - it cannot be completed on the same objects" if kind == "redo-fails" else " but the product (code bytes / pool size+alignment / results / contents) differs from the failure-free run"))
        else:
            kind = "after-redo-differs-at-" + bad["c"]
            what = (f"retry in place: {injected_in} failed, was repeated successfully; later {bad['c']} returned {bad['r']} / left a product that differs from the failure-free run "
                    f"(the failed call was not atomic)")
    elif e == "Call" and bad.get("ph") == "F":
        if bad.get("f"):
            injected_in = injected_in or bad["c"]
            if inj is None and cls == "arena":
                tagp = "physical" if bad.get("phys") else "synthetic"
            kind = "wrong-success"
            what = f"{bad['c']} had a failure injected, returned {bad['r']} and left a state/output that MEANS something different from the failure-free run"
        elif inj is None:
            # nothing was injected yet and the run already differs from the clean run: the harness is not deterministic
            raise Broken(f"non-deterministic harness: {w} {cls} k={ks}: {json.dumps(bad)[:200]} differs from the clean run before any injection")
        else:
            kind = "silent-divergence-in-" + bad["c"]
            what = (f"a failure injected in {injected_in} was answered with success; later {bad['c']} (no failure injected in it) returned {bad['r']} "
                    f"with a state/output that means something different from the failure-free run")
    elif e == "ResetObjects":
        kind = "reset-failed"
        what = f"reset of the objects after the faulted run returned {bad.get('r')}"
    elif e == "Call" and bad.get("ph") == "R":
        kind = "retry-differs-at-" + bad["c"]
        what = f"retry after reset: {bad['c']} returned {bad['r']} / digest differs from the failure-free run"
    elif e == "Leak":
        kind = "leak"
        what = f"after destruction of all objects: {bad.get('heap')} heap blocks (sizes {bad.get('sizes', [])}), {bad.get('vm')} mappings (sizes {bad.get('maps', [])}), {bad.get('fd')} descriptors outstanding"
    else:
        kind = "rejected-" + str(e)
        what = json.dumps(bad)[:200]
    key = f"{w}:{cls}:{injected_in}:{kind}"
    text = f"workload={w} class={cls} k={ks}{' cont=inplace' if inplace else ''} ({tagp}) injected-in={injected_in}: {what}"
    return key, text, tagp


def run(ctx):
    q = ctx.quick
    bdir = ctx.build("asan", "faults")
    rc, out, err = vlib.run_harness(ctx, bdir, "faults", ["hook"], timeout=60, env=HARNESS_ENV)
    if rc != 0:
        raise Broken("hook H1 (hooks/H1_arena_fault.patch: asmjit_verif_arena_fail) is not applied to the asmjit tree under test")
    design(ctx)
    # ---- record ----
    jobs = []
    for w, nq, nt in WORKLOADS:
        n = nq if q else nt
        for s in range(n):
            jobs.append((w, n, s, ctx.path(f"trace_{w}_{s}.ndjson")))

    def record(job):
        w, n, s, tr = job
        args = ["run", tr, w, "quick" if q else "thorough", n, s, 0 if q else MASKS_THOROUGH]
        env = dict(HARNESS_ENV, VERIF_SEED=ctx.seed)
        rc, _, err = vlib.run_harness(ctx, bdir, "faults", args, timeout=1500 if q else 6000, env=env)
        return job, rc, err

    with concurrent.futures.ThreadPoolExecutor(max_workers=6) as ex:
        recorded = list(ex.map(record, jobs))
    for (w, n, s, tr), rc, err in recorded:
        if rc != 0:
            raise Broken(f"harness faults {w} shard {s} exited rc={rc}: {(err or '')[-400:]}")
    ctx.log(f"recorded {len(jobs)} trace files")

    # ---- validate (one JVM per file, in parallel) ----
    def validate(job):
        w, n, s, tr = job
        # tolerant re-write: empty lines vanish, a torn line of a dead worker becomes an ABORT record
        vlib.write_ndjson(tr, vlib.read_ndjson(tr))
        return job, run_validation(ctx, tr, f"t_{w}_{s}")

    with concurrent.futures.ThreadPoolExecutor(max_workers=6) as ex:
        validated = list(ex.map(validate, jobs))

    counts = {}
    findings = collections.OrderedDict()     # key -> dict(text, count, ks, replay)
    nruns = 0
    hits_by = collections.Counter()
    phys = collections.Counter()
    for (w, n, s, tr), rejected in validated:
        recs = vlib.read_ndjson(tr)
        info_p = tr + ".info"
        if os.path.exists(info_p):
            counts[w] = json.load(open(info_p))
        execs = split_execs(recs)
        sites = crash_sites(tr + ".stderr")
        if not execs or execs[0][0][1].get("cls") != "none":
            raise Broken(f"{tr}: no clean execution at the head of the file")
        clean = [r for _, r in execs[0]]
        if not recs or recs[-1].get("e") != "End":
            raise Broken(f"{tr}: no End line (harness supervisor died)")
        for exe in execs:
            head = exe[0][1]
            if head.get("e") != "Reset" or head.get("cls") == "none":
                continue
            nruns += 1
            hit = any(r.get("f") for _, r in exe if r.get("e") == "Call") or any(r.get("e") == "ABORT" for _, r in exe)
            if hit:
                ctx.distinct.add((w, head["cls"], tuple(head["k"]), head.get("cont", "restart")))
                hits_by[(w, head["cls"])] += 1
            for _, r in exe:
                if r.get("e") == "Call" and r.get("f") and head["cls"] == "arena":
                    phys["physical" if r.get("phys") else "synthetic"] += 1
        ctx.traces += len(execs) - 1 - len(set(rejected))
        for lineno in rejected:
            exe = next((e for e in execs if e[0][0] <= lineno <= e[-1][0]), None)
            if exe is None:
                raise Broken(f"{tr}: cannot locate rejected line {lineno}")
            key, text, tagp = classify(clean, exe, lineno, sites)
            f = findings.get(key)
            if f is None:
                rp = ctx.path("rejected_" + re.sub(r"[^A-Za-z0-9_.-]", "_", key) + ".ndjson")
                vlib.write_ndjson(rp, clean + [r for _, r in exe if r.get("e") != "End"] + [{"e": "End"}])
                # stderr excerpt of the dead worker, if any
                findings[key] = f = {"text": text, "count": 0, "ks": [], "replay": rp, "tags": collections.Counter()}
            f["count"] += 1
            f["tags"][tagp] += 1
            if len(f["ks"]) < 12:
                f["ks"].append(exe[0][1].get("k"))
        if len(recs) > 6:
            ctx.add_sample({"file": os.path.basename(tr), "events": recs[1:3] + [r for r in recs if r.get("f")][:2]})

    # ---- verdicts ----
    # a candidate is reported only if it repeats: every new rejection is re-validated in isolation (clean execution +
    # that execution), in parallel
    fresh = [(k, f) for k, f in findings.items() if k not in ctx.known]
    with concurrent.futures.ThreadPoolExecutor(max_workers=4) as ex:
        confirmed = list(ex.map(lambda kf: run_validation(ctx, kf[1]["replay"], "confirm_" + re.sub(r"[^A-Za-z0-9]", "_", kf[0])[:60]), fresh))
    for (key, f), rej2 in zip(fresh, confirmed):
        if not rej2:
            raise Broken(f"rejection {key} not repeatable in isolation")
    for key, f in findings.items():
        msg = f"{f['text']} [{f['count']} executions; positions {f['ks']}; {dict(f['tags'])}]"
        if key in ctx.known:
            ctx.known_finding(key, msg)
        else:
            ctx.violation(f"key={key} {msg}", f["replay"])
    ctx.evaluations = nruns
    ctx.extra["requests_per_workload"] = {w: {k: v for k, v in c.items() if k in ("arena", "heap", "vm", "jobs")} for w, c in counts.items()}
    ctx.extra["injected_runs_that_hit"] = {f"{w}/{c}": n for (w, c), n in sorted(hits_by.items())}
    ctx.extra["arena_failures_physical_vs_synthetic"] = dict(phys)
    ctx.extra["rejected_keys"] = {k: f["count"] for k, f in findings.items()}
    for w, c in counts.items():
        if c.get("arena", 0) < 10 or c.get("heap", 0) < 3:
            raise Broken(f"workload {w}: implausibly few requests counted {c} (hook H1 not applied / wrappers not linked?)")
    if not any(c.get("vm", 0) for c in counts.values()):
        raise Broken("no VM request was counted in any workload")
    ctx.assumptions += [
        "hook H1 (ASMJIT_VERIF) gives the arena request positions; nested entry points of one logical request are separate positions",
        "heap = malloc/calloc/realloc called from asmjit's objects (link-time --wrap); vm = mmap, memfd_create, ftruncate, mprotect",
        "a failing request returns NULL/MAP_FAILED/-1 with errno=ENOMEM; nothing else about the process changes",
        "digests compare code-relevant observable state through public accessors (sections+bytes, labels, relocations, node lists, "
        "container contents, results of executed functions); capacities and addresses are not compared",
        "direct CodeHolder calls are skipped on a holder whose init() failed, generated code is executed only when every call that produced it returned Ok",
        "quick tier: every k <= 400 per workload and class, beyond that ~160 strided positions, each with both continuations (restart, retry in place); thorough: every k x both reset policies + retry in place + 400 random multi-failure patterns per workload",
        "environment: ASan+UBSan build; a sanitizer report, signal or 60 s hang of the worker becomes an ABORT line attributed to the execution in progress",
    ]
    vlib.write_evidence(ctx, "fault_enumeration",
        rule="evaluations = injected executions (workload x class x failing position(s)), each with fault phase, reset, retry, destroy and leak accounting, "
             "judged by TLC against Faults.tla; distinct_nontrivial = distinct (workload, class, k) whose failing request was really reached",
        trusted_base=["TLC 1.8.0", "spec/fault/Faults.tla (contract)", "harness/faults.cpp (wrappers, digests, supervisor)", "hook H1 in asmjit/support/arena.{h,cpp}"],
        exhaustive=not q)


def replay(ctx, path):
    """path: a rejected_*.ndjson (clean execution + one injected execution).  The injected execution is re-run on the
    current tree and validated."""
    recs = vlib.read_ndjson(path)
    heads = [r for r in recs if r.get("e") == "Reset" and r.get("cls") != "none"]
    if not heads:
        raise Broken("replay file holds no injected execution")
    h = heads[0]
    bdir = ctx.build("asan", "faults")
    tr = ctx.path("replay_trace.ndjson")
    rc, _, err = vlib.run_harness(ctx, bdir, "faults", ["one", tr, h["w"], h["cls"], ",".join(str(k) for k in h["k"])] + (["inplace"] if h.get("cont") == "inplace" else []), timeout=600,
                                  env=dict(HARNESS_ENV, VERIF_SEED=ctx.seed))
    if rc != 0:
        raise Broken(f"harness exited rc={rc}: {(err or '')[-300:]}")
    rejected = run_validation(ctx, tr, "replay")
    if rejected:
        recs2 = vlib.read_ndjson(tr)
        execs = split_execs(recs2)
        clean = [r for _, r in execs[0]]
        exe = next(e for e in execs if e[0][0] <= rejected[0] <= e[-1][0])
        key, text, _ = classify(clean, exe, rejected[0], crash_sites(tr + ".stderr"))
        if key in ctx.known:
            ctx.known_finding(key, text)
        else:
            ctx.violation(f"key={key} {text}", tr)
    else:
        ctx.log("replay: execution accepted on the current tree")
