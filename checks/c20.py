"""C20 - formatter and logger text faithfully denotes the instruction and operands.

Decided by TLC on spec/isa/Fmt.tla (the DENOTATION of a formatted line: mnemonic, option prefixes, every register by the
architectural name tables written in the spec from the Intel SDM / AMD APM / Arm ARM, memory size / segment / base / index /
scale / signed displacement value / broadcast, immediate values, {k}{z}{er}{sae}, label names, virtual-register names, and
the machine-code column = the bytes appended), bound to the code POINTWISE:

  harness/fmtobs.cpp   for the C01 (lib_x86forms.h) and C02 (checks/c02.py Gen + lib_a64forms.h) sweep instantiations it calls
                       Formatter::format_instruction with a rotating FormatFlags combination (leg F), emits the same request on an
                       Assembler with a StringLogger (leg L: logged line + bytes appended) and formats single operands (leg O: every
                       register of every class, a memory grid, immediates, labels of every kind, Compiler virtual registers);
                       a GENERIC lexer (words, numbers, one-character punctuation - no names) turns the text into tokens;
                       every form with a ModRM memory operand / a label operand is additionally emitted with the reference on a label that is
                       UNBOUND at emit time, BOUND before, and bound IN ANOTHER SECTION, combined with the form's immediate set to pairwise
                       distinct non-zero bytes (0x7A / 0x3322 / 0x44332211 by width); the fixups / relocations CodeHolder registered for the
                       instruction (field offset, width) are exported with the observation;
                       decoration / option COMBINATIONS are swept on top of the lib's one-family-at-a-time grid ({sae} x every {er} mode, {k} x {z} x
                       broadcast, all subsets of lock/xacquire/xrelease/rep/repne, short/long/both, subsets of rex/vex3/vex/evex/mod_mr/mod_rm):
                       whatever the assembler ACCEPTS is judged (formatter and logger leg); the DB row's {er}/{sae} capability travels with the request;
                       AArch64: wsp/sp/wzr/xzr in every general-purpose register position (operand, memory base, index) of every row;
                       leg R: requests the assembler REFUSES (the sweep's own rejected requests plus controlled ones: rsp as index, {er} on a row
                       without it, lock, one operand too many - with {k}{z} / options pending) on an Assembler with a recording ErrorHandler; the
                       message "<error string>: <formatted instruction>" (EmitterUtils::log_instruction_failed) is cut at the error string and the
                       instruction text is judged by the same Denote(request); messages without an instruction text are not recorded;
  TLC (FmtObs.tla)     decorations are read two ways: as GIVEN (all of them: {er}+{sae} together = {r?-sae}) or as EMITTED (EVEX P2: aaa = {k}, z,
                       b = broadcast / rounding, L'L = rounding mode on a register-only form of a row that allows {er}, else {sae}); the text must
                       denote one of the two readings completely;
                       every observation is an initial state; invariant Verdict(o) = ok, i.e. Canon(tokens) matches Denote(request)
                       and the machine-code column has one pair per byte appended, each equal to that byte, except that exactly the
                       displacement / address field of a registered fixup or relocation may be masked ".." (whole field or nothing);
  TLC (FmtLogTrace.tla) logger transcripts: random programs of 20..60 emitter calls; the lines map one-to-one, in order, onto the
                       calls and the bytes of the logged calls are contiguous and add up to the section sizes (calls include jumps / calls /
                       label-based memory operands with immediates on program labels in any state, embed_label / embed_label_delta,
                       AArch64 b / bl / cbz / tbz / adr / ldr-literal on program labels).
Syntax (blanks, case, ',', '#', '+', ':', 'ptr', number base, '*1', zero displacement, order of option prefixes, the explanation
of an immediate, asmjit's alias notation) is normalised away; only the denotation is judged."""
import collections, concurrent.futures, json, os, random, re, sys, threading, time
import vlib
from vlib import Broken

sys.path.insert(0, os.path.dirname(os.path.abspath(__file__)))
import c02                                                     # sweep generator (Gen) and the asmjit-independent printer (render)

SPEC = os.path.join(vlib.VERIF, "spec", "isa")
OBS_MOD, OBS_CFG = os.path.join(SPEC, "FmtObs.tla"), os.path.join(SPEC, "FmtObs.cfg")
TR_MOD, TR_CFG = os.path.join(SPEC, "FmtLogTrace.tla"), os.path.join(SPEC, "FmtLogTrace.cfg")
EXPORTER = os.path.join(vlib.VERIF, "tools", "db_export_x86.js")
DEVDIR = os.path.join(vlib.VERIF, "out", "C20dev")
M64 = (1 << 64) - 1
A64_BASE = 0x40000000
_lock = threading.Lock()


# ======================================================================================================================
# AArch64 cases
# ======================================================================================================================
def bad_id(o):
    if o.get("k") in ("r", "v"):
        ids = o.get("ids", [o.get("id", 0)])
        return any(i > 31 or i < 0 for i in ids)
    if o.get("k") == "m":
        return o["b"] > 31 or o["xi"] > 31
    return False


def enrich(c):
    """adds what the spec needs and the descriptors do not say: the bare mnemonic, the absolute value of pc-relative targets"""
    c["mn"] = c["n"].split(".")[0] if "<cond>" in c["n"] else c["n"]
    for o in c["o"]:
        if o.get("k") == "l":
            o["al"] = c02.limbs(A64_BASE + o["v"])
    return c


def a64_cases(ctx, repo, quick, seed):
    rows_all = c02.load_rows(ctx, repo)
    ids = c02.inst_ids(repo)
    rows = [r for r in rows_all if r["ok"]]
    for ix, r in enumerate(rows):
        r["ix"] = ix + 1
    gen = c02.Gen(rows, ids, quick, seed)
    cases, names, spz = [], set(), []
    for r in rows:
        vec = c02.is_vec_row(r)
        cs = None
        for name in r["names"]:
            base = name.split(".")[0] if "<cond>" in name else name
            ent = ids.get(base)
            if not ent:
                continue
            iid = ent.get("v" if vec else "gp", ent.get("gp", ent.get("v")))
            if cs is None:
                cs = gen.cases_for_row(r["ix"], r)
            if cs is None:
                break
            for ops in cs:
                if any(bad_id(o) for o in ops):
                    continue                    # register ids above 31 have no architectural name (C02 probes them on purpose)
                cases.append({"n": name, "iid": iid, "o": ops})
                names.add(base)
            # wsp / sp / wzr / xzr in EVERY general-purpose register position of the row (operand, memory base, memory index), one at a time
            # around the row's baseline; the formatter leg judges all of them, the logger leg those the assembler accepts
            base_ops = next((ops for ops in cs if not any(bad_id(o) for o in ops)), None)
            if base_ops is not None:
                for p_, o in enumerate(base_ops):
                    for sp in (0, 1):
                        if o.get("k") == "r" and "ids" not in o:
                            v = list(base_ops); v[p_] = dict(o, id=31, sp=sp); spz.append({"n": name, "iid": iid, "o": v})
                        elif o.get("k") == "m":
                            v = list(base_ops); v[p_] = dict(o, b=31, bsp=sp); spz.append({"n": name, "iid": iid, "o": v})
                            if o["xi"] >= 0:
                                v = list(base_ops); v[p_] = dict(o, xi=31, xsp=sp); spz.append({"n": name, "iid": iid, "o": v})
    seen, uniq = set(), []
    for c in cases:
        key = c["n"] + json.dumps(c["o"], sort_keys=True)
        if key not in seen:
            seen.add(key)
            uniq.append(c)
    rnd = random.Random(seed)
    want = 45000 if quick else len(uniq)
    if len(uniq) > want:
        # keep at least two cases of every mnemonic, fill up at random
        by = collections.defaultdict(list)
        for c in uniq:
            by[c["n"]].append(c)
        keep = []
        for n, L in by.items():
            keep += rnd.sample(L, min(2, len(L)))
        ks = {id(c) for c in keep}
        rest = [c for c in uniq if id(c) not in ks]
        keep += rnd.sample(rest, max(0, want - len(keep)))
        uniq = keep
    seen = {c["n"] + json.dumps(c["o"], sort_keys=True) for c in uniq}
    for c in spz:
        key = c["n"] + json.dumps(c["o"], sort_keys=True)
        if key not in seen:
            seen.add(key)
            uniq.append(c)
    dummy = ids.get("add", {}).get("gp", 1)
    ops = a64_operand_cases(rnd)
    return [enrich(c) for c in uniq] + [enrich({"n": "", "iid": dummy, "leg": "O", "o": [o]}) for o in ops], len(names)


def a64_operand_cases(rnd):
    """leg O: every register name, every arrangement / lane, the addressing modes, immediates, shifts"""
    out = []
    for t in ("w", "x"):
        for i in range(31):
            out.append(c02.R(t, i))
        out += [c02.R(t, 31, 0), c02.R(t, 31, 1)]
    for t in ("b", "h", "s", "d", "q"):
        for i in range(32):
            out.append(c02.V(t, i))
    for arr in ("8B", "16B", "4H", "8H", "2S", "4S", "1D", "2D", "2H", "4B"):
        for i in range(32):
            out.append(c02.V("v", i, arr))
    for e, n in (("B", 16), ("H", 8), ("S", 4), ("D", 2), ("4B", 4), ("2H", 2)):
        for lane in range(n):
            out.append(c02.V("v", (lane * 5 + 3) % 32, e, lane))
    offs = [0, 1, -1, 8, -8, 9, 10, 255, -256, 4095, 32760, -512, 504, 65520, 16, 2147483647, -2147483648]
    for b in list(range(31)) + [31]:
        for mode in ("o", "pre", "post"):
            out.append(c02.Mem(b=b, bsp=1 if b == 31 else 0, mode=mode, off=offs[(b * 3 + len(mode)) % len(offs)]))
    for off in offs:
        for mode in ("o", "pre", "post"):
            out.append(c02.Mem(b=7, mode=mode, off=off))
    for xi in range(31):
        for sh, xt, amts in (("", "x", (-1,)), ("lsl", "x", (0, 1, 2, 3, 4)), ("uxtw", "w", (-1, 0, 2, 3)), ("sxtw", "w", (-1, 0, 1, 4)), ("sxtx", "x", (-1, 0, 3))):
            out.append(c02.Mem(b=(xi + 9) % 31, xi=xi, xt=xt, sh=sh, amt=amts[xi % len(amts)]))
    for xi in (0, 7, 30):
        out.append(c02.Mem(b=31, bsp=1, mode="post", xi=xi, xt="x"))
    for v in [0, 1, -1, 9, 10, 255, 256, -256, 4095, 65535, 65536, 0x7FFFFFFF, 0x80000000, 0xFFFFFFFF, -0x80000000, 1 << 32, (1 << 63) - 1, -(1 << 63),
              0x0123456789ABCDEF, 0xFFFFFFFFFFFFFFFF] + [rnd.getrandbits(64) for _ in range(40)] + [rnd.getrandbits(12) for _ in range(20)]:
        out.append(c02.I(v if v < (1 << 63) else v - (1 << 64)))
    for op in ("lsl", "lsr", "asr", "ror", "msl", "uxtb", "uxth", "uxtw", "uxtx", "sxtb", "sxth", "sxtw", "sxtx"):
        for amt in (-1, 0, 1, 3, 4, 8, 12, 16, 31, 48, 63):
            out.append(c02.S(op, amt))
    return out


# ======================================================================================================================
# TLC
# ======================================================================================================================
REJ = re.compile(r'<<\s*"REJECT",\s*(\d+),\s*"([^"]*)",\s*(\d+),\s*"([^"]*)",\s*"([^"]*)"\s*>>')      # TLC wraps long tuples over several lines
UNJ = re.compile(r'<<\s*"UNJUDGED",\s*(\d+),\s*"([^"]*)"\s*>>')


def tlc_pointwise(ctx, lines, tag, shards, workers=3, timeout=2400, heap="3g"):
    """lines: raw ndjson observation lines.  Returns (rejects, unjudged): lists of (obs, role, index, expected, got) / (obs, why)."""
    if not lines:
        return [], []
    shards = max(1, min(shards, (len(lines) + 1999) // 2000))
    parts = [lines[i::shards] for i in range(shards)]
    paths = []
    for i, p in enumerate(parts):
        path = ctx.path(f"{tag}_shard{i}.ndjson")
        with open(path, "w") as f:
            f.write("\n".join(p) + "\n")
        paths.append(path)

    def one(i):
        return i, vlib.run_tlc(ctx, OBS_MOD, OBS_CFG, workers=workers, timeout=timeout, env={"OBS": paths[i]}, heap=heap, tag=f"{tag}{i}", extra=["-continue"])

    rej, unj = [], []
    with concurrent.futures.ThreadPoolExecutor(max_workers=min(shards, 6)) as ex:
        for i, r in ex.map(one, range(shards)):
            if r.kind in ("timeout", "error") or "Finished computing initial states" not in r.out:
                raise Broken(f"TLC {tag} shard {i}: kind={r.kind} rc={r.rc}\n" + "\n".join(r.out.splitlines()[-25:]))
            if r.distinct != len(parts[i]):
                raise Broken(f"TLC {tag} shard {i}: {r.distinct} observations evaluated, {len(parts[i])} expected")
            with _lock:
                ctx.states += r.distinct
                ctx.transitions += r.generated
            nviol = len(re.findall(r"Invariant Conforms is violated", r.out))
            rj = REJ.findall(r.out)
            if nviol != len(rj):
                raise Broken(f"TLC {tag} shard {i}: {nviol} invariant violations but {len(rj)} REJECT lines")
            for ln, role, idx, exp, got in rj:
                rej.append((json.loads(parts[i][int(ln) - 1]), role, int(idx), exp, got))
            for ln, why in UNJ.findall(r.out):
                unj.append((json.loads(parts[i][int(ln) - 1]), why))
            os.remove(paths[i])
    return rej, unj


TREJ = re.compile(r'<<\s*"TREJECT",\s*(\d+),\s*(\d+),\s*"([^"]*)",\s*(\d+),\s*"([^"]*)",\s*"([^"]*)"\s*>>')


def tlc_transcripts(ctx, path, nprog, tag="prog"):
    r = vlib.run_tlc(ctx, TR_MOD, TR_CFG, workers=4, timeout=1800, env={"OBS": path}, heap="3g", tag=tag, extra=["-continue"])
    if r.kind in ("timeout", "error") or "Finished computing initial states" not in r.out:
        raise Broken(f"TLC {tag}: kind={r.kind} rc={r.rc}\n" + "\n".join(r.out.splitlines()[-25:]))
    ctx.states += r.distinct
    ctx.transitions += r.generated
    done = {int(x) for x in re.findall(r'<<\s*"TDONE",\s*(\d+)\s*>>', r.out)}
    rej = [(int(p), int(k), role, int(idx), exp, got) for p, k, role, idx, exp, got in TREJ.findall(r.out)]
    unj = {int(x) for x in re.findall(r'<<\s*"TUNJUDGED",\s*(\d+),', r.out)}
    nviol = len(re.findall(r"Invariant Transcript is violated", r.out))
    if nviol != len(rej) + len(re.findall(r'<<\s*"TUNJUDGED"', r.out)):
        raise Broken(f"TLC {tag}: {nviol} invariant violations but {len(rej)} TREJECT lines")
    stuck = set(p for p, *_ in rej) | unj
    if (done | stuck) != set(range(1, nprog + 1)) or (done & {p for p, *_ in rej}):
        raise Broken(f"TLC {tag}: {len(done)} programs accepted + {len(stuck)} rejected/unjudged, {nprog} expected")
    return done, rej, unj


# ======================================================================================================================
# signatures
# ======================================================================================================================
NOISE = {"#", "ptr", "+", ":"}


def canon(tk):
    """python twin of Fmt!Canon (for messages / signatures only): list of (text, value or None)"""
    out, i = [], 0
    val = lambda l: sum(x << (16 * j) for j, x in enumerate(l))
    while i < len(tk):
        t = tk[i]
        if t["s"] in NOISE:
            i += 1
        elif t["s"] == "-" and i + 1 < len(tk) and tk[i + 1]["s"] == "<num>":
            out.append(("<num>", val(tk[i + 1]["n"]))); i += 2
        elif t["s"] == "<num>":
            out.append(("<num>", val(t["m"]))); i += 1
        else:
            out.append((t["s"], None)); i += 1
    return out


def signed(v):
    return v - (1 << 64) if v >= (1 << 63) else v


def request_text(o):
    if o.get("a") == "a64":
        return (c02.render(o.get("mn") or "<operand>", o["o"]) if not any(x.get("k") in ("lb", "ml", "vr") for x in o["o"]) else None) or json.dumps(o["o"], separators=(",", ":"))
    import c01

    def ltxt(d):
        return [f"L{d['id']}", d["nm"], f"{d['pnm']}.{d['nm']}", f"L{d['pid']}.{d['nm']}", f"L{d['id']}@{d['nm']}"][d["kind"]]
    ops = []
    for x in o["ops"]:
        if x["t"] == "m" and x.get("bt") == "lb":
            sz = {0: "", 1: "byte ", 2: "word ", 4: "dword ", 8: "qword ", 16: "xmmword ", 32: "ymmword ", 64: "zmmword "}.get(x["sz"], f"m{x['sz']} ")
            ops.append(f"{sz}{['', 'es:', 'cs:', 'ss:', 'ds:', 'fs:', 'gs:'][x['sg']]}[{ltxt(x['lb'])}{int(x['dv']):+d}]" + (f"{{1to{x['bc']}}}" if x["bc"] else "") +
                       {-1: "", 0: " (label unbound)", 1: " (label bound)", 2: " (label in another section)"}.get(o.get("lst", -1), ""))
            continue
        if x["t"] == "l":
            li = sum(1 for y in o["ops"][:o["ops"].index(x)] if y["t"] == "l")
            if li < len(o.get("lbl", [])):
                ops.append(ltxt(o["lbl"][li])); continue
        try:
            ops.append(c01.opstr(x) if x["t"] in ("r", "m", "i", "l") and x.get("bt") not in ("lb", "vr") else json.dumps(x, separators=(",", ":")))
        except Exception:
            ops.append(json.dumps(x, separators=(",", ":")))
    dec = (f" {{k{o['k']}}}" if o["k"] else "") + (" {z}" if o["z"] else "") + (" {%s-sae}" % ["rn", "rd", "ru", "rz"][o["er"]] if o["er"] >= 0 else "") + (" {sae}" if o["sae"] else "")
    names = ["lock", "rep", "repne", "xacquire", "xrelease", "short", "long", "mod-mr", "mod-rm", "vex3", "vex", "evex", "rex"]
    opts = [n for j, n in enumerate(names) if o["opt"] >> j & 1]
    return f"{o['m']}-bit {' '.join(opts) + ' ' if opts else ''}{o['n']} {', '.join(ops)}{dec}"


def expected_number(o, role):
    """the requested value behind a numeric role (x86 only; None when not applicable)"""
    try:
        if o.get("a") != "x86":
            return None
        for x in o["ops"]:
            if role == "mem-disp" and x["t"] == "m":
                return int(x["dv"])
            if role == "mem-scale" and x["t"] == "m":
                return 1 << x["sh"]
            if role == "imm" and x["t"] == "i":
                return int(x["iv"])
    except Exception:
        pass
    return None


def signature(o, role, idx, exp, got):
    a = o.get("a", "?")
    act = canon(o.get("tk", []))
    gv = act[idx - 1][1] if 0 < idx <= len(act) else None
    if role == "machine-code":
        hx, b = o.get("hx", []), o.get("b", [])
        if len(hx) != len(b):
            d = "shorter-than-bytes-appended" if len(hx) < len(b) else "longer-than-bytes-appended"
        elif any(x != y and x != -1 for x, y in zip(hx, b)):
            d = "differs-from-bytes-appended"
        else:
            d = re.sub(r"[^a-z0-9]+", "-", exp.lower()).strip("-")[:60]
        return f"{a}:machine-code:{d}"
    if role in ("mem-disp", "imm", "mem-scale"):
        ev = expected_number(o, role)
        if gv is not None and ev is not None:
            if role == "mem-scale":
                return f"{a}:{role}:{ev}-printed-as-{gv}"
            if (gv + ev) & M64 == 0:
                return f"{a}:{role}:sign-inverted"
            return f"{a}:{role}:value"
        return f"{a}:{role}:{'missing' if got in (']', '<end>') else 'value'}"
    if role in ("reg", "mem-base", "mem-index", "mask"):
        return f"{a}:{role}:{exp}-printed-as-{got}"
    if role == "mnemonic":
        return f"{a}:mnemonic:{o.get('mn') or o.get('n')}-printed-as-{got}"
    if role in ("rounding", "sae") and o.get("er", -1) >= 0 and o.get("sae"):
        return f"{a}:rounding:er-and-sae-given-{exp}-printed-as-{got}"
    if role in ("zeroing", "rounding", "sae", "broadcast", "mem-writeback"):
        return f"{a}:{role}:{'dropped' if got != exp else 'misplaced'}" if exp == "{" or exp == "!" else f"{a}:{role}:{exp}-printed-as-{got}"
    if role == "mem-extend":
        ext = next((x for x in o.get("o", []) if x.get("k") == "m"), {})
        return f"a64:mem-extend:{ext.get('sh') or 'lsl'}{'-with-amount' if ext.get('amt', -1) > 0 else '-without-amount'}-{'dropped' if got in (']', '<end>') else 'printed-as-' + got}"
    if role == "label":
        kinds = ["anonymous", "named", "local", "local-of-anonymous", "anonymous-with-name"]
        lb = [x for x in o.get("lbl", [])] + [x["lb"] for x in o.get("ops", []) + o.get("o", []) if isinstance(x, dict) and "lb" in x]
        return f"{a}:label:{kinds[lb[0]['kind']] if lb else 'label'}"
    if role == "vec-arrangement":
        return f"a64:vec-arrangement:{exp}-printed-as-{got}"
    return f"{a}:{role}:{re.sub(r'[^A-Za-z0-9_.<>{}-]+', '_', exp)[:40]}-printed-as-{re.sub(r'[^A-Za-z0-9_.<>{}-]+', '_', got)[:24]}"


def describe(o, role, idx, exp, got):
    act = canon(o.get("tk", []))
    gv = act[idx - 1] if 0 < idx <= len(act) else None
    gtxt = (str(signed(gv[1])) if gv and gv[1] is not None else got)
    ev = expected_number(o, role)
    etxt = str(ev) if ev is not None and exp == "<num>" else exp
    leg = {"F": "Formatter::format_instruction", "L": "logger line", "O": "Formatter::format_operand", "R": "ErrorHandler message of the refused request"}.get(o.get("leg", "F"), o.get("leg"))
    s = f"request [{request_text(o)}] flags=0x{o.get('fl', 0):x} via {leg}: asmjit printed \"{o.get('tx', '').strip()}\"; {role}: the denotation requires {etxt!r}, the text has {gtxt!r} (token {idx})"
    if role == "machine-code":
        s += f"; column={['..' if x == -1 else '??' if x < 0 else '%02X' % x for x in o.get('hx', [])]} bytes appended={bytes(o.get('b', [])).hex().upper()}"
    return s


# ======================================================================================================================
# the check
# ======================================================================================================================
def export_forms(ctx):
    repo = os.environ.get("VERIF_REPO", "/repo")
    import subprocess
    p = subprocess.run(["node", EXPORTER, repo, ctx.out], stdout=subprocess.PIPE, stderr=subprocess.PIPE, text=True, timeout=300)
    if p.returncode != 0:
        raise Broken("db_export_x86.js failed: " + p.stderr[-1500:])
    return ctx.path("forms.ndjson")


def harness(ctx, bdir, args, timeout=2400):
    rc, _, err = vlib.run_harness(ctx, bdir, "fmtobs", args, timeout=timeout, env={"VERIF_SEED": ctx.seed})
    if rc != 0:
        raise Broken(f"fmtobs {args[0]} failed rc={rc}: {err[-1500:]}")
    return err


def report(ctx, groups, replay_dir):
    """groups: key -> list of (obs or program record, message).  KNOWN-FINDING when listed, VIOLATION otherwise."""
    os.makedirs(replay_dir, exist_ok=True)
    for key, items in groups.items():
        safe = re.sub(r"[^A-Za-z0-9_.-]", "_", key)[:150]
        rp = os.path.join(replay_dir, f"reject_{safe}.ndjson")
        vlib.write_ndjson(rp, [o for o, _ in items[:40]])
        msg = f"{len(items)} observation(s), e.g. {items[0][1]}"
        if key in ctx.known:
            ctx.known_finding(key, ctx.known[key] + f" [{len(items)} observations in this run]")
        else:
            ctx.violation(f"{key}: {msg}", rp)


def run(ctx):
    q = ctx.quick
    t0 = time.time()
    repo = os.environ.get("VERIF_REPO", "/repo")
    if os.path.isdir(DEVDIR):                    # proposed minimal fixes for the findings (kept outside the wiped scratch dir)
        for fn in sorted(os.listdir(DEVDIR)):
            if fn.startswith("proposed_fix_") and fn.endswith(".diff"):
                open(ctx.path(fn), "w").write(open(os.path.join(DEVDIR, fn)).read())
    forms = export_forms(ctx)
    bdir = ctx.build("plain", "fmtobs")
    cases, a64_names = a64_cases(ctx, repo, q, ctx.seed)
    cpath = ctx.path("a64cases.ndjson")
    with open(cpath, "w") as f:
        for c in cases:
            f.write(json.dumps(c, separators=(",", ":")) + "\n")
    ctx.log(f"AArch64: {len(cases)} cases of {a64_names} mnemonics (C02 generator + operand leg) ({time.time()-t0:.0f}s)")
    nprog = 300 if q else 3000
    xsh = 1 if q else 8
    stride = 3 if q else 2
    jobs = [("x86ops", ["x86ops", ctx.path("obs_x86ops.ndjson")]), ("a64", ["a64", cpath, ctx.path("obs_a64.ndjson")]), ("a64x", ["a64x", ctx.path("obs_a64x.ndjson")]),
            ("prog", ["prog", forms, cpath, ctx.path("prog.ndjson"), nprog])]
    for i in range(xsh):
        jobs.append((f"x86_{i}", ["x86", forms, ctx.path(f"obs_x86_{i}.ndjson"), ctx.tier, stride] + ([i, xsh] if xsh > 1 else [])))
    with concurrent.futures.ThreadPoolExecutor(max_workers=8) as ex:
        errs = dict(zip([j[0] for j in jobs], ex.map(lambda j: harness(ctx, bdir, j[1]), jobs)))
    lines = []
    legs = collections.Counter()
    for name, args in jobs:
        if name == "prog":
            continue
        pth = args[-1] if name in ("x86ops", "a64x") else args[2] if name == "a64" else args[2]
        with open(pth) as f:
            for l in f:
                l = l.rstrip("\n")
                if l:
                    lines.append(l)
        os.remove(pth)
    for l in lines:
        m = re.search(r'"a":"(\w+)"', l)
        g = re.search(r'"leg":"(\w)"', l)
        legs[(m.group(1) if m else "?") + ":" + (g.group(1) if g else "F")] += 1
    ctx.log(f"harness: {len(lines)} observations {dict(legs)}; {errs.get('x86_0', '').strip()} ({time.time()-t0:.0f}s)")
    if len(lines) < 20000:
        raise Broken("the sweep produced almost no observations")
    rej, unj = tlc_pointwise(ctx, lines, "obs", max(6, len(lines) // 60000 + 1), workers=3)
    ctx.log(f"TLC judged {len(lines)} observations: {len(rej)} rejected, {len(unj)} not judged ({time.time()-t0:.0f}s)")
    groups = collections.OrderedDict()
    for o, role, idx, exp, got in rej:
        groups.setdefault(signature(o, role, idx, exp, got), []).append((o, describe(o, role, idx, exp, got)))
    # ---- transcripts
    progs = [json.loads(l) for l in open(ctx.path("prog.ndjson")) if l.strip()]
    done, trej, tunj = tlc_transcripts(ctx, ctx.path("prog.ndjson"), len(progs))
    ctx.traces += len(done)
    ncalls = sum(len(p["calls"]) for p in progs)
    ctx.log(f"TLC validated {len(progs)} logger transcripts ({ncalls} calls): {len(done)} accepted, {len(trej)} rejected ({time.time()-t0:.0f}s)")
    for p, k, role, idx, exp, got in trej:
        P = progs[p - 1]
        c = P["calls"][k - 1] if k <= len(P["calls"]) else {"c": "end"}
        li = c.get("l0", len(P["lines"]))
        ln = P["lines"][li] if li < len(P["lines"]) else {"tx": "", "tk": [], "hx": [], "cm": ""}
        if c["c"] == "inst":
            o = dict(c, a=P["a"], leg="L", fl=P["fl"], tk=ln["tk"], hx=ln["hx"], tx=ln["tx"], nl=1, cm=ln["cm"])
            key, msg = signature(o, role, idx, exp, got), describe(o, role, idx, exp, got)
        else:
            key = f"{P['a']}:transcript:{c['c']}:{re.sub(r'[^a-z0-9]+', '-', (exp if role == 'transcript' else role).lower()).strip('-')[:60]}"
            msg = f"call {k} ({c['c']}: {json.dumps({x: c[x] for x in c if x not in ('ctk', 'ntk')}, separators=(',', ':'))[:300]}) logged \"{ln['tx'].strip()}\"; {role}: expected {exp!r}, got {got!r}"
        groups.setdefault(key, []).append((P, f"program {P['pi']} ({P['a']}, flags 0x{P['fl']:x}) " + msg))
    report(ctx, groups, ctx.out.rstrip("/") + "_replay")
    # ---- evidence
    judged = [l for l in lines]
    xf, xn, an, flagsets = set(), set(), set(), set()
    for l in judged:
        m = re.search(r'"f":(\d+),"n":"([^"]*)"', l)
        fl = re.search(r'"fl":(\d+)', l)
        if fl:
            flagsets.add(int(fl.group(1)))
        if m and m.group(1) != "0":
            xf.add(int(m.group(1))); xn.add(m.group(2))
        else:
            m = re.search(r'"mn":"([^"]+)"', l)
            if m:
                an.add(m.group(1))
        g = re.search(r'"leg":"(\w)"', l)
        a = re.search(r'"a":"(\w+)"', l)
        ctx.distinct.add((a.group(1) if a else "", g.group(1) if g else "F", m.group(0) if m else "", int(fl.group(1)) & 0x7F9 if fl else 0))
    all_x86 = {json.loads(l)["name"] for l in open(forms)}
    ctx.evaluations = len(lines) + ncalls
    unj_by = collections.Counter(why for _, why in unj)
    ctx.extra.update({
        "observations": dict(legs), "x86_forms_judged": len(xf), "x86_mnemonics_judged": len(xn), "a64_mnemonics_judged": len(an),
        "format_flag_combinations_judged": len(flagsets), "logger_transcripts": len(progs), "logger_transcript_calls": ncalls,
        "x86_instructions_without_a_judged_observation": sorted(all_x86 - xn), "unjudged": dict(unj_by), "rejection_classes": {k: len(v) for k, v in groups.items()},
        "not_covered": ["text of the kExplainImms explanation (skipped, the immediate itself is judged)", "FormatFlags::kPositions (only printed by Formatter::format_node for Compiler nodes)",
                        "Builder/Compiler node formatting (format_node: function/invoke/sentinel/const-pool nodes)", "AArch32 (no sweep exists)", "x86 APX registers r16..r31 (not swept by C01)",
                        "a64 rows without a C02 generator (PC-literal loads are covered by hand-made label cases only), SVE/SME", "the {1toN} decoration in format_operand (it is printed by format_instruction only)",
                        "'.repeat N' data lines (embed with repeat_count > 1)", "x86 instruction names the exporter does not find in InstAPI::string_to_inst_id"],
    })
    for o in [json.loads(l) for l in lines[:: max(1, len(lines) // 6)][:6]]:
        ctx.add_sample({"request": request_text(o), "flags": o.get("fl"), "text": o.get("tx", "").strip()}, limit=8)
    ctx.assumptions += [
        "the request recorded by the harness (lib_x86forms.h / lib_a64forms.h descriptors) is what was passed to asmjit; the lexer is generic (no names)",
        "syntax is normalised: blanks, case, ',', '#', '+', ':', 'ptr', number base, '*1', zero displacement, prefix order, alias notation, immediate explanations",
        "AArch64: LSL may be left unnamed (it is the architectural default shift); a condition operand may be printed by name or as asmjit's public CondCode value; "
        "an Imm(double) is printed as its IEEE-754 bit pattern; lane syntax Vn.4S[i] is read as Vn.S[i]",
        "logger leg: 'rex' / 'short' may be printed although not requested when the REX prefix / the rel8 form was emitted (options 'given or emitted')",
        "plain -O1 build of the working tree",
    ]
    vlib.write_evidence(
        ctx, "model_checking",
        rule="evaluations = observations judged by TLC as initial states of FmtObs.tla (one formatted line each) + emitter calls of the logger transcripts consumed by "
             "FmtLogTrace.tla; distinct = distinct (arch, leg, form/mnemonic, flag set) keys; traces = accepted logger transcripts; states/transitions from TLC",
        explanation="pointwise conformance checking: Fmt.tla is a pure function (Canon of the generic tokens matched against Denote(request)); the naming tables are written in the "
                    "spec from the manuals; the transcript leg is a trace spec over (program, calls consumed, per-section cursor)",
        exhaustive=False,
        trusted_base=["TLC", "spec/isa/Fmt.tla + FmtLogTrace.tla", "harness/fmtobs.cpp (generic lexer, records request/text/bytes)", "harness/lib_x86forms.h, lib_a64forms.h, checks/c02.py Gen (sweep)",
                      "tools/db_export_x86.js, db_export_a64.js"])


# ----------------------------------------------------------------------------------------------------------------
OURS = ("a", "leg", "fl", "tx", "tk", "hx", "b", "nl", "ic", "cm", "fx", "lst")


def replay(ctx, path):
    """re-executes the recorded requests on the current tree where the harness can (x86 F/L with physical registers, a64 cases) and
    judges them again; recorded operand-leg / transcript observations are judged as recorded."""
    recs = [json.loads(l) for l in open(path) if l.strip()]
    if recs and "calls" in recs[0]:
        p = ctx.path("replay_prog.ndjson")
        vlib.write_ndjson(p, recs)
        done, trej, _ = tlc_transcripts(ctx, p, len(recs), tag="replayprog")
        ctx.evaluations = sum(len(r["calls"]) for r in recs)
        for pi, k, role, idx, exp, got in trej[:1]:
            ctx.violation(f"transcript (as recorded): program {recs[pi-1]['pi']} call {k}: {role}: expected {exp!r}, got {got!r}", path)
        return
    bdir = ctx.build("plain", "fmtobs")
    again = []
    x86 = [r for r in recs if r.get("a") == "x86" and r.get("leg") in ("F", "L") and r.get("f") and not any(x["t"] in ("vr", "lb") or x.get("bt") == "vr" for x in r["ops"])]
    a64 = [r for r in recs if r.get("a") == "a64" and "iid" in r]
    rest = [r for r in recs if r not in x86 and r not in a64]
    if x86:
        vlib.write_ndjson(ctx.path("replay_x86.in"), x86)
        harness(ctx, bdir, ["replay", ctx.path("replay_x86.in"), ctx.path("replay_x86.out")])
        again += [l for l in open(ctx.path("replay_x86.out")).read().splitlines() if l]
    if a64:
        legs = {r.get("leg", "F") for r in a64}
        vlib.write_ndjson(ctx.path("replay_a64.in"), [{k: v for k, v in r.items() if k not in OURS or (k == "leg" and v == "O")} for r in a64])
        harness(ctx, bdir, ["a64", ctx.path("replay_a64.in"), ctx.path("replay_a64.out")])
        again += [l for l in open(ctx.path("replay_a64.out")).read().splitlines() if l and (json.loads(l).get("leg", "F") in legs)]
    again += [json.dumps(r, separators=(",", ":")) for r in rest]
    rej, unj = tlc_pointwise(ctx, again, "replay", 1)
    ctx.evaluations = len(again)
    open(ctx.path("replay.again.ndjson"), "w").write("\n".join(again) + "\n")
    for o, role, idx, exp, got in rej[:1]:
        ctx.violation(f"{signature(o, role, idx, exp, got)}: {describe(o, role, idx, exp, got)}", ctx.path("replay.again.ndjson"))
