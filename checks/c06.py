"""C06 - arguments and return values follow the target calling convention.

(a) classification: spec/func/ABI.tla (transcribed from the ABI documents, validated against gcc/clang on the host)
    decides, pointwise over observations of the real FuncDetail::init(), whether every placement is the ABI's.
    TLC enumerates the signatures (ABIGen.tla: exhaustive short suffixes behind register-exhausting prefixes +
    -simulate long themed signatures), harness/funcabi.cpp observes, TLC (ABICheck.tla) judges.
(b) assignment: spec/func/ArgShuffle.tla executes, on the abstract machine spec/machine/Machine.tla, the instruction
    list recorded from emit_args_assignment() for TLC-enumerated assignments (ArgShuffleGen.tla) and checks that
    every destination ends up holding its argument, extended/converted as its type demands.

Findings are grouped by a key computed by TLC's diagnosis (ABI + rule that is broken); each key is confirmed by a
strict TLC run on its minimal failing input; keys listed in KNOWN_FINDINGS.txt are reported as KNOWN-FINDING.
"""
import json, os, re, subprocess, sys, time
from concurrent.futures import ThreadPoolExecutor
import vlib
from vlib import Broken
import c06_ccval

SPEC = os.path.join(vlib.VERIF, "spec", "func")


def jprints(out):
    """PrintT(ToJson(x)) lines -> python values."""
    res = []
    for ln in out.splitlines():
        if ln.startswith('"['):
            try:
                res.append(json.loads(json.loads(ln)))
            except Exception:
                pass
    return res


def tla_tuple(txt):
    """<<"NONCONF", 3, <<"sysv64", ...>>>> -> python list (only tuples, strings, ints, booleans)."""
    t = txt.replace("<<", "[").replace(">>", "]").replace("TRUE", "true").replace("FALSE", "false")
    return json.loads(t)


def join_wrapped(out, prefix):
    """TLC wraps long printed values over several lines; join lines until brackets balance."""
    res, cur, depth = [], None, 0
    for ln in out.splitlines():
        if cur is None:
            if ln.startswith(prefix):
                cur = ln.strip()
                depth = cur.count("<<") - cur.count(">>")
                if depth <= 0:
                    res.append(cur)
                    cur = None
        else:
            cur += " " + ln.strip()
            depth += ln.count("<<") - ln.count(">>")
            if depth <= 0:
                res.append(cur)
                cur = None
    return res


def keystr(x):
    if isinstance(x, list):
        return "-".join(keystr(e) for e in x)
    if isinstance(x, bool):
        return "t" if x else "f"
    return str(x)


def san_summary(err):
    """Stable one-line description of a sanitizer report: kind + source location of the first frame inside asmjit."""
    m = re.search(r"runtime error: ([^\n]*)", err)
    if m:
        err = err.replace(m.group(1), re.sub(r"\d+", "N", m.group(1)))
        m = re.search(r"runtime error: ([^\n]*)", err)
    loc = re.search(r"(asmjit/[\w/.]+):(\d+)", err)
    if m:
        what = re.sub(r"[^A-Za-z0-9]+", "-", m.group(1))[:60].strip("-")
    else:
        m = re.search(r"ERROR: AddressSanitizer: ([\w-]+)", err)
        what = m.group(1) if m else "abort"
    return (what + "@" + (loc.group(1).replace("asmjit/", "") if loc else "?"))       # no line number: keys must survive edits


def run_resilient(ctx, mode, in_path, out_path, max_aborts=4, chunk=20000):
    """Run `funcabi <mode>` in the sanitizer build, in chunks.  A sanitizer abort loses nothing: the aborting input is
    re-run in the plain build to obtain its record, which is marked abort=<summary> (the specs reject it); after
    max_aborts the rest runs in the plain build (recorded in the evidence)."""
    inputs = open(in_path).read().splitlines()
    n = len(inputs)
    bd_asan = ctx.extra.get("_bd_asan") or ctx.build("asan", "funcabi")
    ctx.extra["_bd_asan"] = bd_asan
    plain = {}

    def bd_plain_dir():          # the plain build is only needed after a sanitizer abort: built lazily
        if "d" not in plain:
            plain["d"] = ctx.build("plain", "funcabi")
        return plain["d"]
    out, pos, aborts = [], 0, 0
    tin, tout = ctx.path(f"_{mode}_part.in"), ctx.path(f"_{mode}_part.out")
    while pos < n:
        end = min(n, pos + chunk)
        open(tin, "w").write("\n".join(inputs[pos:end]) + "\n")
        if os.path.exists(tout):
            os.remove(tout)
        use_plain = aborts >= max_aborts
        rc, _, err = vlib.run_harness(ctx, bd_plain_dir() if use_plain else bd_asan, "funcabi", [mode, tin, tout], timeout=1800)
        got = [l for l in open(tout).read().splitlines() if l.startswith("{") and l.endswith("}")] if os.path.exists(tout) else []
        out += got
        pos += len(got)
        if pos >= end:
            continue
        if use_plain or rc in (0, 3) or not ("runtime error" in err or "AddressSanitizer" in err or "LeakSanitizer" in err):
            raise Broken(f"funcabi {mode} stopped at input {pos} (rc={rc}) without a sanitizer report: {err[-1200:]}")
        # sanitizer abort on inputs[pos]
        aborts += 1
        summ = san_summary(err)
        open(tin, "w").write(inputs[pos] + "\n")
        rc2, _, err2 = vlib.run_harness(ctx, bd_plain_dir(), "funcabi", [mode, tin, tout], timeout=300)
        one = [l for l in open(tout).read().splitlines() if l.startswith("{")]
        if rc2 != 0 or len(one) != 1:
            raise Broken(f"plain build cannot process input {pos} either (rc={rc2}): {err2[-800:]}")
        rec = json.loads(one[0])
        rec["abort"] = summ
        out.append(json.dumps(rec, separators=(",", ":")))
        pos += 1
        ctx.log(f"sanitizer abort on {mode} input #{pos - 1}: {summ}")
    if aborts:
        ctx.extra.setdefault("sanitizer_aborts", {})[mode] = aborts
        if aborts >= max_aborts:
            ctx.extra["sanitizer_degraded_" + mode] = f"after {max_aborts} sanitizer aborts the rest of the batch ran in the plain build"
    open(out_path, "w").write("\n".join(out) + "\n")


# ----------------------------------------------------------------------------------------------------------
# leg (a)
# ----------------------------------------------------------------------------------------------------------
def abi_key(diag):
    """diag = [abi, kind, ...] as printed by ABI!Diag -> stable finding key (root-cause level: ABI + broken rule)."""
    abi, kind = diag[0], diag[1]
    if kind == "sanitizer-abort":
        return f"abi:any:sanitizer-abort:{diag[2]}"
    if kind == "consistency":
        if diag[2] == "unassigned":
            return f"abi:any:consistency:unassigned:{diag[3][0]}"
        return f"abi:{abi}:consistency:{diag[2]}"
    if kind == "constant":
        return f"abi:{abi}:constant:{diag[2]}"
    if kind == "return":
        return f"abi:{abi}:return:{keystr(diag[2])}"
    if kind == "arg":
        what, ty = diag[2], diag[3]
        if what == "stack-base":
            return f"abi:{abi}:arg:stack-base"
        if what in ("location", "indirect"):
            return f"abi:{abi}:arg:{what}:{keystr(diag[5])}-not-{keystr(diag[6])}"
        if what == "register":
            return f"abi:{abi}:arg:register:{ty[0]}"
        return f"abi:{abi}:arg:{what}:{ty[0]}"
    if kind == "stack-size":
        return f"abi:{abi}:stack-size"
    return f"abi:{abi}:{kind}"


def sig_text(o):
    va = "" if o["va"] == 255 else f" va@{o['va']}"
    return f"{o['env']}/{o['conv']} {o['ret']}({','.join(o['args'])}){va}"


def gen_signatures(ctx, tag, maxargs, long_, reduced, simulate=None, depth=None, slim=None, workers=8):
    slim = ctx.quick if slim is None else slim
    reduced = reduced if isinstance(reduced, str) else ("yes" if reduced else "no")
    cfg = ctx.path(f"gen_{tag}.cfg")
    open(cfg, "w").write(f"SPECIFICATION Spec\nCONSTANTS\n  MaxArgs = {maxargs}\n  Long = {'TRUE' if long_ else 'FALSE'}\n"
                         f"  Reduced = \"{reduced}\"\n  Slim = {'TRUE' if slim else 'FALSE'}\nINVARIANT Export\n")
    r = vlib.run_tlc(ctx, os.path.join(SPEC, "ABIGen.tla"), cfg, workers=workers, timeout=1500, tag=f"gen_{tag}", heap="6g",
                     simulate=simulate, depth=depth, seed=ctx.seed if simulate else None)
    if r.kind != "ok":
        raise Broken(f"signature generation ({tag}) failed: {r.out[-1500:]}")
    if not simulate:
        ctx.states += r.distinct
        ctx.transitions += r.generated
    sigs = []
    for v in jprints(r.out):
        if v and v[0] == "SIG":
            sigs.append({"env": v[1], "conv": v[2], "va": v[3], "ret": v[4], "args": v[5]})
    return sigs


def check_observations(ctx, obs_path, nobs, tag):
    """Pointwise TLC check (report mode): few large JVMs (<= 40000 observations each; inside the JVM the observations
    are fanned out over blocks so that all workers are busy).  Returns ([(global index, diag)], lines)."""
    lines = open(obs_path).read().splitlines()
    if len(lines) != nobs:
        raise Broken(f"harness produced {len(lines)} observations for {nobs} signatures")
    per = 40000
    jobs = []
    for s in range((nobs + per - 1) // per):
        part = lines[s * per:(s + 1) * per]
        p = ctx.path(f"obs_{tag}_{s}.ndjson")
        open(p, "w").write("\n".join(part) + "\n")
        jobs.append((s, p, len(part)))

    def one(job):
        s, p, n = job
        r = vlib.run_tlc(ctx, os.path.join(SPEC, "ABICheck.tla"), os.path.join(SPEC, "ABICheck.cfg"), workers=8, timeout=2400,
                         env={"OBS": p, "MODE": "report", "JAVA_TOOL_OPTIONS": "-XX:ParallelGCThreads=4"}, tag=f"chk_{tag}_{s}", heap="8g")
        return job, r

    res, info = [], {}
    with ThreadPoolExecutor(max_workers=3) as ex:
        for (s, p, n), r in ex.map(one, jobs):
            nb = 1 if n <= 400 else 64
            if r.kind != "ok" or r.distinct != n + nb + 1:
                raise Broken(f"ABICheck shard {s}: kind={r.kind} distinct={r.distinct}/{n + nb + 1}\n" + "\n".join(r.out.splitlines()[-25:]))
            ctx.states += r.distinct
            ctx.transitions += r.generated
            for v in jprints(r.out):
                if v and v[0] == "NONCONF":
                    res.append((s * per + v[1] - 1, v[2]))
                elif v and v[0] == "INFO":
                    k = f"{v[2]}/{v[3]}:{v[4]}"
                    info[k] = info.get(k, 0) + 1
    if info:
        # conventions no platform ABI governs (light-call, ...): internal consistency is reported, never judged
        ctx.extra["unjudged_consistency_observations"] = dict(sorted(info.items()))
    return res, lines


def confirm_strict(ctx, module, cfg, envname, path, tag):
    """Second, strict run on the single minimal input: must be a TLC invariant violation."""
    r = vlib.run_tlc(ctx, module, cfg, workers=1, timeout=600, env={envname: path, "MODE": "strict", "JAVA_TOOL_OPTIONS": "-XX:ParallelGCThreads=2"}, tag=tag, heap="1g")
    if r.kind == "violation":
        return True
    if r.kind == "ok":
        return False
    raise Broken(f"strict confirmation failed to run ({tag}): {r.out[-1200:]}")


def report_findings(ctx, groups, module, cfg, envname, what_of, sig_of, tag, keyof):
    """groups: key -> list of (record line, diag).  Confirms each key on its minimal input and reports it."""
    def simplicity(it):
        r = json.loads(it[0])
        return (len(r["args"]), r.get("va", 255) != 255, sum(r.get(k, 0) not in (0, 255) for k in ("fp", "avx", "sa", "lalign")), len(it[0]), it[0])

    todo = []
    for n, (key, items) in enumerate(sorted(groups.items())):
        items.sort(key=simplicity)
        # replay files live outside out/C06 (which every run, also a --replay run, wipes)
        rdir = os.path.join(vlib.VERIF, "out", "C06.findings")
        os.makedirs(rdir, exist_ok=True)
        rp = os.path.join(rdir, re.sub(r"[^A-Za-z0-9_.-]+", "_", key)[:120] + ".ndjson")
        open(rp, "w").write(items[0][0] + "\n")
        todo.append((n, key, items, rp))
    # second run: all minimal inputs again in one JVM (report mode) - each must be rejected again with the same key;
    # keys that are not listed as known are additionally confirmed by a strict run (TLC exit 12) of their own
    if todo:
        bp = ctx.path(f"recheck_{tag}.ndjson")
        open(bp, "w").write("".join(t[2][0][0] + "\n" for t in todo))
        r = vlib.run_tlc(ctx, module, cfg, workers=2, timeout=900, env={envname: bp, "MODE": "report"}, tag=f"recheck_{tag}", heap="2g")
        if r.kind != "ok":
            raise Broken(f"re-check of the minimal inputs failed to run ({tag}): {r.out[-1200:]}")
        again = {}
        for v in jprints(r.out):
            if v and v[0] == "NONCONF":
                d = v[2][1:] if tag == "b" else v[2]
                if tag == "b" and v[1] in again and again[v[1]][0] <= v[2][0]:
                    continue
                again[v[1]] = (v[2][0] if tag == "b" else 0, keyof(d))
        for idx, t in enumerate(todo):
            if again.get(idx + 1, (0, None))[1] != t[1]:
                raise Broken(f"finding {t[1]} not repeated by the second run on {t[3]} (got {again.get(idx + 1)})")
    unknown = [t for t in todo if t[1] not in ctx.known]
    with ThreadPoolExecutor(max_workers=4) as ex:
        confirmed = dict(zip([t[1] for t in unknown], ex.map(lambda t: confirm_strict(ctx, module, cfg, envname, t[3], f"strict_{tag}_{t[0]}"), unknown)))
    for (n, key, items, rp) in todo:
        if key in confirmed and not confirmed[key]:
            raise Broken(f"finding {key} not confirmed by the strict run on {rp}")
        line, diag = items[0]
        rec = json.loads(line)
        what = f"{what_of(diag)}; minimal input: {sig_of(rec)}; {len(items)} failing inputs in this run"
        ctx.extra.setdefault("findings", {})[key] = {"count": len(items), "minimal": sig_of(rec), "diag": diag}
        if key in ctx.known:
            ctx.known_finding(key, what)
        else:
            ctx.violation(f"key={key} {what}", rp)


def abi_what(diag):
    abi, kind = diag[0], diag[1]
    if kind == "arg":
        return f"{abi}: argument #{diag[4]} ({keystr(diag[3])}) {diag[2]}: ABI says {keystr(diag[5])}, asmjit says {keystr(diag[6])}"
    if kind == "stack-size":
        return f"{abi}: argument stack size: ABI needs {diag[2]}, asmjit says {diag[3]}"
    return f"{abi}: {kind} {keystr(diag[2:])}"


def leg_a(ctx, bdir):
    q = ctx.quick
    sigs = []
    if q:
        sigs += gen_signatures(ctx, "short", 2, False, "both")        # <=2 suffix behind prefixes + <=3 over the reduced types
        sigs += gen_signatures(ctx, "long", 32, True, "no", simulate=30, depth=33, workers=2)
    else:
        sigs += gen_signatures(ctx, "short", 2, False, False)
        sigs += gen_signatures(ctx, "reduced3", 2, False, "yes")              # "yes": one more argument than MaxArgs
        sigs += gen_signatures(ctx, "reduced4", 3, False, "yes", slim=True)
        sigs += gen_signatures(ctx, "long", 32, True, False, simulate=300, depth=33)
    uniq = {}
    for s in sigs:
        uniq.setdefault(json.dumps(s, sort_keys=True), s)
    sigs = list(uniq.values())
    ctx.log(f"(a) {len(sigs)} distinct signatures enumerated by TLC (max {max(len(s['args']) for s in sigs)} arguments)")
    sp, op = ctx.path("sigs.ndjson"), ctx.path("obs.ndjson")
    vlib.write_ndjson(sp, sigs)
    run_resilient(ctx, "observe", sp, op)
    bad, lines = check_observations(ctx, op, len(sigs), "a")
    ctx.evaluations += len(sigs)
    for s in sigs:
        ctx.distinct.add(("sig", s["env"], s["conv"], s["va"], s["ret"], tuple(s["args"])))
    ctx.extra["abi_observations"] = len(sigs)
    ctx.extra["abi_nonconforming"] = len(bad)
    groups = {}
    for idx, diag in bad:
        groups.setdefault(abi_key(diag), []).append((lines[idx], diag))
    ctx.log(f"(a) {len(bad)} non-conforming observations in {len(groups)} classes")
    for i in (0, len(lines) // 2, len(lines) - 1):
        o = json.loads(lines[i])
        ctx.add_sample({"signature": sig_text(o), "placement": [[f"{v['k']}:{v['g']}{v['id']}@{v['off']}{'*' if v['ind'] else ''}" for v in p] for p in o["a"]][:8],
                        "arg_stack_size": o["ass"]})
    report_findings(ctx, groups, os.path.join(SPEC, "ABICheck.tla"), os.path.join(SPEC, "ABICheck.cfg"), "OBS", abi_what, sig_text, "a", abi_key)


def model_validation(ctx):
    cfg = ctx.path("validate.cfg")
    open(cfg, "w").write(f"SPECIFICATION Spec\nCONSTANTS\n  MaxSuffix = {1 if ctx.quick else 2}\nINVARIANT Export\n")
    r = vlib.run_tlc(ctx, os.path.join(SPEC, "ABIValidate.tla"), cfg, workers=4, timeout=900, tag="validate")
    if r.kind != "ok":
        raise Broken("ABIValidate failed: " + r.out[-1200:])
    allexp = [(v[1], v[2], v[3], v[4], v[5]) for v in jprints(r.out) if v and v[0] == "EXP"]
    # x86-64: executed on the host with gcc and clang
    host = [e[:4] for e in allexp if e[0] in ("sysv64", "win64", "vectorcall64")]
    res = c06_ccval.run(host, ctx.out, ctx.log)
    tot = 0
    for comp, (nsig, checked, mism, lines) in res.items():
        if mism != 0:
            raise Broken(f"ABI.tla disagrees with {comp} (spec bug, not an asmjit finding): {lines[:5]}")
        tot += checked
    ctx.extra["abi_model_validation"] = {c: {"signatures": v[0], "placements": v[1]} for c, v in res.items()}
    # AArch64 / Apple: clang cross-compiles the caller, the assembly is walked
    nsig, npl, mism = c06_ccval.run_cross([e for e in allexp if e[0] in ("aapcs64", "apple64")], ctx.out, ctx.log)
    if mism:
        raise Broken(f"ABI.tla disagrees with clang for AArch64 (spec bug, not an asmjit finding): {mism[:5]}")
    ctx.extra["abi_model_validation"]["clang-aarch64-cross"] = {"signatures": nsig, "placements": npl}
    return tot + npl


# ----------------------------------------------------------------------------------------------------------
# leg (b)
# ----------------------------------------------------------------------------------------------------------
def shuffle_key(diag):
    # diag = [family, what, detail...]
    return "shuffle:" + ":".join(keystr(x) for x in diag)


def case_text(c):
    dst = []
    for d in c["dst"]:
        if d["k"] == "reg":
            dst.append(f"{d['rt']}#{d['id']}" + (f":{d['t']}" if d["t"] else ""))
        elif d["k"] == "stack":
            dst.append(f"[sp+{d['off']}]" + (f":{d['t']}" if d["t"] else ""))
        else:
            dst.append("-")
    extra = "".join(f" {k}={c[k]}" for k in ("fp", "avx", "sa", "lalign") if c.get(k) not in (0, 255, None))
    return f"{c['env']}/{c['conv']} ({','.join(c['args'])}) -> ({', '.join(dst)}){extra}"


def gen_cases(ctx, tag, consts, simulate=None, depth=None, workers=8):
    cfg = ctx.path(f"sgen_{tag}.cfg")
    open(cfg, "w").write("SPECIFICATION Spec\nCONSTANTS\n" + "".join(f"  {k} = {v}\n" for k, v in consts.items()) + "INVARIANT Export\n")
    r = vlib.run_tlc(ctx, os.path.join(SPEC, "ArgShuffleGen.tla"), cfg, workers=workers, timeout=1500, tag=f"sgen_{tag}", heap="6g",
                     simulate=simulate, depth=depth, seed=ctx.seed if simulate else None)
    if r.kind != "ok":
        raise Broken(f"assignment generation ({tag}) failed: {r.out[-1500:]}")
    if not simulate:
        ctx.states += r.distinct
        ctx.transitions += r.generated
    return [v[1] for v in jprints(r.out) if v and v[0] == "CASE"]


def check_cases(ctx, out_path, ncases, tag):
    lines = open(out_path).read().splitlines()
    if len(lines) != ncases:
        raise Broken(f"harness produced {len(lines)} shuffle records for {ncases} cases")
    per = 30000
    jobs = []
    for s in range((ncases + per - 1) // per):
        part = lines[s * per:(s + 1) * per]
        p = ctx.path(f"cases_{tag}_{s}.ndjson")
        open(p, "w").write("\n".join(part) + "\n")
        jobs.append((s, p, len(part)))

    def one(job):
        s, p, n = job
        r = vlib.run_tlc(ctx, os.path.join(SPEC, "ArgShuffle.tla"), os.path.join(SPEC, "ArgShuffle.cfg"), workers=8, timeout=2400,
                         env={"CASES": p, "MODE": "report", "JAVA_TOOL_OPTIONS": "-XX:ParallelGCThreads=4"}, tag=f"mach_{tag}_{s}", heap="8g")
        return job, r

    res = []
    with ThreadPoolExecutor(max_workers=3) as ex:
        for (s, p, n), r in ex.map(one, jobs):
            if r.kind != "ok" or r.distinct < n:
                raise Broken(f"ArgShuffle shard {s}: kind={r.kind} distinct={r.distinct} < {n}\n" + "\n".join(r.out.splitlines()[-25:]))
            ctx.states += r.distinct
            ctx.transitions += r.generated
            first = {}
            for v in jprints(r.out):              # ["NONCONF", case, [pc, family, what, ...]]
                if not v or v[0] != "NONCONF":
                    continue
                if v[1] not in first or v[2][0] < first[v[1]][0]:
                    first[v[1]] = v[2]
            for cidx, d in first.items():
                res.append((s * per + cidx - 1, d[1:]))
    return res, lines


def shuffle_what(diag):
    return "entry argument assignment: " + " ".join(keystr(x) for x in diag)


def leg_b(ctx, bdir):
    q = ctx.quick
    cases = []
    cases += gen_cases(ctx, "static", {"Mode": '"static"', "MaxArgs": 3 if q else 5, "Full": "FALSE" if q else "TRUE"})
    cases += gen_cases(ctx, "mixed", {"Mode": '"mixed"', "MaxArgs": 3, "Full": "FALSE"}, simulate=500 if q else 6000, depth=12, workers=2 if q else 8)
    uniq = {}
    for c in cases:
        uniq.setdefault(json.dumps(c, sort_keys=True), c)
    cases = list(uniq.values())
    ctx.log(f"(b) {len(cases)} distinct assignments enumerated by TLC")
    cp, op = ctx.path("cases.ndjson"), ctx.path("shuffle.ndjson")
    vlib.write_ndjson(cp, cases)
    run_resilient(ctx, "shuffle", cp, op)
    bad, lines = check_cases(ctx, op, len(cases), "b")
    nerr = ninst = 0
    for ln in lines:
        o = json.loads(ln)
        ctx.traces += 1
        ninst += o["ninst"]
        if any(o[e] != "Ok" for e in ("e0", "e1", "e2", "e3", "e4")):
            nerr += 1
        ctx.distinct.add(("case", ln[:0] + json.dumps([o["env"], o["conv"], o["args"], o["dst"], o["fp"], o["avx"], o["sa"], o["lalign"]])))
    ctx.evaluations += ninst
    ctx.extra["shuffle_cases"] = len(cases)
    ctx.extra["shuffle_refused_by_asmjit"] = nerr
    ctx.extra["shuffle_instructions_executed"] = ninst
    groups = {}
    for idx, diag in bad:
        groups.setdefault(shuffle_key(diag), []).append((lines[idx], diag))
    ctx.log(f"(b) {len(lines)} instruction lists executed on the abstract machine ({ninst} instructions, {nerr} assignments refused by asmjit); "
            f"{len(bad)} rejected in {len(groups)} classes")
    for i in (0, len(lines) // 3, len(lines) - 1):
        o = json.loads(lines[i])
        ctx.add_sample({"assignment": case_text(o), "emitted": [i_["op"] + " " + ",".join(
            (f"{x['g']}{x['id']}:{x['sz']}" if x["k"] == "reg" else f"[gp{x['b']}{x['d']:+d}]:{x['sz']}" if x["k"] == "mem" else str(x["d"])) for x in i_["o"]) for i_ in o["insts"]][:10]})
    report_findings(ctx, groups, os.path.join(SPEC, "ArgShuffle.tla"), os.path.join(SPEC, "ArgShuffle.cfg"), "CASES", shuffle_what, case_text, "b", shuffle_key)


# ----------------------------------------------------------------------------------------------------------
ASSUMPTIONS = [
    "ABI.tla is transcribed from the psABI / Microsoft / AAPCS64 / Apple documents; in every run its sysv64, win64 (ms_abi) and vectorcall64 parts are validated "
    "by executing gcc-12 and clang-14 compiled callers on the host (vectorcall only with clang, stack offsets modulo the 32-byte home area clang omits on a non-Windows "
    "target) and its aapcs64 / apple64 parts (incl. Apple variadic and natural-size stack arguments) against clang-14 cross-compiled caller assembly; "
    "the i386 part is not validated automatically (spot-checked by hand against gcc -m32 and clang -target i386: regparm variadic => all on stack)",
    "conventions no platform ABI governs (light-call 2-4, and every (environment, convention) pair ABI.tla maps to no ABI) are never judged: their internal "
    "consistency results are only counted in the evidence (unjudged_consistency_observations)",
    "NOT asserted (consistency only: every argument has a location, no register twice, stack slots disjoint/aligned/inside the argument area, "
    "no argument or return register in the preserved set): MMX, mask, x87 and 4-byte vector types; 8-byte vectors outside sysv64/AArch64; 64-bit integers under "
    "fastcall/thiscall/regparm (compilers disagree); vector arguments of 32-bit conventions; 32-bit vectorcall; thiscall on non-Windows; vectorcall on a non-Windows x86-64 "
    "environment; variadic stdcall/fastcall/thiscall/vectorcall; light-call 2-4; 256/512-bit vector returns on Windows",
    "Win64 variadic floating-point arguments may be reported in the XMM or in the GP register of their position (the ABI duplicates them)",
    "the argument stack size of caller-cleanup conventions is only bounded (>= what the ABI needs, <= that + 47); callee-cleanup sizes must be exact; "
    "a red zone smaller than the ABI's is accepted; preserved sets may additionally list sp/fp/lr/x18",
    "a FuncDetail::init() or emit_args_assignment() call that returns an error is a refusal, not a wrong placement (counted, not judged)",
    "(b) starts from the locations FuncDetail reports (their ABI-correctness is leg (a)) and from the SA register value the frame record promises (the prolog is C07); "
    "int extension: signed->signed must sign-extend, unsigned source must zero-extend, signed source into unsigned destination may do either; "
    "upper bits of a register above the declared argument size are unknown at entry",
    "harness projection: FuncDetail/CallConv/FuncFrame accessors and the Builder node list (mnemonic + operand shapes) are logged verbatim; the harness computes nothing",
]


def run(ctx):
    bdir = ctx.build("asan", "funcabi")
    ctx.extra["_bd_asan"] = bdir
    nval = model_validation(ctx)
    ctx.log(f"ABI.tla validated against gcc and clang: {nval} argument placements, 0 mismatches")
    leg_a(ctx, bdir)
    leg_b(ctx, bdir)
    ctx.extra.pop("_bd_asan", None)
    # leg (c): the call sites the Compiler generates (x86rapass / a64rapass are C06's code too): arguments and return values of
    # invoke() as observed by recording callees on the SysV host (Invoke.tla, locations from ABI.tla) and the static callers for
    # x86-32 / Win64 / AAPCS64 (InvokeStatic.tla). These are the executed / static legs of the extension check X06, run under
    # this property's id; findings listed for X06 count here as well.
    import x06
    ctx.known.update(vlib.load_known("X06"))
    with ThreadPoolExecutor(max_workers=2) as ex:
        for f in [ex.submit(x06.part_a, ctx), ex.submit(x06.part_c, ctx)]:
            f.result()
    ctx.assumptions += ASSUMPTIONS
    vlib.write_evidence(ctx, "model_checking",
        rule="evaluations = signatures classified by the real FuncDetail::init() and judged by TLC against ABI.tla + instructions of real emit_args_assignment() "
             "outputs executed by TLC on the abstract machine; distinct = distinct (environment, convention, varargs, return, argument types) signatures + distinct "
             "(signature, destination assignment, frame options) cases; traces = instruction lists executed; states/transitions = TLC totals over generators, pointwise "
             "checks and machine runs",
        trusted_base=["TLC 1.8.0", "spec/func/ABI.tla (validated against gcc/clang for the x86-64 conventions)", "spec/machine/Machine.tla instruction semantics",
                      "harness/funcabi.cpp projection (accessors + node list, no computation)"],
        exhaustive=False)


def replay(ctx, path):
    """Re-run the recorded input against the current tree and judge it strictly."""
    recs = vlib.read_ndjson(path)
    if not recs:
        raise Broken("empty replay file")
    if any(r.get("e") in ("Scenario", "Static") for r in recs) or ("cargs" in recs[0] and "e" not in recs[0]):
        import x06           # a replay file of leg (c)
        ctx.known.update(vlib.load_known("X06"))
        return x06.replay(ctx, path)
    bdir = ctx.build("asan", "funcabi")
    rec = recs[0]
    ip, op = ctx.path("replay_in.ndjson"), ctx.path("replay_out.ndjson")
    if rec.get("e") == "Case":
        vlib.write_ndjson(ip, [{k: rec[k] for k in ("env", "conv", "args", "dst", "fp", "avx", "sa", "lalign", "lsize")}])
        run_resilient(ctx, "shuffle", ip, op)
        mod, cfg, envn = os.path.join(SPEC, "ArgShuffle.tla"), os.path.join(SPEC, "ArgShuffle.cfg"), "CASES"
    else:
        vlib.write_ndjson(ip, [{k: rec[k] for k in ("env", "conv", "va", "ret", "args")}])
        run_resilient(ctx, "observe", ip, op)
        mod, cfg, envn = os.path.join(SPEC, "ABICheck.tla"), os.path.join(SPEC, "ABICheck.cfg"), "OBS"
    print(open(op).read().strip()[:3000])
    if confirm_strict(ctx, mod, cfg, envn, op, "replay"):
        ctx.violation("replayed input is rejected by the specification", op)
    else:
        ctx.log("replayed input conforms")
