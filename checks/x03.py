"""X03 - data, alignment and constant-pool emission appends exactly the documented bytes.

Decided by:
 (1) TLC, design level: DataEmitImpl.tla (assembler.cpp / x86assembler.cpp::align / a64assembler.cpp::align / CodeWriter /
     grow_buffer / reserve_buffer / bind_label transcribed) refines the contract DataEmit.tla for every history over small
     argument sets (three focused configurations), the contract's invariants and step properties hold, every action is
     taken (-coverage), and each seeded transcription slip (negative controls) is rejected.
 (2) trace validation against the contract (DataEmitTrace.tla): TLC-exported histories (exhaustive short ones + simulated
     long ones), seeded random programs (x86-32 / x64 / AArch64, with and without kOptimizedAlign, rewinds, fixed and
     reserved buffers, growth across capacity boundaries) and an alignment sweep (every gap of every valid alignment,
     every mode) are executed on the real x86::Assembler / a64::Assembler; per call the appended bytes, the cursor, the
     size, the capacity, the relocation / fixup counts and the whole section (image or checksum) must be a step of the
     contract.  The final images of the Assembler and of the Builder->finalize() run of the same calls are held against
     the contract state as well.
 (3) spec validation only: the NOP table written into DataEmit.tla is disassembled by llvm-mc-14 and objdump."""
import json, os, re, subprocess, shutil
from concurrent.futures import ThreadPoolExecutor
import vlib
from vlib import Broken

SPEC = os.path.join(vlib.VERIF, "spec", "code")
MOD_MC = os.path.join(SPEC, "DataEmitMC.tla")
MOD_T, CFG_T = os.path.join(SPEC, "DataEmitTrace.tla"), os.path.join(SPEC, "DataEmitTrace.cfg")

ACTIONS = ["IAttach", "IDetached", "ISetOpt", "IAlign", "IEmbed", "IEmbedArray", "IBind", "INewLabel", "IEmbedConstPool",
           "IEmbedLabel", "IEmbedLabelDelta", "ISetOffset", "INewSection", "ISection", "IReserve", "IInst", "IComment"]

MC_TMPL = """SPECIFICATION Spec
CONSTANTS
  Archs <- ArchsAll
  Datas <- {Datas}
  Aligns <- {Aligns}
  Modes <- {Modes}
  Tids <- {Tids}
  Counts <- {Counts}
  Pools <- {Pools}
  LabelSizes <- {LabelSizes}
  Offsets <- {Offsets}
  SecKinds = {SecKinds}
  ReserveSizes <- {Reserve}
  MaxOps = {MaxOps}
  MaxLabels = {MaxLabels}
  MaxSecs = {MaxSecs}
  WithInst = {WithInst}
  Bug = "{Bug}"
{checks}
"""
CHECKS = "INVARIANTS ContractInv PendSum\nPROPERTIES RefinesContract StepProps\nVIEW View"
CONFIGS = {
    # every call, every argument class, all pairs of calls after attach
    "all": dict(Datas="DatasStd", Aligns="AlignsStd", Modes="ModesStd", Tids="TidsStd", Counts="CountsStd", Pools="PoolsStd",
                LabelSizes="LabelSizesStd", Offsets="OffsetsStd", SecKinds='{"dyn", "fix", "res"}', Reserve="ReserveStd",
                MaxOps=3, MaxLabels=2, MaxSecs=2, WithInst="TRUE"),
    # alignment: gaps of every NOP length, rewinds, fixed buffers that are too small
    "align": dict(Datas="DatasAlign", Aligns="AlignsAlign", Modes="ModesAlign", Tids="None", Counts="None", Pools="None",
                  LabelSizes="None", Offsets="OffsetsAlign", SecKinds='{"fix"}', Reserve="ReserveAlign",
                  MaxOps=5, MaxLabels=0, MaxSecs=2, WithInst="FALSE"),
    # labels, placeholders, constant pools, sections
    "label": dict(Datas="DatasLabel", Aligns="AlignsLabel", Modes="ModesLabel", Tids="None", Counts="None", Pools="PoolsLabel",
                  LabelSizes="LabelSizesLabel", Offsets="OffsetsLabel", SecKinds='{"dyn", "fix"}', Reserve="ReserveLabel",
                  MaxOps=5, MaxLabels=2, MaxSecs=2, WithInst="FALSE"),
}
NEGS = [("nop7", "align"), ("dataFillNop", "align"), ("a64misalign", "align"), ("setOffsetCap", "align"),
        ("alignNoCheck", "all"), ("noOverflowCheck", "all"), ("poolNoAlign", "label")]


def mc_cfg(ctx, name, conf, bug="none", checks=CHECKS, **over):
    d = dict(CONFIGS[conf])
    d.update(over)
    p = ctx.path(f"mc_{name}.cfg")
    open(p, "w").write(MC_TMPL.format(Bug=bug, checks=checks, **d))
    return p


def actions_taken(out):
    res = {}
    for m in re.finditer(r"^<(\w+) line \d+, col \d+ to line \d+, col \d+ of module DataEmitImpl[^>]*>: (\d+):(\d+)", out, re.M):
        res[m.group(1)] = res.get(m.group(1), 0) + int(m.group(3))
    return res


def tla_to_py(txt):
    txt = txt.replace("<<", "[").replace(">>", "]")
    txt = re.sub(r"\bTRUE\b", "true", txt)
    txt = re.sub(r"\bFALSE\b", "false", txt)
    return json.loads(txt)


def parse_behaviours(out):
    res = []
    for v in vlib.parse_beh(out, "BEH"):
        if isinstance(v, str):
            try:
                arch, opt, hist = tla_to_py(v)
            except Exception:
                continue
            res.append({"arch": arch, "opt": opt, "ops": hist})
    return res


# ----------------------------------------------------------------------------------------------------------
# (3) NOP table of the spec against independent disassemblers (spec validation only)
# ----------------------------------------------------------------------------------------------------------
def validate_nop_table(ctx, out):
    vals = vlib.parse_beh(out, "NOPTAB")
    if not vals:
        raise Broken("NOPTAB not printed by the design run")
    tab, a64 = vals[0]
    if [len(x) for x in tab] != list(range(1, 10)):
        raise Broken(f"NOP table shape {[len(x) for x in tab]}")
    tools = 0
    if shutil.which("llvm-mc-14"):
        tools += 1
        for triple in ("x86_64", "i386"):
            for nop in tab:
                txt = " ".join("0x%02x" % b for b in nop + [0xC3])      # sentinel RET: the NOP must consume exactly its bytes
                p = subprocess.run(["llvm-mc-14", "--disassemble", f"-triple={triple}"], input=txt, capture_output=True, text=True, timeout=60)
                ins = [l.strip() for l in p.stdout.splitlines() if l.strip() and not l.strip().startswith(".")]
                mn = [i.split()[0] for i in ins]
                if p.returncode != 0 or "warning" in p.stderr or len(mn) != 2 or not mn[0].startswith("nop") or not mn[1].startswith("ret"):
                    raise Broken(f"spec NOP table entry {nop} is not one NOP for llvm-mc ({triple}): {ins} {p.stderr[:200]}")
        txt = " ".join("0x%02x" % b for b in a64)
        p = subprocess.run(["llvm-mc-14", "--disassemble", "-triple=aarch64"], input=txt, capture_output=True, text=True, timeout=60)
        ins = [l.strip() for l in p.stdout.splitlines() if l.strip() and not l.strip().startswith(".")]
        if len(ins) != 1 or not ins[0].startswith("nop"):
            raise Broken(f"spec AArch64 NOP {a64} is not a NOP for llvm-mc: {ins}")
    if shutil.which("objdump"):
        tools += 1
        for mach in ("i386:x86-64", "i386"):
            blob = bytes(b for nop in tab for b in nop + [0xC3])
            f = ctx.path("nops.bin")
            open(f, "wb").write(blob)
            p = subprocess.run(["objdump", "-D", "-b", "binary", "-m", mach, f], capture_output=True, text=True, timeout=60)
            mn = []
            for l in p.stdout.splitlines():
                m = re.match(r"\s*[0-9a-f]+:\t([0-9a-f ]+)\t(\S+)", l)
                if m:
                    mn.append(m.group(2))
            want = ["nop", "ret"] * 9
            got = ["nop" if x.startswith(("nop", "xchg")) else "ret" if x.startswith("ret") else x for x in mn]
            if got != want:
                raise Broken(f"spec NOP table does not disassemble to 9 x (nop, ret) with objdump -m {mach}: {mn}")
    ctx.extra["nop_table_corroborated_by"] = tools
    ctx.log(f"spec NOP table (9 x86 sequences, AArch64 NOP) corroborated by {tools} independent disassembler(s)")


# ----------------------------------------------------------------------------------------------------------
# (1) design
# ----------------------------------------------------------------------------------------------------------
def design(ctx):
    q = ctx.quick
    depth = {"all": 3, "align": 5 if q else 6, "label": 4 if q else 6}
    behs = []
    with ThreadPoolExecutor(max_workers=8) as ex:
        fsim = simulate_start(ctx, ex, 300 if q else 8000)
        fd = {}
        for conf in CONFIGS:
            cfg = mc_cfg(ctx, conf, conf, MaxOps=depth[conf],
                         checks=CHECKS + ("\nINVARIANT Export" if conf == "all" else ""))
            fd[conf] = ex.submit(vlib.run_tlc, ctx, MOD_MC, cfg, workers=8 if q else 10, timeout=2400, heap="6g", tag=f"design_{conf}")
        # -coverage slows TLC down a lot: a separate shallow run over the configuration that contains every call
        fcov = ex.submit(vlib.run_tlc, ctx, MOD_MC, mc_cfg(ctx, "cov", "all", MaxOps=2), workers=2, timeout=900, tag="coverage", coverage=True)
        negs = NEGS if not q else [n for n in NEGS if n[0] in ("nop7", "a64misalign", "noOverflowCheck", "poolNoAlign")]
        fn = {bug: ex.submit(vlib.run_tlc, ctx, MOD_MC, mc_cfg(ctx, "neg_" + bug, conf, bug=bug), workers=3, timeout=900, tag="neg_" + bug)
              for bug, conf in negs}
        taken = {}
        for conf in CONFIGS:
            r = fd[conf].result()
            vlib.tlc_must_ok(ctx, r, f"design '{conf}' (DataEmitImpl => DataEmit)")
            ctx.log(f"design {conf}: {r.distinct} distinct states / {r.generated} steps, refinement + invariants + step properties hold (MaxOps={depth[conf]})")
            ctx.extra[f"design_{conf}_states"] = r.distinct
            if conf == "all":
                behs += parse_behaviours(r.out)
                validate_nop_table(ctx, r.out)
        r = fcov.result()
        vlib.tlc_must_ok(ctx, r, "coverage run")
        taken = actions_taken(r.out)
        never = [a for a in ACTIONS if not taken.get(a)]
        if never:
            raise Broken(f"coverage: actions never taken: {never}")
        ctx.log(f"coverage: all {len(ACTIONS)} actions of the transcription taken")
        for bug, conf in negs:
            r = fn[bug].result()
            if r.kind != "violation" or r.violated not in ("RefinesContract", "ContractInv", "StepProps"):
                raise Broken(f"negative control '{bug}' was not rejected (kind={r.kind} violated={r.violated})\n" + r.out[-600:])
        ctx.log(f"{len(negs)} negative controls rejected: " + ", ".join(n[0] for n in negs))
        ctx.extra["negative_controls_rejected"] = [n[0] for n in negs]
        sims = simulate_collect(fsim)
    return behs, sims


def simulate_start(ctx, ex, n):
    """long model-generated behaviours (TLC -simulate) for replay; returns futures"""
    jobs = [("all", dict(MaxOps=12, Tids="TidsFew", Counts="CountsFew", Aligns="AlignsGap", Datas="DatasGap", LabelSizes="LabelSizesFew",
                         Offsets="OffsetsAlign", Modes="ModesAlign")),
            ("label", dict(MaxOps=14, MaxSecs=3, WithInst="TRUE"))]
    fs = []
    for conf, over in jobs:
        cfg = mc_cfg(ctx, "sim_" + conf, conf, checks="INVARIANT Export", **over)
        fs.append(ex.submit(vlib.run_tlc, ctx, MOD_MC, cfg, workers=3, timeout=900, tag="sim_" + conf, simulate=max(n // 6, 1),
                            depth=over["MaxOps"] + 2, seed=ctx.seed))
    return fs


def simulate_collect(fs):
    behs = []
    for f in fs:
        r = f.result()
        if r.kind != "ok":
            raise Broken("simulation export failed: " + r.out[-800:])
        behs += parse_behaviours(r.out)
    return behs


# ----------------------------------------------------------------------------------------------------------
# (2) binding
# ----------------------------------------------------------------------------------------------------------
def ev_alignment(ev):
    return (ev.get("ahi", 0) << 16) | ev.get("alo", 0)


def describe(ev, reset):
    """stable signature of a rejected event: names the call, its arguments and the report"""
    e = ev.get("e")
    arch = reset.get("arch")
    base = f"{e}:{arch}"
    if e == "Align":
        return f"{base}:opt={int(bool(reset.get('opt')))}:mode={ev['mode']}:a={ev_alignment(ev)}:r={ev['r']}:n={len(ev.get('app', []))}"
    if e == "EmbedArray":
        ic = sum(b << (8 * i) for i, b in enumerate(ev["ic"]))
        rc = sum(b << (8 * i) for i, b in enumerate(ev["rc"]))
        return f"{base}:via={ev['via']}:tid={ev['tid']}:ic={ic}:rc={rc}:r={ev['r']}:n={len(ev.get('app', []))}"
    if e in ("EmbedLabel", "EmbedLabelDelta"):
        return f"{base}:sz={ev['sz']}:r={ev['r']}:n={len(ev.get('app', []))}"
    if e == "EmbedConstPool":
        return f"{base}:palign={ev['palign']}:psize={len(ev['image'])}:r={ev['r']}:n={len(ev.get('app', []))}"
    if e == "Images":
        return f"{base}:via={ev.get('via')}:r={ev.get('r')}"
    if e == "ABORT":
        return f"ABORT:{arch}"
    return f"{base}:r={ev.get('r')}:n={len(ev.get('app', []))}"


def events_to_script(recs):
    """recorded execution -> script for `dataemit script` (re-execution on the current tree)"""
    reset = recs[0]
    ops = []
    for ev in recs[1:]:
        e = ev["e"]
        if e == "Attach": ops.append(["Attach"])
        elif e == "Detached": ops.append(["Detached", ev["op"]])
        elif e == "SetOpt": ops.append(["SetOpt", ev["on"]])
        elif e == "Align": ops.append(["Align", ev["mode"], ev_alignment(ev)])
        elif e == "Embed": ops.append(["Embed", ev["data"]])
        elif e == "EmbedArray": ops.append(["EmbedArray", ev["tid"], ev["item"], ev["ic"], ev["rc"], ev["via"]])
        elif e == "EmbedConstPool": ops.append(["Pool", ev["lab"] if ev["lab"] else 99, ev["items"]])
        elif e == "EmbedLabel": ops.append(["EmbedLabel", ev["lab"] if ev["lab"] else 99, ev["sz"]])
        elif e == "EmbedLabelDelta": ops.append(["EmbedLabelDelta", ev["lab"] if ev["lab"] else 99, ev["base"] if ev["base"] else 99, ev["sz"]])
        elif e == "NewLabel": ops.append(["NewLabel"])
        elif e == "Bind": ops.append(["Bind", ev["lab"] if ev["lab"] else 99])
        elif e == "SetOffset": ops.append(["SetOffset", ev["o"]])
        elif e == "NewSection": ops.append(["NewSection", ev["kind"], ev["capreq"]])
        elif e == "Section": ops.append(["Section", ev["sec"]])
        elif e == "Reserve": ops.append(["Reserve", ev["sec"], ev["n"]])
        elif e == "Inst": ops.append(["Inst", ev.get("which", 1)])
        elif e == "Comment": ops.append(["Comment"])
        elif e == "Images" and ev.get("via") == "asm": ops.append(["Snap"])
    if ops and ops[-1] == ["Snap"]:
        ops.pop()          # the final snapshot is taken by the harness itself
    return {"arch": reset["arch"], "opt": reset["opt"], "ops": ops}


def shard(recs, k):
    execs = vlib.split_executions(recs)
    execs.sort(key=lambda e: -sum(len(json.dumps(r)) for r in e))
    shards = [[] for _ in range(k)]
    weight = [0] * k
    for e in execs:
        i = weight.index(min(weight))
        shards[i].append(e)
        weight[i] += sum(len(r.get("img", [])) + len(r.get("app", [])) + 40 for r in e) + max([len(r.get("app", [])) for r in e] + [0]) * 8
    return [[r for e in s for r in e] for s in shards if s]


def validate(ctx, tag, path, nshards):
    recs = vlib.read_ndjson(path)
    n_ev = sum(1 for r in recs if r.get("e") not in ("Reset",))
    for rec in recs:
        e = rec.get("e")
        if e in ("Reset", "Images", "NewLabel", "ABORT"):
            continue
        key = (e, rec.get("r"), rec.get("mode"), ev_alignment(rec) if e == "Align" else None, rec.get("tid"), rec.get("sz"),
               rec.get("via"), len(rec.get("app", [])) if e in ("Align", "EmbedLabel", "EmbedLabelDelta") else min(len(rec.get("app", [])), 1))
        ctx.distinct.add(key)
    parts = shard(recs, nshards)
    rejected = []

    def one(i):
        p = ctx.path(f"{tag}_shard{i}.ndjson")
        vlib.write_ndjson(p, parts[i])
        return vlib.validate_executions(ctx, MOD_T, CFG_T, p, tag=f"{tag}{i}", timeout=2400, heap="5g")
    with ThreadPoolExecutor(max_workers=min(6, len(parts) or 1)) as ex:
        for rej in ex.map(one, range(len(parts))):
            rejected += rej
    for x in rejected:
        recs_x = x["records"]
        idx = x["index"]
        bad = recs_x[idx] if idx < len(recs_x) else {"e": "END"}
        key = describe(bad, recs_x[0])
        msg = f"{tag}: execution rejected at event {idx} ({key}): {json.dumps(bad)[:400]}"
        if key in ctx.known:
            ctx.known_finding(key, ctx.known[key])
        else:
            ctx.violation(msg, x["path"])
    ok_execs = [e for e in vlib.split_executions(recs)]
    if ok_execs:
        ctx.add_sample({"source": tag, "events": [{k: v for k, v in r.items() if k not in ("img",)} for r in ok_execs[len(ok_execs) // 2][2:5]]})
    return n_ev


def selftest_trace_spec(ctx, trace_path):
    """the trace spec must not be vacuous: one corrupted byte / one deleted call is rejected at that line"""
    import copy
    execs = vlib.split_executions(vlib.read_ndjson(trace_path))
    pick = next((e for e in execs if sum(1 for r in e if r.get("e") in ("Embed", "Align") and r.get("app") and r.get("r") == "Ok") >= 2), None)
    if pick is None:
        raise Broken("self-test: no execution with two emitting calls")
    idx = [i for i, r in enumerate(pick) if r.get("e") in ("Embed", "Align") and r.get("app") and r.get("r") == "Ok"]
    c1 = copy.deepcopy(pick)
    c1[idx[-1]]["app"][0] ^= 0x21
    c2 = copy.deepcopy(pick)
    del c2[idx[0]]
    c3 = copy.deepcopy(pick)
    j = next((i for i, r in enumerate(c3) if i > idx[0] and r.get("img")), None)
    cases = [("byte", c1, idx[-1] + 1), ("deleted", c2, idx[0] + 1)]
    if j is not None:
        c3[j]["img"][0] ^= 0x40         # a byte outside the window of that call
        c3[j].pop("dig", None)
        cases.append(("prefix", c3, j + 1))
    for name, recs, line in cases:
        p = ctx.path(f"selftest_{name}.ndjson")
        vlib.write_ndjson(p, recs)
        ok, maxl, r = vlib.validate_trace_file(ctx, MOD_T, CFG_T, p, tag=f"selftest_{name}")
        if ok or maxl != line:
            raise Broken(f"self-test '{name}': corrupted trace not rejected at line {line} (accepted={ok}, line={maxl})")
    ctx.log(f"trace spec self-test: {len(cases)} corrupted traces rejected at the corrupted line")


def run(ctx):
    q = ctx.quick
    bdir = ctx.build("asan", "dataemit")
    behs, sims = design(ctx)
    # model behaviours -> scripts
    import random
    rng = random.Random(ctx.seed)
    uniq = {json.dumps(b, sort_keys=True) for b in behs}
    behs = [json.loads(b) for b in sorted(uniq)]
    n_exh = len(behs)
    cap = 1500 if q else 12000
    if len(behs) > cap:
        behs = rng.sample(behs, cap)
    ctx.log(f"{n_exh} distinct exhaustive model behaviours (depth 3, {len(behs)} replayed) + {len(sims)} simulated long behaviours exported")
    if n_exh < 1000 or len(sims) < 100:
        raise Broken(f"behaviour export too small: {n_exh} / {len(sims)}")
    sp = ctx.path("scripts.ndjson")
    vlib.write_ndjson(sp, behs + sims)
    tr_s = ctx.path("trace_scripts.ndjson")
    vlib.record_trace(ctx, bdir, "dataemit", ["script", sp, tr_s], tr_s, timeout=900, env={"VERIF_SEED": ctx.seed})
    tr_r = ctx.path("trace_random.ndjson")
    nexec, steps, ngrow = (400, 40, 6) if q else (15000, 60, 120)
    vlib.record_trace(ctx, bdir, "dataemit", ["random", tr_r, nexec, steps, ngrow], tr_r, timeout=1200, env={"VERIF_SEED": ctx.seed})
    tr_w = ctx.path("trace_sweep.ndjson")
    vlib.record_trace(ctx, bdir, "dataemit", ["sweep", tr_w, 1 if q else 2], tr_w, timeout=900, env={"VERIF_SEED": ctx.seed})
    selftest_trace_spec(ctx, tr_w)          # the sweep has no placeholders: every byte is compared
    total = 0
    with ThreadPoolExecutor(max_workers=3) as ex:
        fs = [ex.submit(validate, ctx, tag, path, k) for tag, path, k in
              (("scripts", tr_s, 2 if q else 4), ("random", tr_r, 3 if q else 12), ("sweep", tr_w, 3 if q else 4))]
        for f in fs:
            total += f.result()
    ctx.evaluations = total
    ctx.assumptions += [
        "harness projection: offset(), buffer_data(), buffer_capacity(), remaining_space(), Section::buffer(), CodeHolder label / relocation / fixup queries; appended bytes = buffer_data()[old offset, new offset) read after the call",
        "allocation never fails in this check (growable buffers always grow; failure is C15); embed_data_array calls that would really allocate more than 1 MiB are not executed",
        "the value stored by embed_label / embed_label_delta (placeholder positions) is not compared after emission (C03/C04); the encoding of instructions is C01/C02's",
        "fixed buffers are installed the way a user does it: external memory + CodeBufferFlags::kIsExternal|kIsFixed set on Section::buffer()",
        "ConstPool::alignment()/fill() are taken as given (C19)",
        "ASan/UBSan build is the environment; an abort truncates the trace and the ABORT line is rejected",
    ]
    vlib.write_evidence(ctx, "model_checking",
        rule="evaluations = public calls executed on the real assemblers and validated by TLC as contract steps; distinct = distinct "
             "(call, result, mode, alignment, type id, size, helper, appended-length class) outcomes observed; histories = all model "
             "behaviours of depth 3 over the MC argument sets (sampled above the cap) + TLC-simulated behaviours of depth 12-14 + "
             "seeded random programs + alignment sweep (every gap of every valid alignment x mode x arch x option)",
        trusted_base=["TLC 1.8.0", "spec/code/DataEmit.tla (contract)", "harness/dataemit.cpp projection",
                      "llvm-mc-14 / objdump (NOP table of the spec only)"])


def replay(ctx, path):
    recs = vlib.read_ndjson(path)
    if not recs or recs[0].get("e") != "Reset":
        raise Broken("replay file does not start with a Reset event")
    bdir = ctx.build("asan", "dataemit")
    sp, tr = ctx.path("replay_script.ndjson"), ctx.path("replay_trace.ndjson")
    vlib.write_ndjson(sp, [events_to_script(recs)])
    vlib.record_trace(ctx, bdir, "dataemit", ["script", sp, tr], tr, timeout=300)
    ok, maxl, r = vlib.validate_trace_file(ctx, MOD_T, CFG_T, tr)
    if not ok:
        new = vlib.read_ndjson(tr)
        bad = new[maxl - 1] if maxl - 1 < len(new) else {"e": "END"}
        ctx.violation(f"replay rejected at line {maxl} ({describe(bad, new[0])}): {json.dumps(bad)[:400]}", tr)
