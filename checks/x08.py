"""X08 - emitter state machine: the OBSERVABLE BEHAVIOUR OF SETTINGS.

Options (diagnostic / encoding), logger and error-handler inheritance between CodeHolder and emitters, the one-shot
instruction state (options, extra register, inline comment) and the fast / slow _emit() path selection behave as the
headers document.

Decided by
 (1) TLC on spec/emit/EmitterStateImpl.tla (the algorithm of emitter.cpp / codeholder.cpp / the _emit() prologues
     transcribed: cached _logger / _error_handler pointers, the flags kOwnLogger / kOwnErrorHandler / kLogComments, the
     kReserved bit of _forced_inst_options): every step is a step of the contract spec/emit/EmitterState.tla (Refines),
     ForcedExact / CachedPointersExact / LogCommentsExact hold, every action is taken (-coverage), and each transcription
     slip (negative controls, among them the seeded swap of kValidateAssembler / kValidateIntermediate in
     BaseEmitter_updateForcedOptions) is rejected BY THE CONTRACT;
 (2) trace validation: harness/emitstate.cpp drives a real CodeHolder with x86::Assembler / x86::Builder / x86::Compiler
     on x86-64 and x86-32 (or a64::Assembler), two StringLoggers and three ErrorHandlers (two recording, one throwing) through the histories
     exported from the model (the shortest history to every distinct model state, simulated long ones) and seeded random
     histories, and records after each call: result, handler notifications (which handler, which code, origin, one-shot
     state at that time), exception, lines appended to EACH logger, validator invocations, the effect of the pending
     one-shot state on the instruction (prefix bytes / EVEX mask / node fields / comment in the logged line), logged
     indentation, and the projection of all objects through the public getters.  EmitterStateTrace.tla accepts an
     execution iff every call is a contract step.
ASan+UBSan build = environment (emitters are destroyed while attached, handlers throw through the library)."""
import concurrent.futures, json, os, re
import vlib
from vlib import Broken

SPEC = os.path.join(vlib.VERIF, "spec", "emit")
MC = os.path.join(SPEC, "EmitterStateMC.tla")
IMPL = os.path.join(SPEC, "EmitterStateImpl.tla")
TMOD = os.path.join(SPEC, "EmitterStateTrace.tla")

KEH = "finalize:own-error-handler-bypassed"
KLG = "finalize:own-logger-bypassed"
KARR = "emit_op_array:more-than-6-operands:unreported"
KEYS = {
    KEH: "x86/a64 Builder|Compiler::finalize(): an error of the serialising Assembler is told to the CodeHolder's handler only; "
         "an emitter with its OWN ErrorHandler (documented to have priority) is not told - with no holder-level handler finalize() "
         "returns the error without any handler being called",
    KLG: "x86/a64 Builder|Compiler::finalize(): the serialising Assembler logs to the CodeHolder's logger only; the emitter's OWN "
         "logger (documented to override the holder's) receives nothing",
    KARR: "BaseEmitter::emit_op_array(id, ops, op_count > 6) returns kInvalidArgument without telling the ErrorHandler in effect and without "
          "consuming the pending one-shot state (options / extra register / inline comment leak into the next instruction)",
}
# minimal histories that show the findings
REPRO = {
    KEH: {"arch": "x64", "kinds": ["bld"], "ops": [["Init"], ["Attach", 1], ["ESetHandler", 1, 1], ["Emit", 1, "B", False], ["Finalize", 1, False]]},
    KLG: {"arch": "x64", "kinds": ["cmp"], "ops": [["Init"], ["Attach", 1], ["ESetLogger", 1, 1], ["HSetLogger", 2], ["Emit", 1, "G", False], ["Finalize", 1, False]]},
    KARR: {"arch": "x64", "kinds": ["asm"], "ops": [["Init"], ["Attach", 1], ["HSetHandler", 1], ["Helper", 1, "lock"], ["EmitN", 1]]},
}

ACTIONS = ["Init", "ResetH", "Reinit", "Attach", "Detach", "HSetLogger", "HSetHandler", "ESetLogger", "ESetHandler", "AddDiag",
           "ClearDiag", "AddEnc", "ClearEnc", "Helper", "SetCm", "ResetStateOp", "Recreate", "EmitAsm", "EmitBld", "EmitN", "Comment", "Bind",
           "ReportOp", "Finalize"]
BUGS = ["swapdiag", "nofallback", "overrideown", "stalelogger", "keepstate", "ehpropagate", "forcedstale", "dblreport"]


def mc_cfg(ctx, name, kinds="KindsA", loggers="{1, 2}", handlers="{1, 3}", classes='{"G", "V", "B", "Z"}', maxops=14, maxnodes=0,
           bug="none", fix="FALSE", helpers='{"lock", "k"}', enc='{"size"}', diag='{"va", "vi"}', misc='{"C", "F", "L"}', cm="TRUE",
           known="KnownAll", emitn="TRUE", inv="Refines ContractType ForcedExact CachedPointersExact LogCommentsExact", view=True):
    p = ctx.path(name + ".cfg")
    open(p, "w").write(f"""SPECIFICATION Spec
CONSTANTS
  Kinds <- {kinds}
  Arch = "x64"
  Loggers = {loggers}
  Handlers = {handlers}
  Classes = {classes}
  MaxOps = {maxops}
  MaxNodes = {maxnodes}
  Bug = "{bug}"
  FixFinalize = {fix}
  UseEmitN = {emitn}
  Helpers = {helpers}
  EncOpts = {enc}
  DiagOpts = {diag}
  MiscKinds = {misc}
  UseCm = {cm}
  Known {"=" if known.startswith("{") else "<-"} {known}
INVARIANTS {inv}
{"VIEW View" if view else ""}
""")
    return p


def action_coverage(out):
    """-> {operator name: generated count}: TLC -coverage names sub-actions by source position; map the position to the
    operator of EmitterStateImpl.tla whose definition contains it."""
    src = open(IMPL).read().splitlines()
    defs = []                                   # (first line, name)
    for n, ln in enumerate(src, 1):
        m = re.match(r"^([A-Za-z]\w*)(\([^)]*\))? ==", ln)
        if m:
            defs.append((n, m.group(1)))
    def owner(line):
        name = None
        for n, d in defs:
            if n <= line:
                name = d
        return name
    res = {}
    for m in re.finditer(r"^<(\w+) line (\d+), col \d+ to line \d+, col \d+ of module EmitterStateImpl(?: \((\d+) \d+ \d+ \d+\))?>: (\d+):(\d+)", out, re.M):
        line = int(m.group(3) or m.group(2))
        name = owner(line)
        if name in ("Next",):        # a disjunct written inline in Next: attribute it to the operator it calls
            txt = src[line - 1]
            mm = re.search(r"\b(Bind|Comment|SetCm|Helper|AddEnc|ClearEnc|EmitN)\(", txt)
            name = mm.group(1) if mm else name
        if name == "Emit":           # Emit(i, c, g) dispatches on the kind
            name = "Emit"
        res[name] = res.get(name, 0) + int(m.group(5))
    return res


# ---------------------------------------------------------------------------------------------------------------------
def design(ctx):
    q = ctx.quick
    runs = [  # tag, cfg kwargs, coverage?
        ("asm", dict(kinds="KindsA", maxops=16), True),
        ("bld", dict(kinds="KindsB", classes='{"G", "V", "B"}', maxnodes=2, helpers='{"lock"}', enc="{}", misc='{"C"}', cm="FALSE", maxops=16), False),
        ("asm_bld", dict(kinds="KindsAB", loggers="{1}", handlers="{1}", classes='{"V"}', maxnodes=1, helpers="{}", enc="{}", misc='{"C"}', cm="FALSE",
                         maxops=14), True),
    ]
    if not q:
        runs += [
            ("bld_full", dict(kinds="KindsB", handlers="{1, 3}", classes='{"G", "V", "B"}', maxnodes=3, helpers='{"lock", "k"}', enc="{}",
                              misc='{"C", "F", "L"}', cm="TRUE", maxops=18), False),
            ("asm_bld_cmp", dict(kinds="KindsABC", loggers="{1}", handlers="{3}", classes='{"V"}', maxnodes=1, helpers="{}", enc="{}", misc="{}",
                                 cm="FALSE", diag='{"va", "vi"}', maxops=14), False),
            ("asm3h", dict(kinds="KindsA", handlers="{1, 2, 3}", maxops=18), False),
        ]
    negs = [(b, dict(kinds="KindsAB" if b in ("dblreport",) else "KindsA", bug=b, maxops=10, helpers='{"lock"}', enc="{}", misc='{"C"}',
                     maxnodes=1, inv="Refines")) for b in BUGS]
    # the finalize() routing of the pinned tree is itself refused by the contract (the finding) unless its keys are known,
    # and the proposed repair satisfies it
    negs.append(("finalize_head", dict(kinds="KindsB", classes='{"G", "B"}', maxnodes=1, helpers="{}", enc="{}", misc="{}", cm="FALSE", maxops=10,
                                       known="{}", emitn="FALSE", inv="Refines")))
    negs.append(("emit_op_array_head", dict(kinds="KindsA", classes='{"G"}', helpers='{"lock"}', enc="{}", misc="{}", cm="FALSE", maxops=8,
                                            known="KnownFin", inv="Refines")))
    fixrun = ("finalize_fixed", dict(kinds="KindsB", classes='{"G", "V", "B"}', maxnodes=2, helpers="{}", enc="{}", misc='{"C"}', cm="FALSE", maxops=14,
                                     known="{}", fix="TRUE"), False)
    cov = {}
    states = {}
    with concurrent.futures.ThreadPoolExecutor(max_workers=6) as ex:
        fd = {tag: ex.submit(vlib.run_tlc, ctx, MC, mc_cfg(ctx, "mc_" + tag, **kw), workers=4, timeout=2400, heap="4g", tag="mc_" + tag, coverage=c)
              for tag, kw, c in runs + [fixrun]}
        fn = {tag: ex.submit(vlib.run_tlc, ctx, MC, mc_cfg(ctx, "neg_" + tag, **kw), workers=2, timeout=900, tag="neg_" + tag) for tag, kw in negs}
        for tag, kw, c in runs + [fixrun]:
            r = fd[tag].result()
            vlib.tlc_must_ok(ctx, r, f"design {tag} (EmitterStateImpl => EmitterState)")
            states[tag] = r.distinct
            if c:
                for a, n in action_coverage(r.out).items():
                    cov[a] = cov.get(a, 0) + n
        for tag, kw in negs:
            r = fn[tag].result()
            if r.kind != "violation" or r.violated != "Refines":
                raise Broken(f"negative control '{tag}' was not rejected by the contract (kind={r.kind} violated={r.violated})\n" + r.out[-800:])
    cov["EmitAsm"] = cov.get("EmitAsm", 0) + cov.get("Emit", 0)     # Emit() dispatches; its branches are reported under Emit
    cov["EmitBld"] = cov.get("EmitBld", 0) + cov.get("Emit", 0)
    never = [a for a in ACTIONS if cov.get(a, 0) == 0]
    if never:
        raise Broken(f"coverage: actions never taken: {never} (seen {sorted(cov)})")
    ctx.extra["design_states"] = states
    ctx.extra["negative_controls"] = [t for t, _ in negs]
    ctx.log(f"design: {states} distinct states; Refines + ForcedExact + CachedPointersExact + LogCommentsExact hold; all {len(ACTIONS)} actions taken; "
            f"{len(negs)} negative controls rejected by the contract; finalize() repair satisfies the contract without known keys")


# ---------------------------------------------------------------------------------------------------------------------
def export(ctx):
    """shortest history to every distinct model state (exhaustive, small domains) + simulated long histories"""
    q = ctx.quick
    items = [
        ("xa", dict(kinds="KindsA", loggers="{1, 2}" if not q else "{1}", handlers="{1, 3}", maxops=12, inv="ExportInv"), ["asm"]),
        ("xb", dict(kinds="KindsB", loggers="{1}", handlers="{3}" if q else "{1, 3}", classes='{"G", "V", "B"}', maxnodes=2, helpers='{"lock"}', enc="{}",
                    misc='{"C"}', cm="FALSE", maxops=12, inv="ExportInv"), ["bld"]),
        ("xab", dict(kinds="KindsAB", loggers="{1}", handlers="{1}", classes='{"V"}', maxnodes=1, helpers="{}", enc="{}", misc="{}", cm="FALSE",
                     diag='{"va"}' if q else '{"va", "vi"}', maxops=12, inv="ExportInv"), ["asm", "bld"]),
    ]
    sims = [("sim_abc", dict(kinds="KindsABC", handlers="{1, 2, 3}", maxops=40 if q else 60, maxnodes=6, inv="ExportEnd", view=False), ["asm", "bld", "cmp"],
             60 if q else 1500),
            ("sim_a", dict(kinds="KindsA", handlers="{1, 2, 3}", maxops=40 if q else 60, inv="ExportEnd", view=False), ["asm"], 40 if q else 800)]
    scripts = []
    with concurrent.futures.ThreadPoolExecutor(max_workers=5) as ex:
        fx = {tag: ex.submit(vlib.run_tlc, ctx, MC, mc_cfg(ctx, tag, **kw), workers=1, timeout=1800, heap="4g", tag=tag) for tag, kw, kinds in items}
        fs = {tag: ex.submit(vlib.run_tlc, ctx, MC, mc_cfg(ctx, tag, **kw), workers=2, timeout=1800, heap="4g", tag=tag, simulate=n,
                             depth=kw["maxops"] + 1, seed=ctx.seed) for tag, kw, kinds, n in sims}
        for tag, kw, kinds in items:
            r = fx[tag].result()
            vlib.tlc_must_ok(ctx, r, f"behaviour export {tag}")
            hs = vlib.parse_beh(r.out)
            # a history that is a proper prefix of another exported history is replayed as part of it
            keys = sorted(json.dumps(h)[:-1] for h in hs)
            keep = [k for n, k in enumerate(keys) if not (n + 1 < len(keys) and keys[n + 1].startswith(k + ","))]
            hs2 = [json.loads(k + "]") for k in keep]
            ctx.log(f"export {tag}: {r.distinct} model states, {len(hs)} histories, {len(hs2)} maximal")
            scripts += script_variants(hs2, kinds)
        for tag, kw, kinds, n in sims:
            r = fs[tag].result()
            if r.kind != "ok":
                raise Broken(f"simulation export {tag} failed: kind={r.kind}\n" + r.out[-800:])
            hs = vlib.parse_beh(r.out)
            ctx.log(f"export {tag}: {len(hs)} simulated histories of {kw['maxops']} calls")
            scripts += script_variants(hs, kinds)
    return scripts


def script_variants(hists, kinds):
    """model histories are kind-generic: an Assembler history runs on x86-64 and AArch64, a Builder history on Builder and Compiler"""
    res = []
    for n, h in enumerate(hists):
        ops = [fix_op(o) for o in h]
        if kinds == ["asm"]:
            res.append({"arch": "x64", "kinds": ["asm"], "ops": ops})
            if n % 2 == 0:
                res.append({"arch": "a64", "kinds": ["asm"], "ops": ops})
            if n % 4 == 1:
                res.append({"arch": "x86", "kinds": ["asm"], "ops": ops})
        elif kinds == ["bld"]:
            res.append({"arch": "x86" if n % 5 == 0 else "x64", "kinds": ["bld" if n % 2 else "cmp"], "ops": ops})
        elif kinds == ["asm", "bld"]:
            res.append({"arch": "x64", "kinds": ["asm", "cmp" if n % 3 == 0 else "bld"], "ops": ops})
        else:
            res.append({"arch": "x64", "kinds": kinds, "ops": ops})
    return res


def fix_op(o):
    # the model's Emit carries the `grow` input; Finalize gets one from the position
    return list(o)


# ---------------------------------------------------------------------------------------------------------------------
def trace_cfg(ctx, name, known):
    p = ctx.path(name + ".cfg")
    ks = ", ".join('"%s"' % k for k in sorted(known))
    open(p, "w").write("SPECIFICATION TSpec\nCONSTANTS\n  Known = {%s}\nINVARIANT StateOK\nCONSTRAINT Progress\nPOSTCONDITION TraceAccepted\n" % ks)
    return p


def describe(x):
    recs, i = x["records"], x["index"]
    ev = recs[i] if i < len(recs) else {"e": "END"}
    hdr = recs[0] if recs and recs[0].get("e") == "Reset" else {}
    small = {k: v for k, v in ev.items() if k != "P"}
    return f"{hdr.get('arch')} {hdr.get('kinds')} call #{i}: {json.dumps(small)[:420]}"


def signature(x):
    recs, i = x["records"], x["index"]
    ev = recs[i] if i < len(recs) else {"e": "END"}
    return ev.get("e", "?")


def validate_shards(ctx, bdir, shards, known):
    """shards: list of (tag, trace path).  -> list of rejected executions"""
    cfg = trace_cfg(ctx, "trace", known)
    rej = []
    with concurrent.futures.ThreadPoolExecutor(max_workers=6) as ex:
        fs = [ex.submit(vlib.validate_executions, ctx, TMOD, cfg, path, tag=tag, timeout=2400, heap="4g", max_rejects=4) for tag, path in shards]
        for f in fs:
            rej += f.result()
    return rej


def run(ctx):
    q = ctx.quick
    bdir = ctx.build("asan", "emitstate")
    known = {k for k in KEYS if k in ctx.known}
    with concurrent.futures.ThreadPoolExecutor(max_workers=2) as ex:
        fdesign = ex.submit(design, ctx)
        fexport = ex.submit(export, ctx)
        fdesign.result()
        scripts = fexport.result()
    # ---- record: model histories ----
    nsh = 4 if q else 8
    shards = []
    for k in range(nsh):
        part = scripts[k::nsh]
        sp, tp = ctx.path(f"scripts_{k}.ndjson"), ctx.path(f"trace_scripts_{k}.ndjson")
        vlib.write_ndjson(sp, part)
        shards.append((f"scripts{k}", sp, tp, ["script", sp, tp]))
    nrand = 4 if q else 10
    nexec, steps = (220, 90) if q else (1200, 130)
    for k in range(nrand):
        tp = ctx.path(f"trace_random_{k}.ndjson")
        shards.append((f"random{k}", None, tp, ["random", tp, nexec, steps]))
    with concurrent.futures.ThreadPoolExecutor(max_workers=6) as ex:
        fs = [ex.submit(vlib.record_trace, ctx, bdir, "emitstate", args, tp, 1800, {"VERIF_SEED": ctx.seed * 1000 + n})
              for n, (tag, sp, tp, args) in enumerate(shards)]
        for f in fs:
            f.result()
    ctx.log(f"recorded {len(scripts)} model histories and {nrand * nexec} random histories on the real code")
    # ---- statistics: what the histories exercised ----
    stats = {}
    nev = 0
    for tag, sp, tp, args in shards:
        kinds = []
        for rec in vlib.read_ndjson(tp):
            nev += 1
            e = rec.get("e")
            if e == "Reset":
                kinds = rec["kinds"]; arch = rec["arch"]; prev = None
                continue
            if e == "Emit":
                k = kinds[rec["em"] - 1]
                pe = prev["em"][rec["em"] - 1] if prev else {"att": False, "fr": 1, "lg": 0, "eh": 0}
                key = ("emit", arch, k, rec["cls"], rec["r"], rec["vc"], sum(rec["ln"]) > 0, pe["fr"], pe["att"], rec.get("g", False), tuple(rec["ap"]))
                ctx.distinct.add(key)
                stats["emit"] = stats.get("emit", 0) + 1
                if not pe["fr"]:
                    stats["emit_fast_path"] = stats.get("emit_fast_path", 0) + 1
                if rec["vc"]:
                    stats["emit_validated"] = stats.get("emit_validated", 0) + 1
                if sum(rec["ln"]):
                    stats["emit_logged"] = stats.get("emit_logged", 0) + 1
            elif e in ("Finalize", "Misc", "Report"):
                k = kinds[rec["em"] - 1]
                ctx.distinct.add((e, arch, k, rec.get("k"), rec["r"], len(rec["hc"]), tuple(x > 0 for x in rec["ln"])))
                stats[e.lower()] = stats.get(e.lower(), 0) + 1
            elif e != "ABORT":
                ctx.distinct.add((e, rec["r"]))
            if rec.get("hc"):
                stats["handler_notifications"] = stats.get("handler_notifications", 0) + len(rec["hc"])
            if rec.get("th"):
                stats["exceptions"] = stats.get("exceptions", 0) + 1
            if "P" in rec:
                prev = rec["P"]
    ctx.evaluations = nev
    ctx.extra["calls"] = stats
    ctx.log(f"{nev} events; {stats}")
    # ---- validate ----
    rej = validate_shards(ctx, bdir, [(tag, tp) for tag, sp, tp, args in shards], known)
    for x in rej:
        ctx.violation(f"trace rejected: {describe(x)}", x["path"])
    for tag, sp, tp, args in shards[:2]:
        recs = vlib.read_ndjson(tp)
        ctx.add_sample({"source": tag, "events": [{k: v for k, v in r.items() if k != "P"} for r in recs[1:5]]})
    # ---- the trace machinery rejects a tampered trace (the validation is not vacuous) ----
    tamper(ctx, [tp for tag, sp, tp, args in reversed(shards)], known)
    # ---- known findings: re-execute the minimal history of each key without any relaxation ----
    for key, script in REPRO.items():
        sp, tp = ctx.path(f"repro_{key.split(':')[1]}.ndjson"), ctx.path(f"repro_{key.split(':')[1]}_trace.ndjson")
        vlib.write_ndjson(sp, [script])
        vlib.record_trace(ctx, bdir, "emitstate", ["script", sp, tp], tp, timeout=120)
        ok, maxl, r = vlib.validate_trace_file(ctx, TMOD, trace_cfg(ctx, "trace_strict", set()), tp, timeout=300, tag="repro")
        if ok:
            ctx.log(f"finding {key}: not reproduced on this tree (repaired)")
        elif key in ctx.known:
            ctx.known_finding(key, KEYS[key])
        else:
            ctx.violation(f"{key}: {KEYS[key]} (rejected at line {maxl})", tp)
    ctx.assumptions += [
        "request classes (G accepted by validator and encoder, V refused by the validator only, B refused by everybody) are chosen by the harness per "
        "pending one-shot state; whether an instruction is valid is C13/C01's subject, not this check's",
        "AArch64 has no operand validator: the refusal path is driven by a harness wrapper installed in BaseEmitter::_funcs.validate (it also counts "
        "validator invocations on every emitter); the serialising assembler of finalize() cannot be wrapped and is judged by its result",
        "text of logged lines is C20's subject: only the number of lines per logger, indentation, padding column and the presence of the comment are judged",
        "ASan/UBSan build is the environment; an abort truncates the trace and the ABORT line is rejected",
    ]
    vlib.write_evidence(ctx, "model_checking",
        rule="events = API calls executed on real CodeHolder/emitters/loggers/handlers, each with its outputs and the projection of every object; "
             "distinct = distinct (call, architecture, emitter kind, request class, result, validated?, logged?, fast-path?, attached?, growth?, one-shot effect) "
             "combinations; histories = shortest history to every distinct state of three model configurations + TLC-simulated long histories + seeded "
             "random histories",
        trusted_base=["TLC 1.8.0", "spec/emit/EmitterState.tla (contract)", "harness/emitstate.cpp (projection through public getters, line counting, "
                      "prefix-byte / node-field decoding of the one-shot effect, validator wrapper)"])


def tamper(ctx, trace_paths, known):
    """one corrupted field and one deleted line must be rejected"""
    execs = []
    for tp in trace_paths:
        execs = [e for e in vlib.split_executions(vlib.read_ndjson(tp)) if len(e) < 400]
        if any(r.get("e") == "Emit" and r.get("r") == "Ok" and sum(r["ln"]) == 1 for e in execs for r in e[:-1]):
            break
    done = 0
    for e in execs:
        idx = [i for i, r in enumerate(e) if r.get("e") == "Emit" and r.get("r") == "Ok" and sum(r["ln"]) == 1 and i + 1 < len(e)]
        if not idx:
            continue
        i = idx[0]
        a = json.loads(json.dumps(e))
        a[i]["ln"] = [a[i]["ln"][1], a[i]["ln"][0]]                 # the line went to the other logger
        b = e[:i] + e[i + 1:]                                        # the emit never happened: its projection is missing
        for tag, t in (("swap", a), ("drop", b)):
            p = ctx.path(f"tamper_{tag}.ndjson")
            vlib.write_ndjson(p, t)
            ok, maxl, r = vlib.validate_trace_file(ctx, TMOD, trace_cfg(ctx, "trace_t", known), p, timeout=300, tag="tamper")
            if ok and tag == "swap":
                raise Broken(f"tampered trace ({tag}) was accepted: trace validation is vacuous")
        done = 1
        break
    if not done:
        raise Broken("no logged instruction found to tamper with")
    ctx.log("tampered traces (line attributed to the other logger) rejected as required")


def replay(ctx, path):
    """re-execute the recorded calls of one execution on the current tree and validate"""
    recs = vlib.read_ndjson(path)
    hdr = recs[0]
    ops = [r["op"] for r in recs[1:] if "op" in r]
    bdir = ctx.build("asan", "emitstate")
    sp, tp = ctx.path("replay_script.ndjson"), ctx.path("replay_trace.ndjson")
    vlib.write_ndjson(sp, [{"arch": hdr.get("arch", "x64"), "kinds": hdr.get("kinds", ["asm"]), "ops": ops}])
    vlib.record_trace(ctx, bdir, "emitstate", ["script", sp, tp], tp, timeout=300)
    known = {k for k in KEYS if k in ctx.known}
    ok, maxl, r = vlib.validate_trace_file(ctx, TMOD, trace_cfg(ctx, "trace_replay", known), tp, timeout=600)
    if not ok:
        rr = vlib.read_ndjson(tp)
        ev = rr[maxl - 1] if maxl - 1 < len(rr) else {"e": "END"}
        ctx.violation(f"replay rejected at line {maxl}: {json.dumps({k: v for k, v in ev.items() if k != 'P'})[:400]}", tp)
