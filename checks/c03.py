"""C03 - every label reference resolves to the bound position (see coderef_common)."""
import coderef_common
def run(ctx): coderef_common.run(ctx, "C03")
def replay(ctx, path): coderef_common.replay(ctx, path)
