"""C14 - invalid input is rejected with an error and leaves emitter state untouched.

Decided by: (1) EmitContractMC.tla - a small emitter+holder design model refines the contract EmitContract!Call on all
histories up to MaxCalls (TLC, exhaustive) and two negative controls (bytes/reloc committed before the failing check;
handler told twice) are rejected; (2) trace validation: harness/emitfuzz.cpp drives real x86-32/x86-64/AArch64
Assemblers, Builders and Compilers with arbitrary / perturbed calls and EmitContractTrace.tla accepts a recorded
execution iff every call is a step of the contract (Err => projection unchanged, one-shot state cleared, handler told
exactly once with the returned code, exception propagated; FreshEquivalent probes).  ASan+UBSan is the environment: a
report ends the process, the ABORT line is not an event of the contract and the execution is rejected."""
import concurrent.futures, collections, json, os, re, subprocess
import vlib
from vlib import Broken

SPEC = os.path.join(vlib.VERIF, "spec", "code")
MOD, CFG = os.path.join(SPEC, "EmitContractTrace.tla"), os.path.join(SPEC, "EmitContractTrace.cfg")
MCMOD = os.path.join(SPEC, "EmitContractMC.tla")
ASAN = "detect_leaks=1:abort_on_error=0:exitcode=66:allocator_may_return_null=1"
UBSAN = "print_stacktrace=1:halt_on_error=1:exitcode=66"


# ---------------------------------------------------------------------------------------------------------------
def design(ctx):
    def cfg(name, commit, double, maxcalls):
        p = ctx.path(name)
        inv = "INVARIANTS TypeOK ErrLeavesNothing\n" if commit == "FALSE" and double == "FALSE" else ""
        open(p, "w").write("SPECIFICATION Spec\nCONSTANTS\n  MaxCalls = %d\n  CommitBeforeCheck = %s\n  DoubleReport = %s\n"
                           "%sPROPERTY RefinesContract\n" % (maxcalls, commit, double, inv))
        return p
    r = vlib.run_tlc(ctx, MCMOD, cfg("mc.cfg", "FALSE", "FALSE", 4 if ctx.quick else 5), workers=8, timeout=1500, tag="design")
    vlib.tlc_must_ok(ctx, r, "design (emitter model => EmitContract)")
    ctx.extra["design_states"] = r.distinct
    ctx.log(f"design: {r.distinct} distinct states, every step is a contract step")
    for name, c, d in (("neg_commit.cfg", "TRUE", "FALSE"), ("neg_double.cfg", "FALSE", "TRUE")):
        r = vlib.run_tlc(ctx, MCMOD, cfg(name, c, d, 3), workers=4, timeout=600, tag=name[:-4])
        if r.kind != "violation" or r.violated != "RefinesContract":
            raise Broken(f"negative control {name} was not rejected by the contract (kind={r.kind} {r.violated})")
    ctx.log("design: negative controls (commit before check, double report) rejected")


# ---------------------------------------------------------------------------------------------------------------
def sanitizer_key(err):
    """stable signature of a sanitizer report: kind + first asmjit source location outside the generic helpers
    (asmjit/support/*); the location is the file plus a digest of the source line (line numbers move with every edit),
    or the function name when the frame carries no line."""
    lines = (err or "").splitlines()
    kind = "crash"
    for ln in lines:
        m = re.search(r"ERROR: AddressSanitizer: (\S+)", ln)
        if m:
            kind = m.group(1); break
        m = re.search(r"runtime error: ([a-z -]+?)(?= of type| -?\d|:|'|$)", ln)
        if m:
            kind = m.group(1).strip().replace(" ", "-"); break
        if "LeakSanitizer" in ln:
            kind = "leak"; break
    loc = "?"
    for ln in lines:
        m = re.search(r"(asmjit/[a-z0-9_/]+\.(?:cpp|h))(?::(\d+))?", ln)
        if not m or "asmjit-testing" in ln:
            continue
        path, line = m.group(1), m.group(2)
        here = None
        if line:
            try:
                src = open(os.path.join(os.environ.get("VERIF_REPO", "/repo"), path), errors="replace").read().splitlines()[int(line) - 1]
                here = f"{path}#{vlib.hashlib.sha1(' '.join(src.split()).encode()).hexdigest()[:8]}"
            except Exception:
                here = f"{path}:{line}"
        else:
            fm = re.search(r" in (?:asmjit::v1_21::)?([\w:~]+)", ln)
            here = f"{path}@{fm.group(1) if fm else '?'}"
        if path.startswith("asmjit/support/"):      # bit helpers, Span, bit vectors: keep looking for the caller
            if loc == "?":
                loc = here
            continue
        loc = here
        break
    return f"ub:{kind}:{loc}"


def record_shard(ctx, bdir, sh):
    """Run one shard; on a sanitizer abort note the report and resume with the next execution."""
    arch, em, mode, nexec, calls, base = sh["arch"], sh["em"], sh["mode"], sh["nexec"], sh["calls"], sh["base"]
    parts, first, aborts = [], 0, []
    while first < nexec and len(aborts) <= sh.get("max_aborts", 12):
        part = ctx.path(f"tr_{sh['name']}_{len(parts)}.ndjson")
        rc, _, err = vlib.run_harness(ctx, bdir, "emitfuzz", ["record", part, arch, em, base, first, nexec - first, calls, mode],
                                      timeout=420 if ctx.quick else 1500, env={"ASAN_OPTIONS": ASAN, "UBSAN_OPTIONS": UBSAN, "VERIF_SEED": ctx.seed})
        parts.append(part)
        if rc == 0:
            break
        recs = vlib.read_ndjson(part)
        xi = None
        for r_ in recs:
            if r_.get("e") == "Reset":
                xi = r_.get("xi")
        if rc == -999 or xi is None:
            raise Broken(f"harness emitfuzz shard {sh['name']} failed rc={rc}: {(err or '')[-400:]}")
        if not recs or recs[-1].get("e") != "ABORT":
            with open(part, "a") as f:
                f.write(json.dumps({"e": "ABORT", "in": "(no death callback) rc=%d" % rc}) + "\n")
        ep = part + ".stderr"
        open(ep, "w").write(err or "")
        aborts.append({"xi": xi, "key": sanitizer_key(err), "stderr": ep,
                       "summary": next((x.strip() for x in (err or "").splitlines() if "SUMMARY" in x or "runtime error" in x), "")[:300]})
        first = xi + 1
    path = ctx.path(f"trace_{sh['name']}.ndjson")
    with open(path, "w") as out:
        for p in parts:
            out.write(open(p).read())
    sh["path"], sh["aborts"] = path, aborts
    return sh


# ---------------------------------------------------------------------------------------------------------------
def aspect(prev, ev, hk):
    """Which clause of the contract the rejected event breaks (only used to build the finding signature / message;
    acceptance or rejection is TLC's)."""
    if ev.get("e") == "ABORT":
        return "abort"
    if ev.get("e") == "Probe":
        return "fresh-equivalence" + ("-final" if ev.get("final") else "")
    if ev.get("e") == "Finish":
        if ev["p"].get("gb"):
            return "finish:detached-fixup-without-label-id"
        if ev["p"].get("eh") == 0:
            return "finish:emitter-configuration-changed"
        if ev.get("cmp") and ev["u"] != ev["f"]:
            names = ["style", "flatten", "resolve", "relocate/add", "unresolved", "labels", "bound", "fixups", "bad-fixups", "sections", "size", "bytes"]
            return "finish-differs-from-reference:" + "+".join(n for n, a, b in zip(names, ev["u"], ev["f"]) if a != b)
        return "finish:other"
    if ev.get("e") != "Call":
        return "other"
    k, r, hc, th, p, q = ev["k"], ev["r"], ev["hc"], ev["th"], prev["p"], ev["p"]
    if q.get("gb"):
        return "detached-fixup-without-label-id"
    if q.get("eh") == 0:
        return "emitter-configuration-changed(error-handler/logger/options)"
    if k == "earr" and r == 0 and prev.get("_head", {}).get("em") == "asm" and (ev.get("ew") or ("eb" in ev and sum(q["ss"]) - sum(p["ss"]) != ev["eb"])):
        return "accepts-wrapped-size" if ev.get("ew") else "appended-size-differs"
    if r == 0 and ev.get("di"):
        return "accepts-documented-invalid:" + ("misaligned-label-reference" if k == "inst" else k)
    if k == "inst" and r == 0 and ev.get("vr") and head_is_validating_x86_builder(prev):
        return "accepts-virtual-register-id"
    h_ = prev.get("_head", {})
    if k == "inst" and r == 0 and ev.get("fr") and h_.get("arch") != "a64" and (h_.get("va") if h_.get("em") == "asm" else h_.get("vi")):
        return "accepts-field-out-of-documented-range"
    if k == "inst" and h_.get("fast") and "tw" in ev and (r == 0) != (ev["tw"] == 0):
        return ("fast-path-accepts-what-slow-path-refuses:%d" % ev["tw"]) if r == 0 else ("fast-path-refuses-what-slow-path-accepts:%d" % r)
    if k == "finalize" and r == 0 and prev.get("_pend"):
        return "accepts-what-assembler-refuses:%d" % prev["_pend"]
    if k == "finalize":
        return "finalize-report:%d" % len(hc)
    if r == 0:
        if hc or th:
            return "ok-but-handler-called"
        if k == "inst":
            d = sum(q["ss"]) - sum(p["ss"])
            return "ok-inst-size:%d" % d
        return "ok-shape"
    out = []
    if q["ss"] != p["ss"]:
        out.append("bytes-appended")
    elif q["sd"] != p["sd"]:
        out.append("bytes-modified")
    for f, nm in (("nl", "label-created"), ("nf", "fixup-count-changed"), ("nr", "reloc-created"), ("na", "addrtab-entry-created"),
                  ("nn", "node-created"), ("cu", "cursor-moved"), ("cs", "section-switched"), ("off", "offset-moved"), ("nv", "vreg-created")):
        if q[f] != p[f]:
            out.append(nm)
    if out:
        return "+".join(out)
    if k == "inst" and ev["os"] != [0, 0, 0, 0]:
        return "state-not-reset"
    if k != "inst" and any(a not in (0, b) for a, b in zip(ev["os"], ev["oi"])):
        return "state-garbage"
    if hk == "none":
        return "handler-without-handler" if (hc or th) else "other"
    if len(hc) > 1:
        return "handler-called-%d-times" % len(hc)
    if len(hc) == 0:
        return "handler-not-called" if k == "inst" else "other"
    if hc[0] != r:
        return "handler-code-differs"
    if hk == "throw" and th != 1:
        return "exception-lost"
    return "other"


def head_is_validating_x86_builder(prev):
    h = prev.get("_head", {})
    return h.get("em") == "builder" and h.get("arch") != "a64" and h.get("vi")


def classify(x, aborts_by_xi):
    recs = x["records"]
    head = recs[0] if recs and recs[0].get("e") == "Reset" else {}
    i = x["index"]
    ev = recs[i] if i < len(recs) else {"e": "END"}
    prev = dict(next((recs[j] for j in range(min(i, len(recs)) - 1, -1, -1) if "p" in recs[j]), head))
    prev["_head"] = head
    prev["_pend"] = next((r_.get("sh") for r_ in recs[:i] if r_.get("e") == "Call" and r_.get("k") == "inst" and r_.get("r") == 0 and r_.get("sh")), 0)
    asp = aspect(prev, ev, head.get("hk"))
    who = f"{head.get('arch')}/{head.get('em')}"
    if asp == "abort":
        ab = aborts_by_xi.get(head.get("xi"))
        key = ab["key"] if ab else "ub:unknown"
        if head.get("mode") in ("lblmem32", "lbloff64", "mem16off"):  # (regsize/deadjump keep the report location: it is stable)      # executions that generate nothing but one trigger:
            key = "ub:" + head["mode"]                                      # the report location varies with the garbage read
        msg = f"{who} {ev.get('in', '')[:260]} :: {ab['summary'] if ab else 'process died'}"
        return key, msg
    kind = ev.get("k", ev.get("e"))
    emcls = "asm" if head.get("em") == "asm" else "builder"       # Compiler shares the Builder's front end
    if not head.get("att", True):
        emcls += "-detached"
    key = f"{emcls}:{kind}:{asp}"
    if asp.startswith("fast-path-"):
        key = asp
    if asp.startswith("accepts-what-assembler-refuses"):
        key = "builder-" + asp
        first = next((r_ for r_ in recs[:i] if r_.get("e") == "Call" and r_.get("k") == "inst" and r_.get("r") == 0 and r_.get("sh")), {})
        ev = dict(ev, **{"in": "finalize Ok after accepted request [" + first.get("in", "")[:200] + "] that a strictly validating Assembler refuses with %s" % first.get("sh")})
    msg = (f"{who} hk={head.get('hk')} call {kind} [{ev.get('in', '')[:220]}] r={ev.get('r')} hc={ev.get('hc')} th={ev.get('th')} "
           f"before={json.dumps(prev.get('p'))[:200]} after={json.dumps(ev.get('p'))[:200]} os={ev.get('os')} -> {asp}")
    return key, msg


# ---------------------------------------------------------------------------------------------------------------
def shards_for(ctx):
    q = ctx.quick
    S = []
    def add(arch, em, mode, nexec, calls, max_aborts=12):
        S.append({"name": f"{arch}_{em}_{mode}_{len(S)}", "arch": arch, "em": em, "mode": mode, "nexec": nexec, "calls": calls,
                  "base": (ctx.seed * 7919 + len(S) * 104729) % (2 ** 31), "max_aborts": max_aborts})
    k = 1 if q else 10
    for arch in ("x86", "x64", "a64"):
        for j in range(2 if q else 4):
            add(arch, "asm", "general", 300 * k // (1 if q else 2), 100)       # quick: 2 x 300 x ~110 calls
        add(arch, "builder", "general", 250 * k, 100)
        add(arch, "asm", "failonly", 100 * k, 30)
        add(arch, "builder", "failonly", 100 * k, 30)
        # detached emitters (own handler): instruction calls and the other calls in separate executions
        add(arch, "asm", "detinst", 3, 30, max_aborts=3)
        add(arch, "builder", "detinst", 3, 30, max_aborts=3)
        add(arch, "asm", "detother", 3, 40, max_aborts=3)
        add(arch, "builder", "detother", 3, 40, max_aborts=3)
    for arch in ("x86", "x64"):
        add(arch, "compiler", "general", 120 * k, 60)
        add(arch, "compiler", "failonly", 60 * k, 20)
    # dedicated executions for isolated triggers (each is expected to end in a sanitizer report while the defect is open)
    add("x86", "asm", "lblmem32", 3, 40, max_aborts=3)
    add("x64", "asm", "lbloff64", 3, 20, max_aborts=3)
    add("x86", "asm", "mem16off", 3, 20, max_aborts=3)
    add("a64", "asm", "a64elem", 3, 100, max_aborts=3)
    add("a64", "compiler", "a64elem", 3, 60, max_aborts=3)
    for arch in ("x86", "x64"):
        add(arch, "compiler", "regsize", 3, 4, max_aborts=3)
        add(arch, "compiler", "deadjump", 3, 4, max_aborts=3)
    return S


def run(ctx):
    bdir = ctx.build("asan", "emitfuzz")
    design(ctx)
    shards = shards_for(ctx)
    with concurrent.futures.ThreadPoolExecutor(max_workers=8) as ex:
        shards = list(ex.map(lambda s: record_shard(ctx, bdir, s), shards))
    stats = collections.Counter()
    nrec = 0
    for sh in shards:
        arch = sh["arch"]
        for rec in vlib.read_ndjson(sh["path"]):
            nrec += 1
            if rec.get("e") == "Call" and rec.get("fr"):
                stats[(arch, sh["em"], "field-out-of-range", "ok" if rec["r"] == 0 else "err")] += 1
            if rec.get("e") == "Call" and "tw" in rec:
                stats[(arch, sh["em"], "fast-vs-slow", "ok" if rec["r"] == 0 else "err")] += 1
            if rec.get("e") == "Call":
                ok = "ok" if rec["r"] == 0 else "err"
                stats[(arch, sh["em"], rec["k"], ok)] += 1
                ctx.distinct.add((arch, sh["em"], rec["k"], rec["r"], len(rec["hc"]), rec["th"]))
            elif rec.get("e") == "Probe":
                stats[(arch, sh["em"], "probe", "final" if rec.get("final") else "delta")] += 1
            elif rec.get("e") == "Finish":
                stats[(arch, sh["em"], "finish", ("style%d" % rec["u"][0]) + ("/cmp" if rec["cmp"] else ""))] += 1
                ctx.distinct.add((arch, sh["em"], "finish", tuple(rec["u"][:4]), rec["cmp"]))
            elif rec.get("e") == "Reset" and sh["em"] == "asm" and sh["mode"] == "general":
                stats[(arch, "asm", "path", "fast" if rec.get("fast") else "slow")] += 1
            elif rec.get("e") == "Reset" and sh["em"] != "asm":
                stats[(arch, sh["em"], "diag", ("VI" if rec.get("vi") else "") + ("+VA" if rec.get("va") else "") or "none")] += 1
    ctx.evaluations = nrec
    ctx.log(f"recorded {nrec} events in {len(shards)} shards; sanitizer aborts: {sum(len(s['aborts']) for s in shards)}")

    def validate(sh):
        return sh, vlib.validate_executions(ctx, MOD, CFG, sh["path"], tag="v_" + sh["name"], timeout=2400, heap="3g", max_rejects=4)

    found = collections.OrderedDict()
    with concurrent.futures.ThreadPoolExecutor(max_workers=8) as ex:
        for sh, rej in ex.map(validate, shards):
            ab = {a["xi"]: a for a in sh["aborts"]}
            for x in rej:
                key, msg = classify(x, ab)
                found.setdefault(key, []).append((msg, x["path"]))
    for key, lst in found.items():
        msg, path = lst[0]
        if key in ctx.known:
            ctx.known_finding(key, f"{ctx.known[key]} [{len(lst)} rejected execution(s); e.g. {msg[:200]}]")
        else:
            ctx.violation(f"key={key} ({len(lst)} rejected execution(s)) {msg}", path)
    for sh in shards[:3]:
        recs = vlib.read_ndjson(sh["path"])
        ctx.add_sample({"shard": sh["name"], "events": [{k: v for k, v in r.items()} for r in recs[4:7]]})
    ctx.extra["call_counts"] = {"/".join(map(str, k)): v for k, v in sorted(stats.items())}
    ctx.extra["rejections_by_key"] = {k: len(v) for k, v in found.items()}
    need = [("x86", "asm", "inst", "err"), ("x64", "asm", "inst", "ok"), ("a64", "asm", "inst", "err"), ("x64", "builder", "inst", "err"),
            ("x64", "asm", "bind", "err"), ("x64", "asm", "elabel", "err"), ("a64", "asm", "probe", "delta"),
            ("x64", "asm", "finish", "style2/cmp"), ("x86", "asm", "finish", "style1"), ("x64", "builder", "finish", "style0/cmp"),
            ("x64", "builder", "diag", "VI"), ("x64", "builder", "diag", "none"), ("x64", "builder", "diag", "VI+VA"), ("x64", "compiler", "diag", "VI"),
            ("a64", "asm", "path", "fast"), ("x64", "asm", "path", "fast"), ("x86", "asm", "path", "fast"), ("a64", "asm", "fast-vs-slow", "err"),
            ("x64", "asm", "fast-vs-slow", "ok"), ("x64", "asm", "field-out-of-range", "err"), ("x86", "asm", "field-out-of-range", "err")]
    missing = [n for n in need if not stats.get(n)]
    if missing:
        raise Broken(f"call classes never exercised: {missing}")
    ctx.assumptions += [
        "projection (harness/emitfuzz.cpp Exec::proj): per section buffer size + 31-bit FNV digest of its bytes, label/unresolved-fixup/relocation/address-table counts, Builder node count and cursor position, Assembler section and offset, Compiler virtual-register count, one-shot state (options, extra reg, inline comment)",
        "valid forms are the TEST_INSTRUCTION lines of the repository's x86 and AArch64 assembler tests executed on a Builder; they only feed the generator",
        "AArch64: operand kinds of every form are kept (typed API); x86: strict validation (kValidateAssembler/kValidateIntermediate) is on in every execution",
        "ASan+UBSan (allocator_may_return_null=1) is the environment: a report ends the process, the ABORT line is not a contract event; the harness resumes with the next execution",
        "Builder/Compiler finalize is its own call with the reporting discipline only (partial output of earlier nodes is by design)",
        "isolated triggers (x86-32 [label] with invalid id; x86-64 [label+disp] with disp near INT32_MIN; 16-bit addressing with disp outside 0..32767; x86 Compiler register operands with a size field > 64; a valid Compiler program with a dead block jumping into live code; AArch64 vector element-type perturbation, element-index perturbation under the Compiler; detached emitters) are generated only in dedicated executions so that one open defect does not end every execution",
        "every execution ends with a finishing phase on the holder (flatten + resolve_cross_section_fixups [+ relocate_to_base], or JitRuntime::_add + _release); when every refused call left the projection unchanged it is compared with a reference pass of the same seed in which the refused calls are omitted",
        "Builder: DiagnosticOptions swept over the subsets of {kValidateAssembler, kValidateIntermediate} (x86 without any validation: operand kinds of real forms are kept); Compiler: kValidateIntermediate always on; an x86 Builder with kValidateIntermediate must refuse virtual register ids; an accepted request that a strictly validating shadow Assembler refuses (state-independent error) must not finalize Ok",
        "fast path: ~30% of the general Assembler executions run without logger and without diagnostic options (x86: operand kinds of real forms kept); each has a twin pass (same seed, logger attached) and every instruction request must be accepted/refused alike; a64 instruction ids are perturbed with every condition code",
        "x86 memory operand fields are drawn over their full bit range (segment 0..7, broadcast 0..7, address type 0..3, shift 0..3), register group fields over 0..15; with validation on, segment 7 / broadcast 7 must be refused (address type 3 and a group inconsistent with the register type are accepted by the validator and encode the instruction the register type / default address type denotes: not alarmed)",
        "every projection carries eh = emitter configuration intact (error_handler() identity, has_own_error_handler, logger, diagnostic options); Builder/Compiler executions make finalize fail inside a pass now and then (never-created virtual register; a user pass that refuses) under all handler kinds and issue one more refused call afterwards",
        "embed_data_array on an Assembler: boundary item counts whose exact byte size is >= 2^64 (all type sizes, repeat 1/2/2^63); accepted => appended bytes = count*size*repeat as integers. Exact sizes in [2^31, 2^64) are not generated (astronomic buffer growth = allocation failure, C15)",
        "whether an accepted instruction is CORRECT is C01/C02; here an Ok emit only has to append 1..15 bytes (x86) / 4 bytes (a64) and nothing else",
    ]
    vlib.write_evidence(ctx, "model_checking",
        rule="events = recorded emitter calls (+Reset/Probe) validated by TLC against EmitContract; distinct = distinct (arch, emitter, call kind, result code, handler calls, thrown) outcomes; "
             "design = exhaustive histories of the emitter model with the valid/invalid argument alphabet",
        trusted_base=["TLC 1.8.0", "spec/code/EmitContract.tla (contract)", "harness/emitfuzz.cpp projection + handler recorder", "clang-14 ASan/UBSan as environment"])


def replay(ctx, path):
    recs = vlib.read_ndjson(path)
    head = recs[0]
    bdir = ctx.build("asan", "emitfuzz")
    tr = ctx.path("replay.ndjson")
    rc, _, err = vlib.run_harness(ctx, bdir, "emitfuzz", ["one", tr, head["arch"], head["em"], head["xs"], head["n"], head["mode"]],
                                  timeout=600, env={"ASAN_OPTIONS": ASAN, "UBSAN_OPTIONS": UBSAN})
    if rc != 0:
        r2 = vlib.read_ndjson(tr)
        if not r2 or r2[-1].get("e") != "ABORT":
            open(tr, "a").write(json.dumps({"e": "ABORT", "in": "rc=%d" % rc}) + "\n")
        ctx.log("replayed execution ended with: " + next((x.strip() for x in (err or "").splitlines() if "SUMMARY" in x), f"rc={rc}"))
    ok, maxl, r = vlib.validate_trace_file(ctx, MOD, CFG, tr)
    if not ok:
        r2 = vlib.read_ndjson(tr)
        ctx.violation(f"replayed execution rejected at line {maxl}: {json.dumps(r2[maxl - 1])[:300] if maxl - 1 < len(r2) else 'END'}", tr)
    else:
        ctx.log("replayed execution accepted")
