"""C01 - x86/x64 assembler emits a correct encoding of every instruction it accepts.

Decided by TLC on spec/isa/X86Enc.tla - the x86 instruction FORMAT (legacy prefixes, REX, VEX2/VEX3/XOP/EVEX payloads,
opcode maps, ModRM/SIB/displacement incl. EVEX disp8*N, immediates) written from the Intel SDM / AMD APM as a form-guided
decoder and parameterised by one row of the ISA database (db/isa_x86.json read through the repository's own db/x86.js by
tools/db_export_x86.js) - bound to the code pointwise:
   harness/x86sweep.cpp instantiates every DB form x {32,64}-bit x register ids x memory grid x immediates x decorations x
   options on the real x86::Assembler (strict validation on, generic emit(inst_id, ...) API); every ACCEPTED observation is an
   initial state of X86EncObs.tla and the invariant is  \\E row of that instruction : Matches(row, operands, options, mode, bytes).
The spec itself is validated against llvm-mc 14 and objdump 2.40 on a stratified sample (>= 2 accepted observations per form),
and every class of rejection is corroborated with the two disassemblers before it is reported (a rejection the disassemblers
do not support is a broken check, exit 2, never a VIOLATION)."""
import collections, concurrent.futures, json, os, random, re, subprocess, threading, time
import vlib
from vlib import Broken

SPEC = os.path.join(vlib.VERIF, "spec", "isa")
MOD, CFG = os.path.join(SPEC, "X86EncObs.tla"), os.path.join(SPEC, "X86EncObs.cfg")
EXPORTER = os.path.join(vlib.VERIF, "tools", "db_export_x86.js")
_lock = threading.Lock()

# ======================================================================================================================
# independent disassemblers (llvm-mc, objdump): reading of a byte string and comparison with the requested instruction
# ======================================================================================================================
LLVM_MC = "llvm-mc-14"
GP64 = ["rax", "rcx", "rdx", "rbx", "rsp", "rbp", "rsi", "rdi"] + [f"r{i}" for i in range(8, 16)]
GP32 = ["eax", "ecx", "edx", "ebx", "esp", "ebp", "esi", "edi"] + [f"r{i}d" for i in range(8, 16)]
GP16 = ["ax", "cx", "dx", "bx", "sp", "bp", "si", "di"] + [f"r{i}w" for i in range(8, 16)]
GP8 = ["al", "cl", "dl", "bl", "spl", "bpl", "sil", "dil"] + [f"r{i}b" for i in range(8, 16)]
GP8H = ["ah", "ch", "dh", "bh"]
SEG = ["es", "cs", "ss", "ds", "fs", "gs"]


def reg_name(c, i):
    try:
        if c == "gpq": return GP64[i]
        if c == "gpd": return GP32[i]
        if c == "gpw": return GP16[i]
        if c == "gpb": return GP8[i]
        if c == "gph": return GP8H[i]
        if c == "sreg": return SEG[i]
    except IndexError:
        return f"{c}{i}?"
    if c in ("xmm", "ymm", "zmm", "mm", "k", "tmm", "bnd"): return f"{c}{i}"
    if c == "creg": return f"cr{i}"
    if c == "dreg": return f"dr{i}"
    if c == "st": return f"st({i})"
    return f"{c}{i}"


ALLREGS = set(GP64 + GP32 + GP16 + GP8 + GP8H + SEG + ["rip", "eip", "st"])
for _c in ("xmm", "ymm", "zmm"):
    ALLREGS |= {f"{_c}{i}" for i in range(32)}
ALLREGS |= {f"mm{i}" for i in range(8)} | {f"k{i}" for i in range(8)} | {f"tmm{i}" for i in range(8)} | {f"bnd{i}" for i in range(4)}
ALLREGS |= {f"cr{i}" for i in range(16)} | {f"dr{i}" for i in range(16)} | {f"st({i})" for i in range(8)}
R8ALIAS = {f"r{i}l": f"r{i}b" for i in range(8, 16)}      # objdump spells r8b as r8b, some versions r8l

CC = {"nae": "b", "c": "b", "ae": "nb", "nc": "nb", "e": "z", "ne": "nz", "na": "be", "a": "nbe", "nge": "l", "ge": "nl", "ng": "le", "g": "nle",
      "pe": "p", "po": "np"}


def canon_mnemonic(m):
    m = m.lower()
    for pre in ("cmov", "set", "j"):
        if m.startswith(pre) and m[len(pre):] in CC and m not in ("jmp",):
            return pre + CC[m[len(pre):]]
    al = {"sal": "shl", "wait": "fwait", "retn": "ret", "retq": "ret", "retl": "ret", "iretd": "iretd", "pushfq": "pushfq", "xlat": "xlatb",
          "cmpeqps": "cmpps", "int3": "int3", "icebp": "int1", "movabs": "mov", "lret": "retf", "retfq": "retf", "retf": "retf", "sysretq": "sysret64",
          "sysexitq": "sysexit64", "fnstsw": "fnstsw", "pushal": "pushad", "popal": "popad", "pushaw": "pusha", "popaw": "popa", "cdqe": "cdqe",
          "fcompi": "fcomip", "fucompi": "fucomip", "cwtl": "cwde", "vmovdqa": "vmovdqa", "pushfd": "pushfd", "pushf": "pushf",
          "ud2a": "ud2", "ud2b": "ud1", "endbr64": "endbr64", "cmpxchg16b": "cmpxchg16b", "prefetchwt1": "prefetchwt1",
          "loopz": "loope", "loopnz": "loopne", "repz": "repe", "repnz": "repne", "fdisi8087_nop": "fndisi", "feni8087_nop": "fneni",
          "movsxd": "movsxd", "vpcmpequd": "vpcmpud", "xchg": "xchg", "lodsb": "lods", "lodsw": "lods", "lodsd": "lods", "lodsq": "lods",
          "stosb": "stos", "stosw": "stos", "stosd": "stos", "stosq": "stos", "scasb": "scas", "scasw": "scas", "scasd": "scas", "scasq": "scas",
          "movsb": "movs", "movsw": "movs", "movsq": "movs", "cmpsb": "cmps", "cmpsw": "cmps", "cmpsq": "cmps",
          "insb": "ins", "insw": "ins", "insd": "ins", "outsb": "outs", "outsw": "outs", "outsd": "outs"}
    m = al.get(m, m)
    m = re.sub(r"^(v?cmp)(?:eq|lt|le|unord|neq|nlt|nle|ord|eq_uq|nge|ngt|false|neq_oq|ge|gt|true|eq_os|lt_oq|le_oq|unord_s|neq_us|nlt_uq|nle_uq|ord_s|eq_us|nge_uq|ngt_uq|false_os|neq_os|ge_oq|gt_oq|true_us)(ps|pd|ss|sd|ph|sh|pbf16)$", r"\1\2", m)
    m = re.sub(r"^(vpcmp)(?:eq|lt|le|neq|nlt|nle)(u?[bwdq])$", r"\1\2", m)
    m = re.sub(r"^(vpcom)(?:lt|le|gt|ge|eq|neq|false|true)(u?[bwdq])$", r"\1\2", m)
    m = re.sub(r"^(pclmul|vpclmul)(?:lqlq|hqlq|lqhq|hqhq)(dq)$", r"\1qdq", m)
    if m in ("jcxz", "jrcxz"): m = "jecxz"
    return m


def parse_num(t):
    t = t.strip().lower()
    neg = t.startswith("-")
    if neg: t = t[1:].strip()
    try:
        if t.startswith("0x"): v = int(t, 16)
        elif t.endswith("h") and re.fullmatch(r"[0-9a-f]+h", t): v = int(t[:-1], 16)
        else: v = int(t, 10)
    except ValueError:
        return None
    return -v if neg else v


def split_ops(s):
    res, depth, cur = [], 0, ""
    for ch in s:
        if ch in "[{(": depth += 1
        if ch in "]})": depth -= 1
        if ch == "," and depth == 0:
            res.append(cur.strip()); cur = ""
        else:
            cur += ch
    if cur.strip(): res.append(cur.strip())
    return res


def parse_mem(t):
    """text of a memory operand -> dict(seg, base, index, scale, disp) or None"""
    t = t.lower()
    t = re.sub(r"\b(byte|word|dword|qword|tbyte|xword|xmmword|ymmword|zmmword|oword|fword|far|near)\b(\s+ptr)?", " ", t)
    t = re.sub(r"\b(bcst|ptr)\b", " ", t)
    t = re.sub(r"\{1to\d+\}", "", t).strip()
    seg = None
    m = re.match(r"^([cdefgs]s)\s*:\s*(.*)$", t)
    if m: seg, t = m.group(1), m.group(2).strip()
    if t.startswith("["):
        inner = t[1:t.rindex("]")]
    else:
        v = parse_num(t)
        if v is None: return None
        return {"seg": seg, "base": None, "index": None, "scale": 1, "disp": v}
    m = re.match(r"^([cdefgs]s)\s*:\s*(.*)$", inner.strip())
    if m: seg, inner = m.group(1), m.group(2)
    inner = inner.replace(" ", "")
    terms = re.findall(r"[+-]?[^+-]+", inner)
    base = index = None; scale = 1; disp = 0
    for tm in terms:
        sign = -1 if tm.startswith("-") else 1
        tm = tm.lstrip("+-")
        if "*" in tm:
            a, b = tm.split("*")
            if a in ("riz", "eiz") or b in ("riz", "eiz"): continue
            if a in ALLREGS: index, scale = a, parse_num(b)
            else: index, scale = b, parse_num(a)
        elif tm in ALLREGS or tm in ("riz", "eiz"):
            if tm in ("riz", "eiz"): continue
            if base is None: base = tm
            elif index is None: index, scale = tm, 1
            else: return None
        else:
            v = parse_num(tm)
            if v is None: return None
            disp += sign * v
    return {"seg": seg, "base": base, "index": index, "scale": scale, "disp": disp}


def parse_asm(text):
    """one instruction line in Intel syntax -> dict(prefixes, mnem, ops[, deco])"""
    s = text.strip().lower()
    s = re.sub(r"#.*$", "", s).strip()
    s = re.sub(r"\s+", " ", s)
    prefixes = []
    while True:
        m = re.match(r"^(lock|rep|repe|repz|repne|repnz|xacquire|xrelease|addr16|addr32|data16|data32|notrack|bnd|rex\.?\w*|\{\w+\}|[cdefgs]s)\s+(?=\S)", s)
        if not m: break
        prefixes.append(m.group(1)); s = s[m.end():]
    parts = s.split(" ", 1)
    mnem = parts[0]
    rest = parts[1] if len(parts) > 1 else ""
    deco = re.findall(r"\{([^}]*)\}", rest)
    ops = []
    for o in split_ops(rest):
        o0 = o
        o = re.sub(r"\{(k[0-7]|z|r[nduz]-sae|sae)\}", "", o).strip()
        if not o: continue                        # a decoration printed as an operand of its own ("zmm7, {rd-sae}")
        o = R8ALIAS.get(o, o)
        if o in ALLREGS: ops.append(("r", o))
        elif "[" in o or re.match(r"^(\w+ ptr )?[cdefgs]s:", o) or re.search(r"\bptr\b", o): ops.append(("m", parse_mem(o), o0))
        else:
            v = parse_num(o)
            ops.append(("i", v) if v is not None else ("?", o))
    return {"prefixes": prefixes, "mnem": mnem, "ops": ops, "deco": [d.strip() for d in deco], "text": text.strip()}


# ------------------------------------------------------------------------------------------------------------
def llvm_batch(items):
    """items: list of (mode, bytes).  Returns list of (texts, invalid) per item: texts = decoded instruction lines."""
    res = [None] * len(items)
    for mode in (32, 64):
        idx = []
        for i, (m, bs) in enumerate(items):
            if m != mode: continue
            if not bs: res[i] = ([], True, 24)
            elif all(b == 0x90 for b in bs): res[i] = (["nop"] * len(bs), False, 24)
            else: idx.append(i)
        if not idx: continue
        lines = []
        for n, i in enumerate(idx):
            lines.append(" ".join(f"0x{b:02x}" for b in items[i][1]))
            lines.append(" ".join(["0x90" if n % 2 == 0 else "0xcc"] * 24))       # alternating sleds separate the chunks
        p = subprocess.run([LLVM_MC, "--disassemble", "-triple=" + ("x86_64" if mode == 64 else "i386"), "--output-asm-variant=1", "--show-encoding", "-mattr=+3dnow,+3dnowa"],
                           input="\n".join(lines) + "\n", stdout=subprocess.PIPE, stderr=subprocess.PIPE, text=True, timeout=600)
        badlines = set(int(m.group(1)) for m in re.finditer(r"<stdin>:(\d+):\d+: warning: invalid instruction encoding", p.stderr))
        out = [l.strip() for l in p.stdout.splitlines() if l.strip() and not l.strip().startswith(".")]
        chunks, cur, pos = [], [], 0
        while len(chunks) < len(idx):
            want = "nop" if len(chunks) % 2 == 0 else "int3"
            # find the next run of >= 9 sled instructions of the wanted kind
            j = pos
            found = None
            while j < len(out):
                if re.match(r"^%s\s*(#.*)?$" % want, out[j]):
                    k = j
                    while k < len(out) and re.match(r"^%s\s*(#.*)?$" % want, out[k]): k += 1
                    if k - j >= 9:
                        found = (j, k); break
                    j = k
                else:
                    j += 1
            if not found: break
            chunks.append((out[pos:found[0]], found[1] - found[0])); pos = found[1]
        if len(chunks) != len(idx):
            raise RuntimeError(f"llvm-mc chunking failed: {len(chunks)} chunks for {len(idx)} inputs")
        for n, i in enumerate(idx):
            res[i] = (chunks[n][0], (2 * n + 1) in badlines, chunks[n][1])
    return res


def objdump_one(mode, bs, workdir):
    path = os.path.join(workdir, "od.bin")
    with open(path, "wb") as f:
        f.write(bytes(bs))
    p = subprocess.run(["objdump", "-D", "-b", "binary", "-m", "i386:x86-64" if mode == 64 else "i386", "-M", "intel", path],
                       stdout=subprocess.PIPE, stderr=subprocess.PIPE, text=True, timeout=60)
    res = []
    for l in p.stdout.splitlines():
        m = re.match(r"^\s*([0-9a-f]+):\t([0-9a-f ]+)\t(.*)$", l)
        if m:
            res.append((int(m.group(1), 16), len(m.group(2).split()), m.group(3).strip()))
        else:
            m = re.match(r"^\s*([0-9a-f]+):\t([0-9a-f ]+)\s*$", l)
            if m and res:
                res[-1] = (res[-1][0], res[-1][1] + len(m.group(2).split()), res[-1][2])
    return res


# ------------------------------------------------------------------------------------------------------------
def expected_ops(o):
    """requested operands of an observation as comparable items"""
    res = []
    for x in o["ops"]:
        if x["t"] == "r": res.append(("r", reg_name(x["c"], x["id"])))
        elif x["t"] == "m":
            base = "rip" if x["bt"] == "rip" else "<label>" if x["bt"] == "lbl" else (reg_name(x["bt"], x["b"]) if x["bt"] else None)
            index = reg_name(x["it"], x["i"]) if x["it"] else None
            res.append(("m", {"seg": [None, "es", "cs", "ss", "ds", "fs", "gs"][x["sg"]], "base": base, "index": index, "scale": 1 << x["sh"],
                              "disp": int(x["dv"]), "at": x["at"], "bc": x["bc"], "ld": x.get("ld", 0), "len": len(o["b"])}))
        elif x["t"] == "i": res.append(("i", int(x["iv"])))
        else: res.append(("l", x["id"]))
    return res


def mem_same(e, d, mode, lea=False, a67=False):
    if d is None: return None
    if e["base"] == "<label>":
        # [label + off]: a decoder cannot know the label - compare the address its output designates (64-bit: rip = end of the instruction,
        # both decoders print the rip-relative displacement) with the recorded label position + offset, relative to the instruction start;
        # 32-bit: relocated absolute placeholder, only the form (no base, same index) is comparable
        if mode == 64:
            dd = d["disp"] - (1 << 64) if d["disp"] >= (1 << 63) else d["disp"]          # objdump prints a negative rip displacement as an unsigned 64-bit number
            return d["base"] == "rip" and d["index"] is None and e["len"] + dd == e["ld"] + e["disp"]
        return d["base"] is None and d["index"] == e["index"] and (d["index"] is None or d["scale"] == e["scale"])
    asz = 64 if mode == 64 else 32
    for r in (e["base"], e["index"]):
        if r in GP32 and mode == 64: asz = 32
        if r in GP16: asz = 16
    if e["base"] is None and e["index"] is None and e["at"] != 1 and mode == 64 and d["base"] == "rip":
        return True                         # relocated rip-relative placeholder
    eb, ei, db, di = e["base"], e["index"], d["base"], d["index"]
    if asz == 16:
        if {eb, ei} != {db, di}: return False
    else:
        if eb != db:
            return False
        if ei != di: return False
        if ei is not None and e["scale"] != d["scale"]: return False
    # llvm-mc prints an absolute disp32 sign-extended even under an address-size prefix
    if (e["disp"] - d["disp"]) % (1 << (32 if (lea or a67) and e["base"] is None and e["index"] is None else asz)) != 0: return False
    if e["seg"] is not None and d["seg"] is not None and e["seg"] != d["seg"]: return False
    if e["seg"] in ("fs", "gs") and d["seg"] != e["seg"]: return False
    return True


PROMOTE = {"vpand": "vpandd", "vpandn": "vpandnd", "vpor": "vpord", "vpxor": "vpxord", "vmovdqa": "vmovdqa32", "vmovdqu": "vmovdqu32"}
# decoders print another register width for these (selector / sign-extension sources) or omit the register operand
RELAX_REGSIZE = {"and", "lea", "lsl", "lar", "movsxd", "nop", "str", "sldt", "smsw", "lldt", "ltr", "lmsw", "verr", "verw", "arpl", "movzx", "movsx", "mov"}


def reg_number(r):
    for tab in (GP64, GP32, GP16, GP8):
        if r in tab: return "gp%d" % tab.index(r)
    if r in GP8H: return "gph%d" % GP8H.index(r)
    return r


def compare(o, parsed, immw=64, optional=(), decoder="llvm"):
    """AGREE / DISAGREE:<why> / UNKNOWN:<why> between the request o and one parsed disassembly"""
    want = canon_mnemonic(o["n"])
    got = canon_mnemonic(parsed["mnem"])
    if want == "xchg" and got == "nop" and o["b"][-1] == 0x90: return "AGREE"
    if want in ("lcall", "ljmp") and got in ("call", "jmp", "lcall", "ljmp"):
        # far transfers: llvm-mc prints the indirect far form as call/jmp without a size keyword, objdump as call/jmp FWORD|TBYTE|DWORD PTR
        t = parsed["text"].lower()
        if got[0] == "l" or "fword" in t or "tbyte" in t or "far" in t or (" ptr " not in t and "[" in t) or ("dword ptr" in t and 0x66 in o["b"][:4]):
            got = want
            immw = 16
    if PROMOTE.get(want) == got: got = want
    if got != want:
        # size-suffixed string forms etc.
        if not (got.startswith(want) and len(got) - len(want) <= 1) and not (want.startswith(got) and len(want) - len(got) <= 1):
            return "DISAGREE:mnemonic " + parsed["mnem"]
    exp = expected_ops(o)
    if want in ("umonitor", "enqcmd", "enqcmds", "movdir64b"):
        # the register-addressed memory operand is printed as a register by the decoders
        exp = [("r", x[1]["base"]) if (x[0] == "m" and j == 0 and x[1]["base"] and not x[1]["index"] and not x[1]["disp"]) else x for j, x in enumerate(exp)]
    dec = parsed["ops"]
    if any(x[0] == "?" for x in dec): return "UNKNOWN:operand text " + parsed["text"]
    eregs = [x[1] for x in exp if x[0] == "r"]
    dregs = [x[1] for x in dec if x[0] == "r"]
    dregs = ["st(0)" if r == "st" else r for r in dregs]
    if want == "xchg":
        eregs, dregs = sorted(eregs), sorted(dregs)          # symmetric: the decoders may print the operands in the other order
    if want in RELAX_REGSIZE:
        eregs, dregs = [reg_number(r) for r in eregs], [reg_number(r) for r in dregs]
        optional = tuple(range(len(exp)))

    def subseq(a, b):
        it = iter(b)
        return all(any(x == y for y in it) for x in a)
    mand = [x[1] for j, x in enumerate(exp) if x[0] == "r" and j not in optional]
    if want == "xchg": mand = sorted(mand)
    if want in RELAX_REGSIZE: mand = [reg_number(r) for r in mand]
    if not ((subseq(eregs, dregs) or subseq(dregs, eregs)) and subseq(mand, dregs)):
        return f"DISAGREE:registers {dregs} vs requested {eregs}"
    emem = [x[1] for x in exp if x[0] == "m"]
    dmem = [x[1] for x in dec if x[0] == "m"]
    if emem and dmem and len(emem) == len(dmem):
        for e, d in zip(emem, dmem):
            r = mem_same(e, d, o["m"], want == "lea", o["m"] == 64 and 0x67 in o["b"][:4])
            if r is None: return "UNKNOWN:memory text " + parsed["text"]
            if not r: return f"DISAGREE:memory {d} vs requested {e}"
        for (e, x) in zip([y for y in o["ops"] if y["t"] == "m"], [y for y in dec if y[0] == "m"]):
            m = re.search(r"\b(byte|word|dword|qword|xmmword|ymmword|zmmword|tbyte|fword|oword)\b", x[2].lower())
            szs = {"byte": 1, "word": 2, "dword": 4, "qword": 8, "xmmword": 16, "oword": 16, "ymmword": 32, "zmmword": 64, "tbyte": 10, "fword": 6}
            if want not in RELAX_REGSIZE and m and e["sz"] and not e["bc"] and szs[m.group(1)] != e["sz"] and "bcst" not in x[2].lower() and "{1to" not in x[2].lower():
                return f"DISAGREE:memory operand size {m.group(1)} vs requested {e['sz']} bytes"
    elif emem and not dmem and not all(j in optional for j, x in enumerate(exp) if x[0] == "m"):
        return "DISAGREE:memory operand missing"
    eimm = [x[1] for x in exp if x[0] == "i"]
    dimm = [x[1] for x in dec if x[0] == "i"]
    if eimm and dimm and len(eimm) == len(dimm):
        for e, d in zip(eimm, dimm):
            if (e - d) % (1 << immw) != 0: return f"DISAGREE:immediate {d} vs requested {e}"
    # relative branches: a decoder cannot 'agree' with a label by its mnemonic - compute the target its output designates and compare it
    # with the position of the label recorded in the observation (relative to the start of the instruction)
    elab = [x[1] for x in exp if x[0] == "l"]
    if elab:
        if len(dimm) != 1 or eimm: return "UNKNOWN:branch operand text " + parsed["text"]
        if decoder == "llvm":
            target = len(o["b"]) + dimm[0]                 # llvm-mc prints the displacement, relative to the end of the instruction
        else:
            w = 64 if o["m"] == 64 else 32                 # objdump prints the absolute target; the bytes are loaded at address 0
            target = dimm[0] - (1 << w) if dimm[0] >= (1 << (w - 1)) else dimm[0]
        if target != elab[0]:
            return f"DISAGREE:branch target {target:+d} bytes from the instruction start, the label is at {elab[0]:+d}"
    # decorations
    k = [d for d in parsed["deco"] if re.fullmatch(r"k[0-7]", d)]
    if o["k"] and k != [f"k{o['k']}"]: return f"DISAGREE:mask {k} vs k{o['k']}"
    if not o["k"] and k: return f"DISAGREE:mask {k} vs none"
    if bool(o["z"]) != ("z" in parsed["deco"]): return "DISAGREE:zeroing"
    er = [d for d in parsed["deco"] if d.endswith("-sae")]
    if o["er"] >= 0 and not er and "sae" in parsed["deco"]:
        return "UNKNOWN:the decoders know this instruction as {sae}-only (DB row carries the er flag)"
    if o["er"] >= 0 and er != [["rn-sae", "rd-sae", "ru-sae", "rz-sae"][o["er"]]]: return f"DISAGREE:rounding {er}"
    if o["er"] < 0 and er: return f"DISAGREE:rounding {er} vs none"
    return "AGREE"


PFX_LINE = r"^(lock|rep|repe|repne|wait|fwait|data16|data32|addr16|addr32|xacquire|xrelease|[cdefgs]s|notrack|rex64|bnd)\b\s*$"


def judge_lines(o, lines, consumed_ok, immw, optional, dec="llvm"):
    lines = [re.sub(r"#.*$", "", l).strip() for l in lines]
    lines = [l for l in lines if l]
    if not lines: return "DISAGREE:no instruction"
    if not consumed_ok: return "DISAGREE:decoded length differs from the number of bytes appended: " + " ; ".join(lines)
    main = [l for l in lines if not re.match(PFX_LINE, l.lower()) or re.match(r"^f?wait$", l.lower())]      # (f)wait is an instruction of its own
    if len(main) == 0: return "DISAGREE:no instruction"
    if len(main) == 2 and re.match(r"^f?wait$", main[0].lower()) and o["n"].startswith("f") and not o["n"].startswith("fn"):
        main = [("f" + main[1].lstrip()[2:]) if main[1].lower().startswith("fn") else main[1]]       # wait + fnXXX = fXXX
    if len(main) != 1: return "DISAGREE:decodes to several instructions: " + " ; ".join(lines)
    p = parse_asm(main[0])
    r = compare(o, p, immw, optional, dec)
    if r == "AGREE":
        pl = [l.lower() for l in lines if l not in main] + p["prefixes"]
        if bool(o["opt"] & 1) != ("lock" in pl) and not any(x["t"] == "r" and x.get("c") == "creg" for x in o["ops"]): return "DISAGREE:lock prefix"
    return r


def read_llvm(o, res, immw=64, optional=()):
    texts, invalid, sled = res
    if invalid or not texts: return "DISAGREE:invalid encoding"
    return judge_lines(o, texts, sled == 24, immw, optional)


def read_objdump(o, workdir, immw=64, optional=()):
    r = objdump_one(o["m"], list(o["b"]) + [0x90] * 16, workdir)
    if not r: return "DISAGREE:no instruction"
    n = len(o["b"])
    lines, pos = [], 0
    for off, ln, txt in r:
        if off >= n: break
        lines.append(txt); pos = off + ln
    if any("(bad)" in l for l in lines): return "DISAGREE:invalid encoding: " + " ; ".join(lines)
    # objdump prints prefixes in front of the mnemonic on one line
    return judge_lines(o, lines, pos == n, immw, optional, "objdump")


# ======================================================================================================================
# the check
# ======================================================================================================================
VEC = ("xmm", "ymm", "zmm")


def opstr(x):
    if x["t"] == "r": return reg_name(x["c"], x["id"])
    if x["t"] == "i": return x["iv"]
    if x["t"] == "l": return f"L({x['id']:+d})"
    s = {0: "", 1: "byte ", 2: "word ", 4: "dword ", 8: "qword ", 16: "xmmword ", 32: "ymmword ", 64: "zmmword "}.get(x["sz"], f"m{x['sz']} ")
    s += ["", "es:", "cs:", "ss:", "ds:", "fs:", "gs:"][x["sg"]] + "["
    parts = []
    if x["bt"]: parts.append("rip" if x["bt"] == "rip" else f"L({x.get('ld', 0):+d})" if x["bt"] == "lbl" else reg_name(x["bt"], x["b"]))
    if x["it"]: parts.append(f"{reg_name(x['it'], x['i'])}*{1 << x['sh']}")
    if int(x["dv"]) or not parts: parts.append(x["dv"])
    return s + "+".join(parts).replace("+-", "-") + "]" + (f"{{1to{x['bc']}}}" if x["bc"] else "") + ["", "{abs}", "{rel}"][x["at"]]


def describe(o):
    dec = (f" {{k{o['k']}}}" if o["k"] else "") + (" {z}" if o["z"] else "") + (" {%s-sae}" % ["rn", "rd", "ru", "rz"][o["er"]] if o["er"] >= 0 else "") + (" {sae}" if o["sae"] else "")
    names = ["lock", "rep", "repne", "xacquire", "xrelease", "short", "long", "mod-mr", "mod-rm", "vex3", "vex", "evex", "rex"]
    opts = [n for j, n in enumerate(names) if o["opt"] >> j & 1]
    if o.get("eo", 0) & 1: opts.append("optimize-for-size")
    if o.get("eo", 0) & 2: opts.append("predicted-jumps")
    return f"{o['m']}-bit: {' '.join(opts) + ' ' if opts else ''}{o['n']} {', '.join(opstr(x) for x in o['ops'])}{dec} -> {bytes(o['b']).hex()}"


def op_sig(x):
    if x["t"] == "r":
        return x["c"] + ("hi" if x["c"] in VEC and x["id"] >= 16 else "")
    if x["t"] == "i": return "imm"
    if x["t"] == "l": return "label"
    k = "m"
    if x["bt"] == "rip": k += "rip"
    elif not x["bt"] and not x["it"]: k += "abs"
    elif x["bt"] == "gpw" or x["it"] == "gpw": k += "16"
    if x["it"] in VEC: k += "vsib" + ("hi" if x["i"] >= 16 else "")
    if x["bc"]: k += "bcst"
    return k


def op_fits(fo, x):
    """python twin of OpFits in X86Enc.tla (only used to name the class of a rejection)"""
    if x["t"] == "r": return x["c"] in fo["regs"] and (fo["fixed"] < 0 or fo["fixed"] == x["id"])
    if x["t"] == "m":
        if fo["msz"] < 0: return False
        if not (fo["msz"] == 0 or x["sz"] == 0 or x["sz"] == fo["msz"] or (x["bc"] and fo["bcst"] and x["sz"] * 8 == fo["bcst"])): return False
        if x["bc"] and not fo["bcst"]: return False
        return (x["it"] not in VEC) if not fo["vsib"] else x["it"] == fo["vsib"]
    if x["t"] == "i": return fo["ibits"] > 0 or fo["iconst"] >= 0
    return fo["rbits"] > 0


def shape_fits(f, o):
    if not (f["arch"] == "ANY" or (f["arch"] == "X64") == (o["m"] == 64)): return False
    if len(o["ops"]) == len(f["ops"]): al = list(range(len(f["ops"])))
    elif len(o["ops"]) == len(f["expl"]): al = [j - 1 for j in f["expl"]]
    else: return False
    return all(op_fits(f["ops"][al[j]], x) for j, x in enumerate(o["ops"]))


def emitted_evex(o):
    b = o["b"]
    j = 0
    while j < len(b) and b[j] in (0x66, 0x67, 0xF0, 0xF2, 0xF3, 0x26, 0x2E, 0x36, 0x3E, 0x64, 0x65): j += 1
    return j < len(b) and b[j] == 0x62


def reject_key(o, clause, row, forms, names):
    """stable signature of a rejected observation.  Root causes that span many instructions get a class key, everything
    else names the instruction, the failing clause, the mode and the operand shape."""
    hi = any((x["t"] == "r" and x["c"] in VEC and x["id"] >= 16) or (x["t"] == "m" and x["it"] in VEC and x["i"] >= 16) for x in o["ops"])
    a16 = any(x["t"] == "m" and (x["bt"] == "gpw" or x["it"] == "gpw") for x in o["ops"])
    deco = o["k"] or o["z"] or o["er"] >= 0 or o["sae"] or any(x["t"] == "m" and x["bc"] for x in o["ops"])
    optevex = o["opt"] >> 11 & 1
    # EVEX rows of AVX10.2 are not implemented by the pinned release (every AVX10.2-only mnemonic is an unknown name): they do not count
    fit = [forms[i - 1] for i in names.get(o["n"], []) if forms[i - 1]["ok"] and "AVX10_2" not in forms[i - 1]["ext"] and shape_fits(forms[i - 1], o)]
    if (hi or deco or optevex) and not any(f["pk"] == "E" and f["name"] == o["n"] for f in fit):
        what = "vector-register-16..31" if hi else ("mask-or-evex-decoration" if deco else "evex-option")
        return f"class:{what}-accepted-for-operand-signature-without-evex-row"
    if clause == "length" and any(x["t"] == "m" and x["dv"] == "0" and ((x["bt"] == "gpw" and x["b"] == 5 and not x["it"]) or (x["it"] == "gpw" and x["i"] == 5 and not x["bt"]))
                                  for x in o["ops"]):
        return "class:16-bit-addressing-[bp]-without-displacement"
    if a16 and emitted_evex(o) and clause == "mem-disp":
        return "class:evex-disp8-not-compressed-with-16-bit-addressing"
    b = o["b"]
    if clause == "longer-than-15":
        return "class:instruction-longer-than-15-bytes"
    if clause == "segment-prefix" and row["pk"] in ("V", "E", "X"):
        return f"class:segment-prefix:{ {'V': 'vex', 'E': 'evex', 'X': 'xop'}[row['pk']] }-memory-form:m{o['m']}"      # one prefix path serves every VEX / EVEX / XOP memory form
    if clause in ("label-memory-displacement", "label-memory-form"):
        return f"class:{clause}:m{o['m']}"          # [label + off] operands: one root cause spans every instruction with a memory operand
    if clause == "modrm-rm-fixed" and row["rmfix"] == 4:
        return "class:forced-sib-operand-emitted-without-sib"
    if o["m"] == 64 and any(0x40 <= b[j] <= 0x4F and b[j + 1] in (0x67, 0x26, 0x2E, 0x36, 0x3E, 0x64, 0x65) for j in range(len(b) - 1)) and clause == "length":
        return "class:rex-prefix-emitted-before-address-size-or-segment-override"
    if clause == "prefix-67" and not any(x["fld"] == "rm" and x["msz"] >= 0 for x in row["ops"]):
        return "class:address-size-of-implicit-operand-ignored"
    return f"{o['n']}:{clause}:m{o['m']}"


def export_forms(ctx):
    repo = os.environ.get("VERIF_REPO", "/repo")
    p = subprocess.run(["node", EXPORTER, repo, ctx.out], stdout=subprocess.PIPE, stderr=subprocess.PIPE, text=True, timeout=300)
    if p.returncode != 0:
        raise Broken("db_export_x86.js failed: " + p.stderr[-1500:])
    forms = [json.loads(l) for l in open(ctx.path("forms.ndjson"))]
    names = json.load(open(ctx.path("names.json")))
    evex_names = {n for n, ids in names.items() if any(forms[i - 1]["pk"] == "E" and forms[i - 1]["ok"] for i in ids)}
    twin = {}
    for f in forms:
        if f["ok"]: twin.setdefault((f["name"], f["ops_s"]), f["id"])
    for f in forms:
        f["_name_has_evex"] = f["name"] in evex_names
        f["_twin"] = f["id"] if f["ok"] else twin.get((f["name"], f["ops_s"]), f["id"])       # modelled row with the same operand notation
    return forms, names, json.load(open(ctx.path("export_report.json")))


def tlc_pointwise(ctx, lines, tag, shards, workers=2, timeout=2400, heap="3g"):
    """lines: raw ndjson lines (accepted observations).  Returns (rejects, unjudged): lists of (obs, clause, row)."""
    if not lines:
        return [], []
    shards = max(1, min(shards, (len(lines) + 999) // 1000))
    parts = [lines[i::shards] for i in range(shards)]
    paths = []
    for i, p in enumerate(parts):
        path = ctx.path(f"{tag}_shard{i}.ndjson")
        with open(path, "w") as f:
            f.write("\n".join(p) + "\n")
        paths.append(path)
    env = {"FORMS": ctx.path("forms.ndjson"), "NAMES": ctx.path("names.json")}

    def one(i):
        return i, vlib.run_tlc(ctx, MOD, CFG, workers=workers, timeout=timeout, env=dict(env, OBS=paths[i]), heap=heap, tag=f"{tag}{i}", extra=["-continue"])

    rej, unj = [], []
    devs = ctx.extra.setdefault("deviation_actions_used", {})
    with concurrent.futures.ThreadPoolExecutor(max_workers=shards) as ex:
        for i, r in ex.map(one, range(shards)):
            if r.kind in ("timeout", "error") or "Finished computing initial states" not in r.out:
                raise Broken(f"TLC {tag} shard {i}: kind={r.kind} rc={r.rc}\n" + "\n".join(r.out.splitlines()[-25:]))
            if r.distinct != len(parts[i]):
                raise Broken(f"TLC {tag} shard {i}: {r.distinct} observations evaluated, {len(parts[i])} expected")
            with _lock:
                ctx.states += r.distinct
                ctx.transitions += r.generated
            nviol = len(re.findall(r"Invariant Conforms is violated", r.out))
            rj = re.findall(r'<<"REJECT", (\d+), "([^"]*)", (\d+)>>', r.out)
            if nviol != len(rj):
                raise Broken(f"TLC {tag} shard {i}: {nviol} invariant violations but {len(rj)} REJECT lines")
            for ln, clause, k in rj:
                rej.append((json.loads(parts[i][int(ln) - 1]), clause, int(k)))
            for ln, name in re.findall(r'<<"DEVIATION", (\d+), "([^"]*)">>', r.out):
                with _lock:
                    d = devs.setdefault(name, {"observations": 0, "example": describe(json.loads(parts[i][int(ln) - 1]))})
                    d["observations"] += 1
            for ln, why in re.findall(r'<<"UNJUDGED", (\d+), "([^"]*)">>', r.out):
                unj.append((json.loads(parts[i][int(ln) - 1]), why, 0))
            os.remove(paths[i])
    return rej, unj


def optional_of(o, f):
    if len(o["ops"]) != len(f["ops"]): return ()
    return tuple(j for j, x in enumerate(f["ops"]) if x["fld"] == "none")


def imm_width(f, o=None):
    """width (bits) in which a printed immediate is compared with the requested one: the size of the first register /
    memory operand of the request (the decoders print immediates sign- or zero-extended to the operand size)"""
    if o is not None and f.get("ok"):
        w = max([x["iw"] for x in f["ops"] if x["fld"] == "imm"] + [0])
        if w: return w
    if o is not None:
        for x in o["ops"]:
            if x["t"] == "r" and x["c"] in ("gpb", "gph", "gpw", "gpd", "gpq"):
                return {"gpb": 8, "gph": 8, "gpw": 16, "gpd": 32, "gpq": 64}[x["c"]]
            if x["t"] == "m" and x["sz"] in (1, 2, 4, 8):
                return 8 * x["sz"]
        return 64
    return max([x["iw"] for x in f["ops"] if x["fld"] == "imm"] + [0]) or 64


# decoder quirks met while validating the spec (pattern on the decoder's verdict -> explanation); a disagreement that
# matches one of them for ONE decoder is not counted when the other decoder agrees with the spec
def both_decoders(ctx, obs_rows):
    """obs_rows: list of (obs, row).  Returns list of (llvm verdict, objdump verdict or None)."""
    res = llvm_batch([(o["m"], o["b"]) for o, _ in obs_rows])
    out = []
    for (o, f), r in zip(obs_rows, res):
        v1 = read_llvm(o, r, imm_width(f, o), optional_of(o, f))
        v2 = None
        if not v1.startswith("AGREE"):
            v2 = read_objdump(o, ctx.out, imm_width(f, o), optional_of(o, f))
        out.append((v1, v2, [re.sub(r"#.*$", "", t).strip() for t in r[0]]))
    return out


def run_sweep(ctx, bdir, tier):
    shards = 1 if tier == "quick" else 12
    outs = [ctx.path(f"obs_{i}.ndjson") for i in range(shards)]

    def one(i):
        args = ["sweep", ctx.path("forms.ndjson"), outs[i], tier] + ([i, shards] if shards > 1 else [])
        rc, _, err = vlib.run_harness(ctx, bdir, "x86sweep", args, timeout=2400, env={"VERIF_SEED": ctx.seed})
        if rc != 0:
            raise Broken(f"x86sweep failed rc={rc}: {err[-1500:]}")
        return err
    with concurrent.futures.ThreadPoolExecutor(max_workers=shards) as ex:
        list(ex.map(one, range(shards)))
    if tier != "quick":         # the thorough sweep is a superset of the quick one (different rotations of the pairwise grid)
        qp = ctx.path("obs_quick.ndjson")
        rc, _, err = vlib.run_harness(ctx, bdir, "x86sweep", ["sweep", ctx.path("forms.ndjson"), qp, "quick"], timeout=1200, env={"VERIF_SEED": ctx.seed})
        if rc != 0:
            raise Broken(f"x86sweep failed rc={rc}: {err[-1500:]}")
        outs.append(qp)
    return outs


SEG_PFX = {1: 0x26, 2: 0x2E, 3: 0x36, 4: 0x3E, 5: 0x64, 6: 0x65}
LEGACY_PFX = (0x66, 0x67, 0xF0, 0xF2, 0xF3, 0x26, 0x2E, 0x36, 0x3E, 0x64, 0x65)


def segment_byte_level(o):
    """A requested segment override that equals the default segment of the address is printed by no decoder, with or without the prefix
    byte, so the decoder text can neither corroborate nor refute 'the override is not encoded'.  Byte-level corroboration with the decoders'
    own prefix handling: the prefix byte is absent from the leading prefixes, and with the byte inserted llvm-mc reads the same instruction
    (same text apart from a printed segment) consuming exactly one byte more.  Returns (corroborated, explanation)."""
    b = o["b"]
    j = 0
    while j < len(b) and b[j] in LEGACY_PFX: j += 1
    want = {SEG_PFX[x["sg"]] for x in o["ops"] if x["t"] == "m" and x["sg"]}
    missing = sorted(want - set(b[:j]))
    if not missing: return False, ""
    res = llvm_batch([(o["m"], b), (o["m"], missing + list(b))])
    def norm(r):
        texts, invalid, sled = r
        if invalid or sled != 24: return None
        lines = [re.sub(r"#.*$", "", t).strip().lower() for t in texts]
        lines = [re.sub(r"\b[cdefgs]s:\s*", "", l) for l in lines if l and not re.fullmatch(r"[cdefgs]s", l)]
        return lines
    n1, n2 = norm(res[0]), norm(res[1])
    if n1 is not None and n1 == n2:
        return True, "prefix byte %s absent; with it inserted llvm-mc reads the same instruction from one byte more" % " ".join("%02X" % x for x in missing)
    return False, "prefix byte absent but the decoder does not read the extended bytes as the same instruction"


def judge(ctx, forms, names, rej, what):
    """group, corroborate with the disassemblers, report"""
    groups = collections.OrderedDict()
    for o, clause, k in rej:
        row = forms[(k or o["f"]) - 1]
        groups.setdefault(reject_key(o, clause, row, forms, names), []).append((o, clause, row))
    summary = {}
    for key, items in groups.items():
        # diverse sample of the group for corroboration
        seen, sample = set(), []
        for o, clause, row in items:
            sk = (o["n"], clause, o["m"])
            if sk in seen and len(sample) >= 4: continue
            seen.add(sk); sample.append((o, clause, row))
            if len(sample) >= 12: break
        verdicts = both_decoders(ctx, [(o, row) for o, _, row in sample])
        corroborated, contradicted = [], []
        for (o, clause, row), (v1, v2, texts) in zip(sample, verdicts):
            agree = v1.startswith("AGREE") or (v2 or "").startswith("AGREE")
            dis = (v1.startswith("DISAGREE") or (v2 or "").startswith("DISAGREE")) and not agree
            if clause == "prefix-67" and 0x67 not in o["b"][:4] and not any("addr" in t for t in texts):
                dis, agree = True, False            # implicit operand address size: the decoders print no operand; the missing 67 is the evidence
            if clause == "longer-than-15" and len(o["b"]) > 15:
                dis, agree = True, False            # SDM vol.2 2.3.11 / vol.3: an instruction longer than 15 bytes is #GP; the decoders do not enforce the limit
            if clause == "segment-prefix":
                ok, why = segment_byte_level(o)
                if ok:
                    dis, agree = True, False        # the requested override is not encoded (decoders print no default segment either way)
                    v1 = v1 + " [" + why + "]"
            if clause == "option-rex" and agree:
                dis, agree = True, False            # forced REX missing: decoders read the same instruction, the option had no effect
            (corroborated if dis and not agree else contradicted).append((o, clause, row, v1, v2, texts))
        safe = re.sub(r"[^A-Za-z0-9_.-]", "_", key)[:150]
        # replay files live next to (not inside) the scratch directory: tools/check wipes out/<ID> when it starts a replay
        rdir = ctx.out.rstrip("/") + "_replay"
        os.makedirs(rdir, exist_ok=True)
        rp = os.path.join(rdir, f"reject_{safe}.ndjson")
        vlib.write_ndjson(rp, [o for o, _, _ in items[:40]])
        summary[key] = {"observations": len(items), "instructions": len({o["n"] for o, _, _ in items}),
                        "corroborated": len(corroborated), "sampled": len(sample)}
        if not corroborated and all(c[1] == "segment-prefix" and not re.search(r"\b[cdefgs]s:", " ".join(c[5]).lower()) for c in contradicted):
            # the decoders print no segment at all for these bytes: a decoder limitation, neither corroboration nor refutation -> information only
            o, clause, row, v1, v2, texts = contradicted[0]
            ctx.extra.setdefault("uncorroborable_rejections", {})[key] = {"observations": len(items), "example": describe(o), "why": "decoders print no segment for this address form"}
            ctx.log(f"uncorroborable rejection class {key} ({len(items)} observations): judged by the spec alone, reported as information")
            continue
        if not corroborated:
            o, clause, row, v1, v2, texts = contradicted[0]
            if os.environ.get("C01_DEV"):
                print(f"UNSUPPORTED {key}: {describe(o)} | clause {clause} row {row['id']} [{row['opcode']} | {row['ops_s']}] | llvm-mc: {texts} => {v1} | objdump => {v2}", flush=True)
                continue
            raise Broken(f"{what}: rejection class {key} is NOT supported by the disassemblers (spec / exporter bug, not a finding): {describe(o)} | clause {clause} "
                         f"row {row['id']} [{row['opcode']} | {row['ops_s']}] | llvm-mc: {texts} => {v1} | objdump => {v2}")
        o, clause, row, v1, v2, texts = corroborated[0]
        msg = (f"{len(items)} accepted observation(s) of {summary[key]['instructions']} instruction(s) do not decode to what was requested, e.g. {describe(o)} "
               f"[clause {clause} against DB row {row['id']}: {row['opcode']} | {row['ops_s']}]; llvm-mc reads: {' ; '.join(texts) or '(invalid)'} ({v1})"
               + (f"; objdump: {v2}" if v2 else ""))
        if key in ctx.known:
            ctx.known_finding(key, ctx.known[key] + f" [{len(items)} observations in this run]")
        else:
            ctx.violation(f"{key}: {msg}", rp)
    return summary


def validate_spec(ctx, forms, accepted_ok, seed):
    """Spec validation: >= 2 accepted observations per form (where available) that the SPEC accepts are read by llvm-mc /
    objdump; the decoders must agree with the request (= with the spec's reading).  Returns statistics; raises Broken when
    the spec accepts bytes that both decoders read differently."""
    rnd = random.Random(seed)
    per = collections.defaultdict(list)
    for o in accepted_ok:
        per[o["f"]].append(o)
    sample = []
    for fid, L in per.items():
        regs = [o for o in L if not any(x["t"] == "m" for x in o["ops"])]
        mems = [o for o in L if any(x["t"] == "m" for x in o["ops"])]
        pick = []
        if regs: pick.append(rnd.choice(regs))
        if mems: pick.append(rnd.choice(mems))
        while len(pick) < 2 and len(L) > len(pick):
            c = rnd.choice(L)
            if c not in pick: pick.append(c)
        sample += pick
    verdicts = both_decoders(ctx, [(o, forms[forms[o["f"] - 1]["_twin"] - 1]) for o in sample])
    stats = collections.Counter()
    quirks = collections.Counter()
    bad = []
    for o, (v1, v2, texts) in zip(sample, verdicts):
        if v1.startswith("AGREE"):
            stats["agree_llvm"] += 1
        elif (v2 or "").startswith("AGREE"):
            stats["agree_objdump_only"] += 1
            quirks["llvm-mc: " + v1.split(":", 1)[1].split(" ")[0] + " (" + o["n"] + ")"] += 1
        elif v1.startswith("UNKNOWN") or (v2 or "").startswith("UNKNOWN"):
            stats["not_comparable"] += 1
        else:
            stats["disagree"] += 1
            bad.append((o, v1, v2, texts))
    return sample, stats, quirks, bad


# instructions (by DB name) that llvm-mc 14 and objdump 2.40 do not know or print differently: a double disagreement on
# these is a decoder limit, not a spec bug (listed in the evidence)
DECODER_LIMITS = re.compile(r"^(pfrcpv|pfrsqrtv|aadd|aand|aor|axor|vpdp|tdp|tcmm|ttdp|ttcmm|tconj|ttrans|t2rpn|vcvtne|vsha512|vsm[34]|cmp\w+xadd|aadd|aand|aor|axor|rdmsrlist|wrmsrlist|wrmsrns|urdmsr|uwrmsr|"
                            r"prefetchit|senduipi|hreset|erets|eretu|lkgs|pbndkb|seamcall|seamops|seamret|tdcall|uiret|testui|clui|stui|enqcmd|"
                            r"vbcstnesh2ps|vbcstnebf162ps|vcvtneeph2ps|vcvtneoph2ps|vcvtneebf162ps|vcvtneobf162ps|vpmadd52|pvalidate|rmp|psmash|"
                            r"tlbsync|invlpgb|mcommit|rdpru|clzero|monitorx|mwaitx|llwpcb|slwpcb|lwp|xresldtrk|xsusldtrk|serialize|"
                            r"ldtilecfg|sttilecfg|tile|vp2intersect|vpshufbitqmb)")


def run(ctx):
    q = ctx.quick
    t0 = time.time()
    fixes = os.path.join(vlib.VERIF, "out", "C01_fixes")          # proposed minimal fixes for the findings (kept outside the wiped scratch dir)
    if os.path.isdir(fixes):
        for fn in sorted(os.listdir(fixes)):
            if fn.endswith(".diff"):
                open(ctx.path(fn), "w").write(open(os.path.join(fixes, fn)).read())
    forms, names, exrep = export_forms(ctx)
    ctx.log(f"exported {len(forms)} forms of db/isa_x86.json: {exrep['handled']} modelled, {len(forms) - exrep['handled']} listed as not modelled, "
            f"{len(exrep['quirks_applied'])} DB quirk overrides")
    bdir = ctx.build("plain", "x86sweep")
    outs = run_sweep(ctx, bdir, ctx.tier)
    accepted, nemit = [], 0
    errs = collections.Counter()
    inst_all, inst_acc = set(), set()
    for pth in outs:
        with open(pth) as f:
            for l in f:
                nemit += 1
                m = re.search(r'"f":(\d+),', l)
                inst_all.add(int(m.group(1)))
                if '"e":0,' in l:
                    accepted.append(l.rstrip("\n"))
                    inst_acc.add(int(m.group(1)))
                else:
                    errs[re.search(r'"en":"([^"]*)"', l).group(1)] += 1
        os.remove(pth)
    ctx.log(f"sweep: {nemit} emits, {len(accepted)} accepted, {len(inst_all)} forms instantiated, {len(inst_acc)} forms accepted at least once ({time.time()-t0:.0f}s)")
    if len(accepted) < 1000:
        raise Broken("sweep produced almost no accepted observations")
    rej, unj = tlc_pointwise(ctx, accepted, "obs", 8 if q else 14, workers=2)
    ctx.log(f"TLC judged {len(accepted)} accepted observations: {len(rej)} rejected, {len(unj)} not judged ({time.time()-t0:.0f}s)")
    rejset = {json.dumps(o, sort_keys=True) for o, _, _ in rej} | {json.dumps(o, sort_keys=True) for o, _, _ in unj}
    ok_obs = []
    for l in accepted:
        o = json.loads(l)
        if json.dumps(o, sort_keys=True) not in rejset:
            ok_obs.append(o)
    # spec validation against the independent decoders
    sample, stats, quirks, bad = validate_spec(ctx, forms, ok_obs, ctx.seed)
    def limit(o):       # unknown to llvm-mc 14 / objdump 2.40: newer extensions, APX-promoted EVEX forms of kmov
        if o["n"].startswith("bnd") and any(x["t"] == "m" and ((x["bt"] or x["it"]) in ("gpw", "gpd" if o["m"] == 64 else "gpw") or
                                                               (o["m"] == 64 and (x["bt"] in ("", "rip", "lbl")))) for x in o["ops"]):
            return True         # MPX has no 16-bit addressing (#UD) and ignores 0x67 in 64-bit mode: whether the assembler should accept it is C13's question
        return bool(DECODER_LIMITS.match(o["n"])) or (o["n"].startswith("kmov") and 0x62 in o["b"][:3])
    limits = [b for b in bad if limit(b[0])]
    bad = [b for b in bad if not limit(b[0])]
    ctx.extra["spec_validation"] = {"sampled_observations": len(sample), "forms_sampled": len({o["f"] for o in sample}), **stats,
                                    "decoder_quirks": dict(quirks.most_common(40)),
                                    "instructions_unknown_to_both_decoders": sorted({b[0]["n"] for b in limits})}
    ctx.log(f"spec validation: {len(sample)} spec-accepted observations of {len({o['f'] for o in sample})} forms read by llvm-mc/objdump: {dict(stats)}")
    with open(ctx.path("spec_validation_disagreements.txt"), "w") as fh:
        for o, v1, v2, texts in bad + limits:
            fh.write(f"{describe(o)} | row {o['f']} | llvm-mc: {texts} => {v1} | objdump => {v2}\n")
    ctx.extra["spec_validation"]["unexplained_double_disagreements"] = [f"{describe(o)} | llvm-mc: {texts} => {v1} | objdump => {v2}" for o, v1, v2, texts in bad[:20]]
    if len(bad) > 12:       # a handful of decoder quirks is listed; more than that means the spec (or the comparison) is wrong
        o, v1, v2, texts = bad[0]
        raise Broken(f"spec validation: X86Enc.tla accepts bytes that llvm-mc AND objdump read differently ({len(bad)} cases), e.g. {describe(o)} | "
                     f"llvm-mc: {texts} => {v1} | objdump => {v2}")
    summary = judge(ctx, forms, names, rej, "sweep")
    # coverage bookkeeping
    judged_forms = {o["f"] for o in ok_obs} | {o["f"] for o, _, _ in rej}
    unj_by = collections.Counter((o["n"], why) for o, why, _ in unj)
    byid = {f["id"]: f for f in forms}
    for o in ok_obs:
        ctx.distinct.add((o["f"], o["m"], tuple(op_sig(x) for x in o["ops"]), o["k"] > 0, o["z"], o["er"] >= 0, o["sae"], o["opt"]))
    ctx.evaluations = len(accepted)
    ctx.extra.update({
        "emits": nemit, "accepted": len(accepted), "assembler_errors": dict(errs.most_common(20)),
        "forms_total": len(forms), "forms_modelled_by_spec": exrep["handled"],
        "forms_instantiated": len(inst_all), "forms_accepted_at_least_once": len(inst_acc), "forms_judged": len(judged_forms & {f["id"] for f in forms if f["ok"]}),
        "forms_not_modelled": {k: {"forms": v, "instructions": exrep["unhandled_names"][k]} for k, v in exrep["unhandled"].items()},
        "instructions_never_accepted_by_the_assembler": sorted({byid[i]["name"] for i in inst_all - inst_acc if byid[i]["ok"]}),
        "db_quirks_overridden": exrep["quirks_applied"], "promotion_aliases": exrep.get("promotion_aliases", {}),
        "unjudged_observations": {f"{n}: {why}": c for (n, why), c in unj_by.most_common(400)},
        "rejection_classes": summary,
    })
    for o in ok_obs[:: max(1, len(ok_obs) // 6)][:6]:
        ctx.add_sample({"observation": describe(o), "row": byid[o["f"]]["opcode"]}, limit=8)
    ctx.assumptions += [
        "the ISA database rows are taken as the encoding rules; rows contradicting the SDM (listed under db_quirks_overridden, each confirmed by llvm-mc/objdump) are overridden",
        "absolute memory operands with default/rel address type in 64-bit mode are rip-relative with a relocated displacement: the displacement value is C04's, only the form is checked",
        "acceptance itself (operand signatures, decorations or prefixes a row does not allow) is C13's question: such observations are listed as unjudged",
        "row kinds modelled beyond plain ModRM rows: mandatory-SIB operands (AMX tmem, MPX mib: ModRM.rm=100), 3DNow! (opcode byte after ModRM/SIB/disp), far pointers "
        "(m16:16/32/64 and ptr16:16/32), register-addressed memory (enqcmd/enqcmds/movdir64b in ModRM.reg, umonitor in ModRM.rm), adx / RAO-INT legacy rows; "
        "NOT modelled (forms_not_modelled): APX (EVEX map 4, ND/NF/SCC/dfv, REX2), EVEX rows without a tuple type (APX-promoted BMI/kmov/cmpccxadd/AMX), tilemovrow - "
        "an unmodelled EVEX / REX2 row only excuses bytes that start with 62 / D5",
        "named deviation actions of the spec (deviation_actions_used): LeaAbsU32AsLea32, LeaAbsU32SignExtendedAddress, AndZext32, MovImm64ToImm32, Zext32RowOfTheDatabase, "
        "RetZeroAsRet, XchgRaxRaxAsNop - each preserves the operation, the destination and the value written; everything else must match a row exactly",
        "generator: the special rows of the ModRM/SIB/absolute table are complete for every form; absolute / rip / no-base rows are crossed with a low and a high register bank, "
        "the rex and lock options; immediates are drawn from the whole int64 range the API takes (boundaries of every width) and EncodingOptions::kOptimizeForSize is swept",
        "mod-mr / mod-rm / vex options are swept but not enforced (the assembler documents them as hints); rex, vex3, evex, long are enforced",
        "plain -O1 build of the working tree",
    ]
    vlib.write_evidence(
        ctx, "model_checking",
        rule="evaluations = accepted observations of the real x86::Assembler, each judged by TLC as one initial state (Verdict of X86Enc.tla); "
             "distinct = distinct (form, mode, operand shape, decorations, options) keys among the observations the spec accepted; states/transitions from TLC",
        explanation="pointwise conformance checking: X86Enc.tla is a pure function (form-guided decoder + match predicate), TLC evaluates it on every observation; "
                    "the spec is validated on a stratified sample against llvm-mc and objdump and every rejection class is corroborated by them",
        exhaustive=False,
        trusted_base=["TLC", "spec/isa/X86Enc.tla", "tools/db_export_x86.js + db/x86.js (DB reader of the repository)", "harness/x86sweep.cpp (records operands/bytes)",
                      "llvm-mc 14 / objdump 2.40 (spec validation and corroboration only)"])


def replay(ctx, path):
    forms, names, exrep = export_forms(ctx)
    bdir = ctx.build("plain", "x86sweep")
    again = ctx.path("replay.again.ndjson")
    rc, _, err = vlib.run_harness(ctx, bdir, "x86sweep", ["replay", path, again], timeout=600)
    if rc != 0:
        raise Broken(f"x86sweep replay failed rc={rc}: {err[-800:]}")
    lines = [l for l in open(again).read().splitlines() if '"e":0,' in l]
    rej, unj = tlc_pointwise(ctx, lines, "replay", 1)
    ctx.evaluations = len(lines)
    for o, clause, k in rej[:1]:
        ctx.violation(f"{reject_key(o, clause, forms[(k or o['f']) - 1], forms, names)}: {describe(o)} [clause {clause}]", again)
