"""C12 - instruction read/write information covers what the CPU really does.

Decided by TLC on spec/isa/RWInfo.tla, bound to the code pointwise (RWInfoObs.tla: one observation = one initial state):

 leg 1 (report vs ISA database)  harness/rwinfo.cpp instantiates every non-privileged, non-control-flow row of db/isa_x86.json
        (rows through tools/db_export_x86.js, their R/W annotations through tools/db_export_x86_rw.js) x {64,32}-bit x every
        register/memory alternative x register assignments (distinct, rotated / ids >= 16, all-same, pairwise-same) x {k}{z}{er}
        and records InstAPI::query_rw_info + query_features of the real library.  RWInfo.tla derives the architectural access record of
        the row (annotations + ISA width rules) and checks the inclusions reads / writes / GP byte masks / zero-extension / memory /
        flags written / features / register-or-memory replaceability / consecutive-register runs.
 leg 2 (report vs processor)     harness/rwexec.cpp executes every such instruction the host can run (features reported by asmjit present,
        GP / XMM / YMM / ZMM / K operands, plain memory operand) on random machine states in a forked, signal-guarded child and records
        what changed and which inputs matter; TLC checks  changed within reported writes,  depends within reported reads,  no #UD with the
        reported features.  The same records are compared with the DB-derived record ("DBV" lines): that validates RWInfo.tla and the
        database against hardware and tells DB-annotation errors from table errors.
 sweep dimensions (harness/rwinfo.cpp, field "dim"): base = the assignments above; imm = for every form with an immediate the values
        0, 0xFF, -1, 0x11*n, 0x0F, 0xF0, 0x55, 0xAA, 0x5A, random x {no mask, {k} merge, {k}{z}} x {distinct, all-same} (instruction-specific special
        cases of query_rw_info are selected by the immediate, e.g. the vpternlog truth tables that ignore the destination); bid = the boundary
        ids 0 7 8 15 16 17 31 in every vector operand position (VSIB index included) one at a time, the other operands low; sel = the
        encoding selectors {vex} {vex3} {evex} on every VEX- / EVEX-encodable form (low ids, and {evex} with one id 16); requests the
        assembler refuses are dropped.
        Every request is also EMITTED by x86::Assembler; "executes on any CPU that has the reported features" is judged against the encoding
        actually produced (EVEX 62h / VEX C4h C5h): the reported set must cover the EVEX resp. VEX row of this operand signature.
        Requests with a vector id >= 16 whose signature has no EVEX row (validator leniency, C01/C13) are not forms of the database: skipped.
        Host leg: a byte of the perturbed register that merely shows the old value through (merge-masking, partial / conditional write) is a
        dependency exactly when that byte is REPORTED as written - so "destination not read" under {k} merge-masking is refuted by two runs.
 leg 3 (AArch64 register lists)  every ldN/stN/ldNr/tbl/tbx ... row of db/isa_aarch64.json with an Nx{...} list: the report carries the run.

A rejected observation is grouped under a narrow key  <clause>:<instruction>:<operand signature>[:<operand/register/flag>];
keys listed in KNOWN_FINDINGS.txt are reported as KNOWN-FINDING, everything else is a VIOLATION."""
import collections, concurrent.futures, json, os, re, subprocess, threading, time
import vlib
from vlib import Broken

SPEC = os.path.join(vlib.VERIF, "spec", "isa")
MOD, CFG = os.path.join(SPEC, "RWInfoObs.tla"), os.path.join(SPEC, "RWInfoObs.cfg")
EXP_FORMS = os.path.join(vlib.VERIF, "tools", "db_export_x86.js")
EXP_RW = os.path.join(vlib.VERIF, "tools", "db_export_x86_rw.js")
_lock = threading.Lock()

GP64 = ["rax", "rcx", "rdx", "rbx", "rsp", "rbp", "rsi", "rdi"] + [f"r{i}" for i in range(8, 16)]
GP32 = ["eax", "ecx", "edx", "ebx", "esp", "ebp", "esi", "edi"] + [f"r{i}d" for i in range(8, 16)]
GP16 = ["ax", "cx", "dx", "bx", "sp", "bp", "si", "di"] + [f"r{i}w" for i in range(8, 16)]
GP8 = ["al", "cl", "dl", "bl", "spl", "bpl", "sil", "dil"] + [f"r{i}b" for i in range(8, 16)]
FLAGN = {1: "OF", 2: "CF", 4: "ZF", 8: "SF", 256: "AF", 512: "PF", 1024: "DF", 2048: "IF", 4096: "AC", 65536: "C0", 131072: "C1", 262144: "C2", 524288: "C3"}


def reg_name(c, i):
    try:
        return {"gpq": GP64, "gpd": GP32, "gpw": GP16, "gpb": GP8, "gph": ["ah", "ch", "dh", "bh"]}[c][i]
    except (KeyError, IndexError):
        return f"{c}{i}"


def opstr(x):
    if x["t"] == "r": return reg_name(x["c"], x["id"])
    if x["t"] == "i": return x["iv"]
    s = {0: "", 1: "byte ", 2: "word ", 4: "dword ", 8: "qword ", 10: "tbyte ", 16: "xmmword ", 32: "ymmword ", 64: "zmmword "}.get(x["sz"], f"m{x['sz']} ")
    parts = []
    if x["bt"]: parts.append(reg_name(x["bt"], x["b"]))
    if x["it"]: parts.append(f"{reg_name(x['it'], x['i'])}*{1 << x['sh']}")
    if int(x["dv"]) or not parts: parts.append(x["dv"])
    return s + "[" + "+".join(parts) + "]" + (f"{{1to{x['bc']}}}" if x["bc"] else "")


def describe(o):
    dec = (f" {{k{o['k']}}}" if o["k"] else "") + (" {z}" if o["z"] else "") + (" {rn-sae}" if o["er"] >= 0 else "") + (" {sae}" if o["sae"] else "")
    sel = "".join(n for b, n in ((1024, "{vex} "), (512, "{vex3} "), (2048, "{evex} ")) if o.get("opt", 0) & b)
    return f"{o['m']}-bit {sel}{o['n']} {', '.join(opstr(x) for x in o['ops'])}{dec}"


def op_sig(x):
    if x["t"] == "r": return x["c"]
    if x["t"] == "i": return "imm"
    return f"m{x['sz'] * 8}" + ("bcst" if x["bc"] else "") + ("vsib" if x["it"] in ("xmm", "ymm", "zmm") else "")


def mask_hex(m):
    return "0x%X" % sum(b << (8 * j) for j, b in enumerate(m))


def report_str(o, j):
    r = o["rw"][j]
    fl = r["fl"]
    names = [n for b, n in ((1, "R"), (2, "W"), (4, "RegMem"), (8, "Consecutive"), (0x100, "RegPhysId"), (0x1000, "MemBaseRead"), (0x2000, "MemBaseWrite"),
                            (0x4000, "MemIndexRead"), (0x8000, "MemIndexWrite")) if fl & b]
    return f"op{j}={{{'|'.join(names) or 'none'} r={mask_hex(r['r'])} w={mask_hex(r['w'])} x={mask_hex(r['x'])} rm_size={r['rm']} lead={r['cl']}}}"


# ======================================================================================================================
def export_db(ctx):
    repo = os.environ.get("VERIF_REPO", "/repo")
    for exp in (EXP_FORMS, EXP_RW):
        p = subprocess.run(["node", exp, repo, ctx.out], stdout=subprocess.PIPE, stderr=subprocess.PIPE, text=True, timeout=300)
        if p.returncode != 0:
            raise Broken(f"{os.path.basename(exp)} failed: " + p.stderr[-1500:])
    rw = [json.loads(l) for l in open(ctx.path("rwforms.ndjson"))]
    forms = [json.loads(l) for l in open(ctx.path("forms.ndjson"))]
    if len(rw) != len(forms) or any(a["name"] != b["name"] for a, b in zip(rw, forms)):
        raise Broken("rwforms.ndjson and forms.ndjson do not describe the same rows")
    return rw, forms, json.load(open(ctx.path("names.json")))


def scope_of(f):
    """why a DB row is outside C12's quantifier ('' = inside)"""
    if f["priv"] != "L3": return "privileged"
    if f["ctl"] != "none": return "control-flow"
    if "APX_F" in f["ext"] or f["pk"] == "U": return "APX (not implemented by the pinned release)"
    if "AVX10_2" in f["ext"]: return "AVX10.2 (not implemented by the pinned release)"
    return ""


VEC = ("xmm", "ymm", "zmm")


def op_fits(fo, x):
    """python twin of OpFits in X86Enc.tla (C01): does the request operand x have the kind / class the row operand fo admits"""
    if x["t"] == "r": return x["c"] in fo["regs"] and (fo["fixed"] < 0 or fo["fixed"] == x["id"])
    if x["t"] == "m":
        if fo["msz"] < 0: return False
        if not (fo["msz"] == 0 or x["sz"] == 0 or x["sz"] == fo["msz"] or (x["bc"] and fo["bcst"] and x["sz"] * 8 == fo["bcst"])): return False
        if x["bc"] and not fo["bcst"]: return False
        return (x["it"] not in VEC) if not fo["vsib"] else x["it"] == fo["vsib"]
    if x["t"] == "i": return fo["ibits"] > 0 or fo["iconst"] >= 0
    return False


def needs_evex_row(o):
    if o.get("opt", 0) & 2048: return True          # {evex} selector (lib_x86forms.h O_EVEX): honoured even where no EVEX row exists (C01 finding)
    return any((x["t"] == "r" and x["c"] in VEC and x["id"] >= 16) or (x["t"] == "m" and x["it"] in VEC and x["i"] >= 16) for x in o["ops"])


def has_evex_row(o, rw, forms, names):
    """a request that uses xmm/ymm/zmm16..31 is a form of the database only if an EVEX row of the instruction has this operand signature
    (the validator accepts such ids for every signature: C01/C13's finding, not C12's question)"""
    for t in names.get(o["n"], []):
        f, r = forms[t - 1], rw[t - 1]
        if r["pk"] != "E" or scope_of(r) or r["name"] != o["n"]: continue       # (vpand -> vpandd style promotion is not a row of this instruction)
        if not (f["arch"] == "ANY" or (f["arch"] == "X64") == (o["m"] == 64)): continue
        if len(f["ops"]) == len(o["ops"]) and all(op_fits(fo, x) for fo, x in zip(f["ops"], o["ops"])): return True
    return False


def tlc_pointwise(ctx, recs, tag, kind, env, shards, workers=2, timeout=2400, heap="3g"):
    """recs: list of observation dicts.  Returns (rejects, dbv): lists of (index into recs, [(clause, arg), ...])."""
    if not recs:
        return [], []
    shards = max(1, min(shards, (len(recs) + 499) // 500))
    parts = [list(range(i, len(recs), shards)) for i in range(shards)]
    paths = []
    for i, idx in enumerate(parts):
        path = ctx.path(f"{tag}_shard{i}.ndjson")
        with open(path, "w") as f:
            for k in idx:
                f.write(json.dumps(recs[k], separators=(",", ":")) + "\n")
        paths.append(path)

    def one(i):
        return i, vlib.run_tlc(ctx, MOD, CFG, workers=workers, timeout=timeout, env=dict(env, OBS=paths[i], KIND=kind), heap=heap, tag=f"{tag}{i}", extra=["-continue"])

    rej, dbv = [], []
    with concurrent.futures.ThreadPoolExecutor(max_workers=min(shards, 6)) as ex:
        for i, r in ex.map(one, range(shards)):
            if r.kind in ("timeout", "error") or "Finished computing initial states" not in r.out:
                raise Broken(f"TLC {tag} shard {i}: kind={r.kind} rc={r.rc}\n" + "\n".join(r.out.splitlines()[-25:]))
            if r.distinct != len(parts[i]):
                raise Broken(f"TLC {tag} shard {i}: {r.distinct} observations evaluated, {len(parts[i])} expected")
            with _lock:
                ctx.states += r.distinct
                ctx.transitions += r.generated
            nviol = len(re.findall(r"Invariant Conforms is violated", r.out))
            text = re.sub(r"\s*\n\s+", " ", r.out)          # TLC wraps long values
            text = re.sub(r"<<\s+", "<<", text); text = re.sub(r"\s+>>", ">>", text); text = re.sub(r"\{\s+", "{", text); text = re.sub(r"\s+\}", "}", text)
            rj = re.findall(r'<<"REJECT", (\d+), \{(.*?)\}>>', text)
            if nviol != len(rj):
                raise Broken(f"TLC {tag} shard {i}: {nviol} invariant violations but {len(rj)} REJECT lines")
            for ln, body in rj:
                rej.append((parts[i][int(ln) - 1], [(c, int(a)) for c, a in re.findall(r'<<"([^"]+)", (-?\d+)>>', body)]))
            for ln, body in re.findall(r'<<"DBV", (\d+), \{(.*?)\}>>', text):
                dbv.append((parts[i][int(ln) - 1], [(c, int(a)) for c, a in re.findall(r'<<"([^"]+)", (-?\d+)>>', body)]))
            os.remove(paths[i])
    return rej, dbv


# ======================================================================================================================
# leg 2 plumbing
# ======================================================================================================================
def run_exec(ctx, bdir, obs_path, n, states, procs):
    step = (n + procs - 1) // procs
    outs = []

    def one(k):
        lo, hi = k * step, min(n, (k + 1) * step)
        out = ctx.path(f"exec_{k}.ndjson")
        rc, _, err = vlib.run_harness(ctx, bdir, "rwexec", ["run", obs_path, out, states, lo, hi], timeout=3000, env={"VERIF_SEED": ctx.seed})
        if rc != 0:
            raise Broken(f"rwexec failed rc={rc}: {err[-800:]}")
        return out, err
    with concurrent.futures.ThreadPoolExecutor(max_workers=procs) as ex:
        outs = list(ex.map(one, range(procs)))
    res = {}
    restarts = 0
    for out, err in outs:
        m = re.search(r"child restarts=(\d+)", err)
        restarts += int(m.group(1)) if m else 0
        for l in open(out, errors="replace"):
            l = l.strip()
            if not l: continue
            try:
                r = json.loads(l)
            except Exception:
                continue
            res[r["i"]] = r
        os.remove(out)
    return res, restarts


def clause_arg_text(clause, arg, o):
    if clause.startswith("flag") or clause.endswith("-flag"): return FLAGN.get(arg, str(arg))
    if clause.endswith("-gp"): return GP64[arg] if 0 <= arg < 16 else str(arg)
    if clause.endswith("-vec"): return f"zmm{arg}"
    if clause.endswith("-k"): return f"k{arg}"
    if arg > 0 and o is not None and arg <= len(o["ops"]): return f"op{arg - 1}"
    return ""


def fold_sig(x):
    """operand signature with the vector width folded away (xmm/ymm/zmm rows of one instruction share their RW record)"""
    s = op_sig(x)
    if s in ("xmm", "ymm", "zmm"): return "vec"
    if re.fullmatch(r"m(128|256|512)(bcst)?", s): return "mvec"
    return s


MASK_CLAUSES = ("mask-read", "read", "x-depends-k", "x-depends-vec")


def key_of(clause, arg, o):
    """stable, narrow signature of one failed clause of one observation: clause, instruction, operand signature (vector width folded),
    operand / register role / flag; the mode only where it matters (GP byte clauses), the masking only for the read clauses"""
    sig = ",".join(fold_sig(x) for x in o["ops"]) or "-"
    if o["k"] and clause in MASK_CLAUSES and o.get("xr", {}).get("fl", 0) == 0 and (clause in ("mask-read", "x-depends-k") or arg in (0, 1)):
        # one root cause, four symptoms: the {k} register is not reported at all (and a merged destination not as read)
        return f"evex-mask-ignored:{o['n']}:{sig}"
    deco = (("{k}" if o["k"] else "") + ("{z}" if o["z"] else "")) if clause in MASK_CLAUSES else ""
    if clause.startswith("zero-extension") or clause.endswith("-bytes"): deco += f":m{o['m']}"
    if clause in ("features", "x-undefined-opcode-with-reported-features"):
        deco += "".join(n for b, n in ((1024, ":{vex}"), (512, ":{vex3}"), (2048, ":{evex}")) if o.get("opt", 0) & b)
    a = clause_arg_text(clause, arg, o)
    if clause.endswith("-gp") or clause.endswith("-vec") or clause.endswith("-k"):
        # name the role of the register instead of its number: operand index that carries it, or "none"
        cls = {"gp": ("gpb", "gph", "gpw", "gpd", "gpq"), "vec": ("xmm", "ymm", "zmm"), "k": ("k",)}[clause.rsplit("-", 1)[1]]
        role = [f"op{j}" for j, x in enumerate(o["ops"]) if x["t"] == "r" and x["c"] in cls and x["id"] == arg]
        a = "+".join(role) if role else ("extra-mask" if clause.endswith("-k") and o["k"] == arg else "not-an-operand:" + a)
    return f"{clause}:{o['n']}:{sig}{deco}" + (f":{a}" if a else "")


# ======================================================================================================================
# AArch64 register lists
# ======================================================================================================================
def a64_cases(ctx):
    """cases from db/isa_aarch64.json rows whose first/second operand is an Nx{...} vector list (ld1..ld4, st1..st4, ldNr, tbl, tbx)"""
    repo = os.environ.get("VERIF_REPO", "/repo")
    txt = open(os.path.join(repo, "db", "isa_aarch64.json")).read()
    hdr = open(os.path.join(repo, "asmjit", "arm", "a64globals.h")).read()
    m = re.search(r"\$\{InstId:Begin\}(.*?)\$\{InstId:End\}", hdr, re.S)
    if not m:
        raise Broken("cannot find the Inst::Id enum in a64globals.h")
    ids, k = {}, 0          # ordinal of a64::Inst::kId<Name> in the public enum (vector variant `_v` preferred for list instructions)
    for ln in m.group(1).splitlines():
        qq = re.match(r"\s*(kId\w+)\s*(?:=\s*0)?\s*,\s*//!< Instruction '([^']*)'", ln)
        if qq:
            if qq.group(2) and (qq.group(1).endswith("_v") or qq.group(2) not in ids):
                ids[qq.group(2)] = k
            k += 1
        elif re.match(r"\s*_kIdCount", ln):
            break
    cases, skipped = [], collections.Counter()
    for line in txt.splitlines():
        mm = re.search(r'"inst":\s*"(\w+)\s+([^"]*)"', line)
        if not mm or "x{" not in mm.group(2): continue
        name, ops = mm.group(1), mm.group(2)
        tm = re.search(r'"t":\s*"([^"]+)"', line)
        arrs = tm.group(1).split() if tm else [None]
        parts = [p.strip() for p in re.split(r",\s*(?![^\[]*\])", ops)]
        lst = [(j, re.match(r"(\d)x\{V\w+\.(\w+)\}\+?(\[#idx\])?$", p)) for j, p in enumerate(parts)]
        lst = [(j, q) for j, q in lst if q]
        if len(lst) != 1 or name not in ids:
            skipped[name] += 1; continue
        j, q = lst[0]
        cnt, el, lane = int(q.group(1)), q.group(2), q.group(3)
        for arr in arrs[:2]:
            for first in (0, 5, 30):
                o = []
                ok = True
                for jj, p in enumerate(parts):
                    if jj == j:
                        regs = [(first + t) % 32 for t in range(cnt)]
                        if lane: o.append({"k": "v", "t": "v", "ids": regs, "arr": el, "ei": 1})
                        else: o.append({"k": "v", "t": "v", "ids": regs, "arr": arr if el == "t" else el, "ei": -1})
                    elif re.match(r"V\w+\.(\w+)$", p):
                        a = re.match(r"V\w+\.(\w+)$", p).group(1)
                        a = arr if a in ("t", "ta", "tb") else a
                        o.append({"k": "v", "t": "v", "id": 9, "arr": a, "ei": -1})
                    elif p.startswith("["):
                        if "Xm" in p: o.append({"k": "m", "b": 3, "bsp": 0, "mode": "post", "off": 0, "xi": 7, "xt": "x", "xsp": 0, "sh": "", "amt": -1})
                        elif "#off" in p:
                            n = re.search(r"#off==?(\d+)", p)
                            o.append({"k": "m", "b": 3, "bsp": 0, "mode": "post", "off": int(n.group(1)) if n else 0, "xi": -1, "xt": "x", "xsp": 0, "sh": "", "amt": -1})
                        else: o.append({"k": "m", "b": 3, "bsp": 0, "mode": "o", "off": 0, "xi": -1, "xt": "x", "xsp": 0, "sh": "", "amt": -1})
                    else:
                        ok = False
                if not ok:
                    skipped[name] += 1; continue
                cases.append({"n": name, "iid": ids[name], "o": o, "cnt": cnt, "lead": j + 1, "row": mm.group(0)[9:-1].strip()})
    return cases, skipped


def run_a64(ctx, bdir, env):
    cases, skipped = a64_cases(ctx)
    cp, op = ctx.path("a64_cases.ndjson"), ctx.path("a64_obs.ndjson")
    vlib.write_ndjson(cp, cases)
    rc, _, err = vlib.run_harness(ctx, bdir, "rwinfo", ["a64", cp, op], timeout=600)
    if rc != 0:
        raise Broken(f"rwinfo a64 failed rc={rc}: {err[-800:]}")
    obs = [json.loads(l) for l in open(op)]
    recs = []
    for c, o in zip(cases, obs):
        r = {"n": c["n"], "built": bool(o.get("built")), "cnt": c["cnt"], "lead": c["lead"], "e": o.get("e", 1), "rw": o.get("rw", []), "row": c["row"],
             "kinds": o.get("kinds", [])}
        if r["built"] and o.get("val", 1) != 0:
            continue                # not an instruction the library accepts (C13's question)
        recs.append(r)
    rej, _ = tlc_pointwise(ctx, recs, "a64", "a64", env, 1, workers=4)
    groups = collections.OrderedDict()
    for k, fails in rej:
        r = recs[k]
        for clause, arg in fails:
            groups.setdefault(f"a64:consecutive-run-not-reported:{r['n']}", []).append((r, clause, arg))
    return recs, groups, skipped


# ======================================================================================================================
def prepare(ctx, bdir, rw, obs_lines, forms, names):
    """scope filter + bookkeeping.  Returns list of observation dicts in scope and accepted by validate."""
    kept = []
    stats = collections.Counter()
    names_out = collections.defaultdict(set)
    for l in obs_lines:
        o = json.loads(l)
        f = rw[o["f"] - 1]
        why = scope_of(f)
        if why:
            stats["out-of-scope: " + why] += 1; names_out[why].add(o["n"]); continue
        if o["val"] != 0:
            stats["not accepted by InstAPI::validate"] += 1; continue
        if o.get("dim") == "sel" and o.get("ae", 1) != 0:
            stats["encoding selector refused by the assembler (nothing to judge)"] += 1; continue
        if needs_evex_row(o) and not has_evex_row(o, rw, forms, names):
            stats["not a database form: vector register id >= 16 / {evex} for a signature without EVEX row (C01/C13)"] += 1; continue
        kept.append(o)
    return kept, stats, names_out


def run(ctx):
    q = ctx.quick
    t0 = time.time()
    fixes = os.path.join(vlib.VERIF, "out", "C12dev")
    rw, forms, names = export_db(ctx)
    bdir = ctx.build("plain", "rwinfo", "rwexec")
    p = subprocess.run([os.path.join(bdir, "rwinfo"), "featnames"], stdout=subprocess.PIPE, text=True, timeout=60)
    open(ctx.path("featnames.json"), "w").write(p.stdout)
    featnames = set(json.loads(p.stdout))
    p = subprocess.run([os.path.join(bdir, "rwexec"), "host"], stdout=subprocess.PIPE, text=True, timeout=60)
    host = json.loads(p.stdout)
    env = {"FORMS": ctx.path("forms.ndjson"), "NAMES": ctx.path("names.json"), "RWFORMS": ctx.path("rwforms.ndjson"), "FEATNAMES": ctx.path("featnames.json")}
    ext_unknown = sorted({e for f in rw for e in f["ext"] if e not in featnames})

    # ---- leg 1 observations -------------------------------------------------------------------------------------
    allp = ctx.path("obs_all.ndjson")
    rc, _, err = vlib.run_harness(ctx, bdir, "rwinfo", ["x86", ctx.path("forms.ndjson"), allp, ctx.tier], timeout=1200, env={"VERIF_SEED": ctx.seed})
    if rc != 0:
        raise Broken(f"rwinfo failed rc={rc}: {err[-1200:]}")
    obs, stats, names_out = prepare(ctx, bdir, rw, open(allp), forms, names)
    os.remove(allp)
    if len(obs) < 5000:
        raise Broken(f"only {len(obs)} observations in scope")
    ctx.log(f"{len(obs)} observations in scope (accepted by validate) of {len({o['f'] for o in obs})} DB rows; {dict(stats)} ({time.time()-t0:.0f}s)")

    # the AArch64 leg is independent: judge it concurrently (its TLC run then does not queue behind the x86 shards)
    a64_pool = concurrent.futures.ThreadPoolExecutor(max_workers=1)
    a64_future = a64_pool.submit(run_a64, ctx, bdir, env)

    # ---- leg 2 execution ----------------------------------------------------------------------------------------
    obsp = ctx.path("obs.ndjson")
    vlib.write_ndjson(obsp, obs)
    states = 16 if q else 64
    xres, restarts = run_exec(ctx, bdir, obsp, len(obs), states, 6)
    skip = collections.Counter()
    skip_names = collections.defaultdict(set)
    groups_ud = collections.defaultdict(list)
    nexec = 0
    for k, o in enumerate(obs):
        r = xres.get(k)
        if r is None:
            o["x"] = {"run": 0}; skip["no result"] += 1; continue
        if "skip" in r:
            o["x"] = {"run": 0}
            why = re.sub(r"child-died-status-\d+", "child died (instruction not containable)", r["skip"])
            skip[why] += 1; skip_names[why].add(o["n"]); continue
        ud = 1 if (r["st"] == 0 and r["sig"] == 4) else 0
        o["x"] = {"run": 1, "st": r["st"], "nd": r["nd"], "ud": ud, "udall": 0, "sig": r["sig"], "faults": r["faults"], "gl": r["gl"], "vl": [v[:1] for v in r["vl"]],
                  "kl": r["kl"], "fc": r["fc"], "ml": r["ml"], "mlo": r["mlo"], "mhi": r["mhi"], "dep": r["dep"]}
        groups_ud[(o["f"], tuple(x["t"] for x in o["ops"]))].append(o)
        nexec += 1
        if r["st"] < 4 or r["nd"]:
            why = "nondeterministic" if r["nd"] else f"faulted in every state (signal {r['sig']})"
            skip[why] += 1; skip_names[why].add(o["n"])
    for g in groups_ud.values():
        if all(o["x"]["ud"] for o in g):
            for o in g: o["x"]["udall"] = 1
    judged2 = [o for o in obs if o["x"]["run"] == 1 and o["x"]["st"] >= 4 and not o["x"]["nd"]]
    ctx.log(f"host execution: {nexec} observations executed ({states} states each), {len(judged2)} judged, {len({o['f'] for o in judged2})} DB rows; "
            f"not executed: {dict(skip.most_common(12))}; child restarts {restarts} ({time.time()-t0:.0f}s)")

    # ---- TLC ----------------------------------------------------------------------------------------------------
    rej, dbv = tlc_pointwise(ctx, obs, "obs", "x86", env, 6 if q else 6, workers=2)
    ctx.log(f"TLC judged {len(obs)} observations: {len(rej)} rejected, {len(dbv)} with processor/database disagreements ({time.time()-t0:.0f}s)")

    groups = collections.OrderedDict()
    for k, fails in rej:
        for clause, arg in fails:
            groups.setdefault(key_of(clause, arg, obs[k]), []).append((k, clause, arg))
    rdir = ctx.path("rejects")           # replay runs use their own scratch directory (out/C12_replay), so these files survive
    os.makedirs(rdir, exist_ok=True)
    dbv_by = collections.defaultdict(list)
    for k, fails in dbv:
        for clause, arg in fails:
            dbv_by[k].append((clause, arg))
    summary = {}
    for key, items in groups.items():
        k, clause, arg = items[0]
        o = obs[k]
        f = rw[o["f"] - 1]
        j = arg - 1 if (0 < arg <= len(o["ops"]) and not clause.startswith("x-") and not clause.startswith("flag")) else None
        what = (f"{describe(o)}: clause {clause}{' ' + clause_arg_text(clause, arg, o) if clause_arg_text(clause, arg, o) else ''} fails against DB row {f['id']} "
                f"[{f['name']} {f['ops_s']} | {f['opcode']} | io {' '.join(a + '=' + b for a, b in f['io']) or '-'} | ext {' '.join(f['ext']) or '-'}]; asmjit reports "
                + " ".join(report_str(o, jj) for jj in range(len(o["rw"])) if o["ops"][jj]["t"] != "i")
                + f" write_flags={'|'.join(n for b, n in FLAGN.items() if o.get('wf', 0) & b) or '-'} features={','.join(o['feat']) or '-'}")
        if clause.startswith("x-"):
            x = o["x"]
            what += (f"; processor ({x['st']} states): changed gp={[(GP64[a], hex(b)) for a, b in x['gl']]} vec={[v[0] for v in x['vl']]} k={[v[0] for v in x['kl']]} "
                     f"flags={'|'.join(n for b, n in FLAGN.items() if x['fc'] & b) or '-'} mem={'[%d,%d]' % (x['mlo'], x['mhi']) if x['ml'] else '-'}; depends on "
                     + (", ".join(f"{d['t']}{d['id']}:{hex(d['m'])}" for d in x["dep"]) or "-"))
            both = [c for c, a in dbv_by.get(k, []) if c == "d-" + clause[2:]]
            what += "; the DB row's annotation does not cover it either (DB-annotation error)" if both else "; the DB row's annotation covers it (table / API error)"
        safe = re.sub(r"[^A-Za-z0-9_.+-]", "_", key)[:160]
        rp = os.path.join(rdir, f"reject_{safe}.ndjson")
        vlib.write_ndjson(rp, [{kk: vv for kk, vv in obs[i].items() if kk != "x"} for i, _, _ in items[:20]])
        summary[key] = {"observations": len(items)}
        if key in ctx.known:
            ctx.known_finding(key, ctx.known[key] + f" [{len(items)} observation(s) in this run]")
        else:
            ctx.violation(f"{key}: {len(items)} observation(s), e.g. {what}", rp)

    # ---- AArch64 register lists ---------------------------------------------------------------------------------
    a64recs, a64groups, a64skipped = a64_future.result()
    a64_pool.shutdown()
    for key, items in a64groups.items():
        r, clause, arg = items[0]
        msg = (f"{len(items)} case(s), e.g. DB row `{r['row']}` ({r['cnt']}-register list starting at operand {r['lead'] - 1}): clause {clause} op{arg - 1}; asmjit reports "
               + " ".join(f"op{j}={{fl=0x{x['fl']:x} lead={x['cl']}}}" for j, x in enumerate(r["rw"])))
        rp = os.path.join(rdir, "reject_" + re.sub(r"[^A-Za-z0-9_.+-]", "_", key) + ".ndjson")
        vlib.write_ndjson(rp, [x[0] for x in items[:10]])
        if key in ctx.known:
            ctx.known_finding(key, ctx.known[key] + f" [{len(items)} case(s) in this run]")
        else:
            ctx.violation(f"{key}: {msg}", rp)
    ctx.log(f"AArch64 register lists: {len(a64recs)} cases of {len({r['row'] for r in a64recs})} DB rows judged, {len(a64groups)} rejection classes ({time.time()-t0:.0f}s)")

    # ---- evidence -----------------------------------------------------------------------------------------------
    dbv_classes = collections.Counter()
    dbv_examples = {}
    for k, fails in dbv:
        for clause, arg in fails:
            kk = key_of(clause, arg, obs[k])
            dbv_classes[kk] += 1
            dbv_examples.setdefault(kk, describe(obs[k]))
    # feature observations by sweep dimension / boundary id pattern / emitted encoding kind
    def em_kind(o):
        b = list(o.get("b", []))
        while b and b[0] in (0x66, 0x67, 0xF0, 0xF2, 0xF3, 0x26, 0x2E, 0x36, 0x3E, 0x64, 0x65): b.pop(0)
        if o.get("ae", 1) != 0 or not b: return "not-emitted"
        return {0x62: "EVEX", 0xC4: "VEX", 0xC5: "VEX", 0x8F: "XOP-or-pop"}.get(b[0], "legacy")
    dims = collections.Counter(o.get("dim", "base") for o in obs)
    kinds = collections.Counter((o.get("dim", "base"), em_kind(o)) for o in obs)
    bid_pat = collections.Counter()
    bid_forms = set()
    for o in obs:
        if o.get("dim") == "bid":
            bid_forms.add(o["f"])
            for j, x in enumerate(o["ops"]):
                if x["t"] == "r" and x["c"] in ("xmm", "ymm", "zmm") and x["id"] in (0, 7, 8, 15, 16, 17, 31):
                    bid_pat[f"{x['c']}{x['id']}@op{j}:{em_kind(o)}:{'+'.join(o['feat'][:4])}"] += 1
    inscope_rows = {f["id"] for f in rw if not scope_of(f)}
    rows1 = {o["f"] for o in obs}
    rows2 = {o["f"] for o in judged2}
    for o in obs:
        ctx.distinct.add((o["f"], o["m"], tuple(op_sig(x) for x in o["ops"]), o["k"] > 0, o["z"]))
    ctx.evaluations = len(obs) + len(a64recs)
    ctx.extra.update({
        "host_cpu_features": host,
        "observations_by_dimension": dict(dims), "observations_by_dimension_and_emitted_encoding": {f"{a}:{b}": c for (a, b), c in kinds.most_common()},
        "boundary_id_rows": len(bid_forms), "boundary_id_feature_observations": dict(bid_pat.most_common(400)),
        "db_rows_total": len(rw), "db_rows_in_scope": len(inscope_rows), "db_rows_judged_leg1": len(rows1), "db_rows_executed_leg2": len(rows2),
        "observations_leg1": len(obs), "observations_executed_leg2": len(judged2), "states_per_observation": states,
        "out_of_scope": {k: v for k, v in stats.items()}, "out_of_scope_instructions": {k: sorted(v)[:400] for k, v in names_out.items()},
        "db_rows_in_scope_never_accepted": sorted({rw[i - 1]["name"] for i in inscope_rows - rows1})[:600],
        "leg2_not_executed": {k: {"observations": v, "instructions": sorted(skip_names[k])[:300]} for k, v in skip.most_common()},
        "ext_names_unknown_to_the_library": ext_unknown,
        "rejection_classes": summary,
        "processor_vs_database_disagreements": {k: {"observations": v, "example": dbv_examples[k]} for k, v in dbv_classes.most_common(300)},
        "a64_register_list_cases": len(a64recs), "a64_rows_not_built": dict(a64skipped),
    })
    for o in judged2[:: max(1, len(judged2) // 6)][:6]:
        ctx.add_sample({"observation": describe(o), "changed": {"gp": o["x"]["gl"], "flags": o["x"]["fc"]}, "depends": [f"{d['t']}{d['id']}" for d in o["x"]["dep"]]}, limit=8)
    ctx.assumptions += [
        "leg 1 takes the ISA database annotations plus the width rules of RWInfo.tla as the architectural record; leg 2 validates both against the host CPU for the executed rows",
        "host execution covers 64-bit mode only; x87/MMX/segment/control/debug/AMX operands, implicit-memory (string) forms, VSIB gathers/scatters, stack and system instructions are judged by leg 1 only (listed under leg2_not_executed)",
        "a dependency is only reported when a perturbation changes an output byte that is not a pass-through of the perturbed bytes; undefined flags (io=U) and the bsf/bsr destination for a zero source are discounted",
        "features: the reported set must contain the ext list of SOME database row with this operand signature (the assembler is free to choose among encodings)",
        "plain -O1 build of the working tree",
    ]
    vlib.write_evidence(
        ctx, "model_checking",
        rule="evaluations = observations of InstAPI::query_rw_info/query_features (x86 rows x modes x operand alternatives x register assignments x masks) plus AArch64 list cases, each "
             "judged by TLC as one initial state of RWInfoObs.tla; distinct = distinct (row, mode, operand signature, masking) keys; states/transitions from TLC",
        explanation="pointwise conformance checking: RWInfo.tla derives the architectural access record of a database row and checks inclusions against the library's report; the "
                    "host-execution records (changed / depends sets measured on the processor) are judged by the same TLC run against the report and against the DB-derived record",
        exhaustive=False,
        trusted_base=["TLC", "spec/isa/RWInfo.tla", "tools/db_export_x86.js + tools/db_export_x86_rw.js + db/x86.js (DB reader of the repository)",
                      "harness/rwinfo.cpp (records the reports)", "harness/rwexec.cpp (state load/store stub, perturbation analysis)", "the host CPU"])


def replay(ctx, path):
    rw, forms, names = export_db(ctx)
    bdir = ctx.build("plain", "rwinfo", "rwexec")
    p = subprocess.run([os.path.join(bdir, "rwinfo"), "featnames"], stdout=subprocess.PIPE, text=True, timeout=60)
    open(ctx.path("featnames.json"), "w").write(p.stdout)
    env = {"FORMS": ctx.path("forms.ndjson"), "NAMES": ctx.path("names.json"), "RWFORMS": ctx.path("rwforms.ndjson"), "FEATNAMES": ctx.path("featnames.json")}
    first = json.loads(open(path).readline())
    if "cnt" in first:          # AArch64 case
        recs, groups, _ = run_a64(ctx, bdir, env)
        ctx.evaluations = len(recs)
        for key, items in list(groups.items())[:1]:
            ctx.violation(f"{key}: {items[0][0]['row']}", path)
        return
    again = ctx.path("replay.again.ndjson")
    rc, _, err = vlib.run_harness(ctx, bdir, "rwinfo", ["x86replay", path, again], timeout=600)
    if rc != 0:
        raise Broken(f"rwinfo replay failed rc={rc}: {err[-800:]}")
    obs = [json.loads(l) for l in open(again)]
    xres, _ = run_exec(ctx, bdir, again, len(obs), 16, 1)
    for k, o in enumerate(obs):
        r = xres.get(k, {"skip": "none"})
        if "skip" in r: o["x"] = {"run": 0}
        else:
            ud = 1 if (r["st"] == 0 and r["sig"] == 4) else 0
            o["x"] = {"run": 1, "st": r["st"], "nd": r["nd"], "ud": ud, "udall": ud, "sig": r["sig"], "faults": r["faults"], "gl": r["gl"], "vl": [v[:1] for v in r["vl"]],
                      "kl": r["kl"], "fc": r["fc"], "ml": r["ml"], "mlo": r["mlo"], "mhi": r["mhi"], "dep": r["dep"]}
    rej, _ = tlc_pointwise(ctx, obs, "replay", "x86", env, 1)
    ctx.evaluations = len(obs)
    for k, fails in rej[:1]:
        ctx.violation(f"{key_of(fails[0][0], fails[0][1], obs[k])}: {describe(obs[k])} [clauses {fails}]", again)
