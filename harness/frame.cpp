// C07 harness: function frames, prologs and epilogs.  It computes nothing: it feeds a configuration to the real asmjit
// code (FuncDetail::init, FuncFrame::init/.../finalize, BaseEmitter::emit_prolog/emit_epilog into a Builder) and logs
// what the code answered: the frame record (FuncFrame accessors) and the two instruction lists (mnemonic + operand
// shapes).  spec/func/FrameTrace.tla executes the lists on the abstract machine of spec/func/FrameMachine.tla.
//
//   frame script <configs.ndjson> <out.ndjson>
//   frame random <out.ndjson> <count>            (seed: VERIF_SEED)
//
// configuration (one JSON object per line):
//   {"env":"x64-sysv|x64-win|x86-sysv|x86-win|a64-aapcs|a64-apple","cc":"cdecl|stdcall|...",
//    "d":[[gp ids],[vec ids],[k ids],[mm ids]]   registers the body clobbers (added to the frame's dirty sets)
//    "ls":local size,"la":local alignment (0 = not set),"cs":call stack size,"ca":call stack alignment (0 = not set),
//    "fp":0|1 preserved frame pointer,"avx":0|1|2 (2 = AVX+AVX-512),"mmx":0|1 (emms),"avxc":0|1|2 (vzeroupper: no/always/auto),
//    "nargs":number of pointer-sized integer arguments,"sa":255|reg id (stack-arguments base register),
//    "calls":0|1 (function calls other functions),"ibt":0|1,
//    "cp":[[ ],[vec ids],[k ids],[mm ids]]       user-defined convention: registers ADDED to the preserved sets}
#include <asmjit/core.h>
#include <asmjit/x86.h>
#include <asmjit/a64.h>
#include "vjson.h"
#include <string>

using namespace asmjit;

static const char* err_name(Error e) {
  switch (e) {
    case Error::kOk: return "Ok";
    case Error::kOutOfMemory: return "OutOfMemory";
    case Error::kInvalidArgument: return "InvalidArgument";
    case Error::kInvalidState: return "InvalidState";
    case Error::kInvalidArch: return "InvalidArch";
    case Error::kNotInitialized: return "NotInitialized";
    default: return "Other";
  }
}

static bool env_from_name(const std::string& s, Environment& env) {
  if (s == "x64-sysv") env = Environment(Arch::kX64, SubArch::kUnknown, Vendor::kUnknown, Platform::kLinux, PlatformABI::kGNU, ObjectFormat::kELF);
  else if (s == "x64-win") env = Environment(Arch::kX64, SubArch::kUnknown, Vendor::kUnknown, Platform::kWindows, PlatformABI::kMSVC, ObjectFormat::kCOFF);
  else if (s == "x86-sysv") env = Environment(Arch::kX86, SubArch::kUnknown, Vendor::kUnknown, Platform::kLinux, PlatformABI::kGNU, ObjectFormat::kELF);
  else if (s == "x86-win") env = Environment(Arch::kX86, SubArch::kUnknown, Vendor::kUnknown, Platform::kWindows, PlatformABI::kMSVC, ObjectFormat::kCOFF);
  else if (s == "a64-aapcs") env = Environment(Arch::kAArch64, SubArch::kUnknown, Vendor::kUnknown, Platform::kLinux, PlatformABI::kGNU, ObjectFormat::kELF);
  else if (s == "a64-apple") env = Environment(Arch::kAArch64, SubArch::kUnknown, Vendor::kUnknown, Platform::kOSX, PlatformABI::kDarwin, ObjectFormat::kMachO);
  else return false;
  return true;
}

struct ConvName { const char* name; CallConvId id; };
static const ConvName kConvs[] = {
  {"cdecl", CallConvId::kCDecl}, {"stdcall", CallConvId::kStdCall}, {"fastcall", CallConvId::kFastCall},
  {"vectorcall", CallConvId::kVectorCall}, {"thiscall", CallConvId::kThisCall},
  {"regparm1", CallConvId::kRegParm1}, {"regparm2", CallConvId::kRegParm2}, {"regparm3", CallConvId::kRegParm3},
  {"lightcall2", CallConvId::kLightCall2}, {"lightcall3", CallConvId::kLightCall3}, {"lightcall4", CallConvId::kLightCall4},
  {"x64sysv", CallConvId::kX64SystemV}, {"x64win", CallConvId::kX64Windows},
};
static bool conv_from_name(const std::string& s, CallConvId& out) {
  for (auto& c : kConvs) if (s == c.name) { out = c.id; return true; }
  return false;
}
static std::string conv_name(CallConvId id) {
  for (auto& c : kConvs) if (c.id == id) return c.name;
  return "cc" + std::to_string(unsigned(id));
}

static uint32_t mask_of(const vj::Value& ids) {
  uint32_t m = 0;
  for (auto& v : ids.arr) if (v.i() >= 0 && v.i() < 32) m |= 1u << unsigned(v.i());
  return m;
}
static void put_ids(vj::W& w, uint32_t m) {
  w.beginArr();
  for (unsigned i = 0; i < 32; i++) if (m & (1u << i)) w.val(i);
  w.endArr();
}
static void put_masks(vj::W& w, const char* k, uint32_t a, uint32_t b, uint32_t c, uint32_t d) {
  w.key(k).beginArr();
  put_ids(w, a); put_ids(w, b); put_ids(w, c); put_ids(w, d);
  w.endArr();
}
static long long off_or_m1(uint32_t v) { return v == 0xFFFFFFFFu ? -1LL : (long long)v; }

// operand shape: {"t":"r"|"m"|"i"|"o", "g":group (reg) / base group (mem), "id":reg id / base id, "sz":size in bytes,
//                 "off":displacement (mem) / value (imm), "mode":0 fixed|1 pre-index|2 post-index, "x":has index / no base}
static void put_operand(vj::W& w, const Operand_& op, bool is_a64) {
  w.beginObj();
  if (op.is_reg()) {
    const Reg& r = op.as<Reg>();
    w.kv("t", "r").kv("g", unsigned(r.reg_group())).kv("id", r.id()).kv("sz", (unsigned)r.size()).kv("off", 0).kv("mode", 0).kv("x", false);
  }
  else if (op.is_mem()) {
    const BaseMem& m = op.as<BaseMem>();
    bool simple = m.has_base_reg() && !m.has_index();
    long long d = m.offset();
    if (d > 100000000 || d < -100000000) { simple = false; d = 0; }
    unsigned mode = 0;
    if (is_a64) {
      const a64::Mem& am = op.as<a64::Mem>();
      mode = am.is_pre_index() ? 1u : am.is_post_index() ? 2u : 0u;
    }
    w.kv("t", "m").kv("g", 0).kv("id", m.has_base_reg() ? m.base_id() : 0u).kv("sz", (unsigned)op.signature().size())
     .kv("off", d).kv("mode", mode).kv("x", !simple);
  }
  else if (op.is_imm()) {
    long long v = op.as<Imm>().value();
    bool big = v > 100000000 || v < -100000000;
    w.kv("t", "i").kv("g", 0).kv("id", 0).kv("sz", 0).kv("off", big ? 0 : v).kv("mode", 0).kv("x", big);
  }
  else {
    w.kv("t", "o").kv("g", 0).kv("id", 0).kv("sz", 0).kv("off", 0).kv("mode", 0).kv("x", true);
  }
  w.endObj();
}

template<typename BuilderT>
static unsigned put_insts(vj::W& w, const char* key, BuilderT& b, BaseNode* after, BaseNode* until, const Environment& env, bool& foreign) {
  w.key(key).beginArr();
  unsigned n = 0;
  if (after != until || !after) {
    for (BaseNode* nd = after ? after->next() : b.first_node(); nd; nd = nd->next()) {
      if (nd->is_inst()) {
        InstNode* in_ = nd->as<InstNode>();
        String name;
        InstAPI::inst_id_to_string(env.arch(), in_->inst_id(), InstStringifyOptions::kNone, name);
        w.beginObj().kv("m", name.data());
        w.key("o").beginArr();
        for (const Operand& op : in_->operands()) put_operand(w, op, env.is_family_aarch64());
        w.endArr().endObj();
        n++;
      }
      else if (nd->type() != NodeType::kComment) {
        foreign = true;
      }
      if (nd == until) break;
    }
  }
  w.endArr();
  return n;
}

static void put_cfg_echo(vj::W& w, const vj::Value& in) {
  auto num = [&](const char* k, long long dflt) { w.kv(k, in.has(k) ? in[k].i() : dflt); };
  auto sets = [&](const char* k) {
    w.key(k).beginArr();
    for (unsigned g = 0; g < 4; g++) {
      w.beginArr();
      if (in.has(k) && g < in[k].arr.size()) for (auto& v : in[k].arr[g].arr) w.val(v.i());
      w.endArr();
    }
    w.endArr();
  };
  w.key("cfg").beginObj().kv("env", in["env"].s()).kv("cc", in["cc"].s());
  sets("d");
  num("ls", 0); num("la", 0); num("cs", 0); num("ca", 0); num("fp", 0); num("avx", 0); num("mmx", 0); num("avxc", 0);
  num("nargs", 0); num("sa", 255); num("calls", 0); num("ibt", 0);
  sets("cp");
  w.endObj();
}

template<typename BuilderT, typename AssemblerT>
static void run_config(const vj::Value& in, const Environment& env, FILE* out) {
  vj::W w;
  auto geti = [&](const char* k, long long dflt) { return in.has(k) ? in[k].i() : dflt; };
  CallConvId ccid;
  if (!conv_from_name(in["cc"].s(), ccid)) { fprintf(stderr, "bad cc\n"); exit(3); }

  w.beginObj();
  put_cfg_echo(w, in);
  w.kv("family", env.is_family_x86() ? "x86" : "a64").kv("bits", env.is_32bit() ? 32 : 64);

  FuncSignature sig;
  sig.set_call_conv_id(ccid);
  sig.set_ret(TypeId::kVoid);
  unsigned nargs = (unsigned)geti("nargs", 0);
  for (unsigned i = 0; i < nargs && sig.can_add_arg(); i++) sig.add_arg(TypeId::kIntPtr);

  CodeHolder code;
  code.init(env);
  BuilderT b(&code);

  FuncDetail fd;
  Error e_fd = fd.init(sig, env);
  bool custom = false;
  if (e_fd == Error::kOk && in.has("cp")) {
    // a user-defined convention: CallConv is publicly customisable; registers are ADDED to the preserved sets
    for (unsigned g = 1; g < 4 && g < in["cp"].arr.size(); g++) {
      uint32_t m = mask_of(in["cp"].arr[g]);
      if (m) { fd._call_conv.set_preserved_regs(RegGroup(g), fd._call_conv.preserved_regs(RegGroup(g)) | m); custom = true; }
    }
  }
  FuncFrame frame;
  Error e_fi = Error::kOk, e_fin = Error::kOk, e_pro = Error::kOk, e_epi = Error::kOk, e_enc = Error::kOk;
  if (e_fd == Error::kOk) {
    e_fi = frame.init(fd);
    if (e_fi == Error::kOk) {
      if (in.has("d")) for (unsigned g = 0; g < 4 && g < in["d"].arr.size(); g++) frame.add_dirty_regs(RegGroup(g), mask_of(in["d"].arr[g]));
      if (geti("ls", 0)) frame.set_local_stack_size((uint32_t)geti("ls", 0));
      if (geti("la", 0)) frame.set_local_stack_alignment((uint32_t)geti("la", 0));
      if (geti("cs", 0)) frame.update_call_stack_size((uint32_t)geti("cs", 0));
      if (geti("ca", 0)) frame.update_call_stack_alignment((uint32_t)geti("ca", 0));
      if (geti("fp", 0)) frame.set_preserved_fp();
      if (geti("avx", 0) >= 1) frame.set_avx_enabled();
      if (geti("avx", 0) >= 2) frame.set_avx512_enabled();
      if (geti("mmx", 0)) frame.set_mmx_cleanup();
      if (geti("avxc", 0) == 1) frame.set_avx_cleanup();
      if (geti("avxc", 0) == 2) frame.set_avx_auto_cleanup();
      if (geti("calls", 0)) frame.set_func_calls();
      if (geti("ibt", 0)) frame.set_indirect_branch_protection();
      if (geti("sa", 255) != 255) frame.set_sa_reg_id((uint32_t)geti("sa", 255));
      e_fin = frame.finalize();
    }
  }

  BaseNode* start = b.last_node();
  BaseNode* mid = start;
  bool emitted = false;
  if (e_fd == Error::kOk && e_fi == Error::kOk && e_fin == Error::kOk) {
    e_pro = b.emit_prolog(frame);
    mid = b.last_node();
    e_epi = b.emit_epilog(frame);
    emitted = true;
  }

  const CallConv& cc = fd.call_conv();
  const ArchTraits& at = ArchTraits::by_arch(env.arch());
  unsigned regsize = env.is_32bit() ? 4 : 8;

  // the convention as the code materialised it
  w.key("cc").beginObj().kv("id", conv_name(cc.id())).kv("custom", custom).kv("nat", cc.natural_stack_alignment())
   .kv("red", cc.red_zone_size()).kv("spill", cc.spill_zone_size()).kv("pops", cc.has_flag(CallConvFlags::kCalleePopsStack));
  put_masks(w, "pres", cc.preserved_regs(RegGroup::kGp), cc.preserved_regs(RegGroup::kVec), cc.preserved_regs(RegGroup::kMask), cc.preserved_regs(RegGroup(3)));
  w.key("srsize").beginArr();
  for (unsigned g = 0; g < 4; g++) w.val(cc.save_restore_reg_size(RegGroup(g)));
  w.endArr().endObj();

  // the signature as the code expanded it: offsets of the stack-passed arguments
  w.key("fd").beginObj().kv("argstack", e_fd == Error::kOk ? fd.arg_stack_size() : 0u);
  w.key("stackargs").beginArr();
  if (e_fd == Error::kOk) for (unsigned i = 0; i < fd.arg_count(); i++) {
    const FuncValue& v = fd.arg(i, 0);
    if (v.is_stack()) w.val((long long)v.stack_offset());
  }
  w.endArr().endObj();

  // the frame record: every accessor, nothing derived
  w.key("fr").beginObj()
   .kv("regsize", regsize).kv("retsize", at.has_link_reg() ? 0u : regsize)
   .kv("sp", at.sp_reg_id()).kv("fpreg", at.fp_reg_id()).kv("lr", at.has_link_reg() ? (long long)at.link_reg_id() : -1LL)
   .kv("sa_reg", frame.sa_reg_id()).kv("has_fp", frame.has_preserved_fp()).kv("has_da", frame.has_dynamic_alignment())
   .kv("nat", frame.natural_stack_alignment()).kv("mindyn", frame.min_dynamic_alignment())
   .kv("red", frame.red_zone_size()).kv("spill", frame.spill_zone_size())
   .kv("call_align", frame.call_stack_alignment()).kv("local_align", frame.local_stack_alignment()).kv("final_align", frame.final_stack_alignment())
   .kv("cleanup", frame.callee_stack_cleanup())
   .kv("call_size", frame.call_stack_size()).kv("local_size", frame.local_stack_size()).kv("final_size", frame.final_stack_size())
   .kv("local_off", frame.local_stack_offset())
   .kv("has_da_off", frame.has_da_offset()).kv("da_off", off_or_m1(frame.da_offset()))
   .kv("sa_sp", off_or_m1(frame.sa_offset_from_sp())).kv("sa_sa", off_or_m1(frame.sa_offset_from_sa()))
   .kv("adj", frame.stack_adjustment())
   .kv("pp_size", frame.push_pop_save_size()).kv("pp_off", frame.push_pop_save_offset())
   .kv("ex_size", frame.extra_reg_save_size()).kv("ex_off", frame.extra_reg_save_offset())
   .kv("avx", frame.is_avx_enabled()).kv("avx512", frame.is_avx512_enabled()).kv("aligned_vec", frame.has_aligned_vec_save_restore())
   .kv("calls", frame.has_func_calls());
  put_masks(w, "dirty", frame.dirty_regs(RegGroup::kGp), frame.dirty_regs(RegGroup::kVec), frame.dirty_regs(RegGroup::kMask), frame.dirty_regs(RegGroup(3)));
  put_masks(w, "pres", frame.preserved_regs(RegGroup::kGp), frame.preserved_regs(RegGroup::kVec), frame.preserved_regs(RegGroup::kMask), frame.preserved_regs(RegGroup(3)));
  put_masks(w, "saved", frame.saved_regs(RegGroup::kGp), frame.saved_regs(RegGroup::kVec), frame.saved_regs(RegGroup::kMask), frame.saved_regs(RegGroup(3)));
  w.key("srsize").beginArr();
  for (unsigned g = 0; g < 4; g++) w.val(frame.save_restore_reg_size(RegGroup(g)));
  w.endArr();
  w.endObj();

  // the instruction lists
  bool foreign = false;
  unsigned np = 0, ne = 0;
  if (emitted) {
    // prolog = nodes (start, mid], epilog = nodes after mid
    if (mid != start) np = put_insts(w, "pro", b, start, mid, env, foreign);
    else w.key("pro").beginArr().endArr();
    if (b.last_node() != mid) ne = put_insts(w, "epi", b, mid, (BaseNode*)nullptr, env, foreign);
    else w.key("epi").beginArr().endArr();
  }
  else {
    w.key("pro").beginArr().endArr();
    w.key("epi").beginArr().endArr();
  }
  w.kv("npro", np).kv("nepi", ne).kv("foreign", foreign);

  // can an Assembler encode every emitted instruction?
  if (e_pro == Error::kOk && e_epi == Error::kOk && (np + ne) > 0) {
    AssemblerT a(&code);
    e_enc = b.serialize_to(&a);
  }
  w.key("err").beginObj().kv("fd", err_name(e_fd)).kv("fi", err_name(e_fi)).kv("fin", err_name(e_fin))
   .kv("pro", err_name(e_pro)).kv("epi", err_name(e_epi)).kv("enc", err_name(e_enc)).endObj();
  w.endObj().emit(out);
}

static void dispatch(const vj::Value& in, FILE* out) {
  Environment env;
  if (!env_from_name(in["env"].s(), env)) { fprintf(stderr, "bad env\n"); exit(3); }
  if (env.is_family_x86()) run_config<x86::Builder, x86::Assembler>(in, env, out);
  else run_config<a64::Builder, a64::Assembler>(in, env, out);
}

// ---------------------------------------------------------------------------------------------------------------------
// random configurations from the wider space (arbitrary masks, sizes 0..65535, alignments 1..64)
// ---------------------------------------------------------------------------------------------------------------------
static std::string ids_json(uint32_t m) {
  std::string s = "[";
  bool first = true;
  for (unsigned i = 0; i < 32; i++) if (m & (1u << i)) { if (!first) s += ","; s += std::to_string(i); first = false; }
  return s + "]";
}

static std::string random_config(vj::Rng& r) {
  static const char* envs[] = {"x64-sysv", "x64-win", "x86-sysv", "x86-win", "a64-aapcs", "a64-apple"};
  static const char* ccs86[] = {"cdecl", "stdcall", "fastcall", "vectorcall", "thiscall", "regparm1", "regparm2", "regparm3", "lightcall2", "lightcall3", "lightcall4"};
  static const char* ccs64[] = {"cdecl", "x64sysv", "x64win", "vectorcall", "lightcall2", "lightcall3", "lightcall4", "stdcall", "fastcall"};
  static const char* ccsa64[] = {"cdecl", "cdecl", "cdecl", "lightcall2", "lightcall3", "lightcall4"};
  unsigned e = (unsigned)r.below(6);
  bool is86 = e == 2 || e == 3, isa = e >= 4;
  const char* cc = is86 ? ccs86[r.below(11)] : isa ? ccsa64[r.below(6)] : ccs64[r.below(9)];
  unsigned nregs_gp = is86 ? 8 : isa ? 31 : 16;
  unsigned nregs_vec = is86 ? 8 : 32;
  auto rmask = [&](unsigned n) -> uint32_t {
    unsigned k = (unsigned)r.below(5);
    uint32_t all = n >= 32 ? 0xFFFFFFFFu : ((1u << n) - 1);
    uint32_t m = k == 0 ? 0 : k == 1 ? (uint32_t)r.next() : k == 2 ? (uint32_t)(r.next() & r.next()) : k == 3 ? 0xFFFFFFFFu : (1u << r.below(n));
    return m & all;
  };
  uint32_t dgp = rmask(nregs_gp), dvec = rmask(nregs_vec), dk = isa ? 0 : (r.chance(1, 3) ? rmask(8) : 0), dmm = isa ? 0 : (r.chance(1, 4) ? rmask(8) : 0);
  // the stack pointer is never a body-clobbered register
  dgp &= ~(1u << (isa ? 31 : 4));
  static const unsigned sizes[] = {0, 0, 1, 4, 8, 12, 16, 24, 40, 100, 128, 136, 1000, 4088, 4096, 4104, 32768, 65528, 65535};
  unsigned ls = r.chance(1, 3) ? (unsigned)r.below(65536) : sizes[r.below(19)];
  unsigned cs = r.chance(1, 2) ? 0 : r.chance(1, 2) ? (unsigned)r.below(512) : sizes[r.below(13)];
  static const unsigned aligns[] = {0, 0, 1, 2, 4, 8, 16, 32, 64};
  unsigned la = aligns[r.below(9)], ca = aligns[r.below(9)];
  unsigned fp = (unsigned)r.below(2), avx = isa ? 0 : (unsigned)r.below(3), mmx = isa ? 0 : (unsigned)r.chance(1, 5), avxc = isa ? 0 : (unsigned)r.below(3);
  unsigned nargs = r.chance(1, 2) ? 0 : (unsigned)r.below(14);
  unsigned sa = 255;
  if (!isa && r.chance(1, 4)) {
    static const unsigned cand86[] = {0, 1, 2, 3, 6, 7};
    static const unsigned cand64[] = {0, 1, 2, 3, 6, 7, 8, 10, 11, 12, 15};
    sa = is86 ? cand86[r.below(6)] : cand64[r.below(11)];
  }
  if (fp && r.chance(1, 2)) sa = isa ? 29u : 5u;   // what FuncArgsAssignment::update_func_frame() picks with a preserved FP
  unsigned calls = cs ? 1 : (unsigned)r.chance(1, 3);
  unsigned ibt = (unsigned)r.chance(1, 8);
  uint32_t cpv = 0, cpk = 0, cpm = 0;
  if (!isa && r.chance(1, 6)) { cpv = rmask(nregs_vec); cpk = r.chance(1, 2) ? rmask(8) : 0; cpm = r.chance(1, 3) ? rmask(8) : 0; }
  std::string s = "{\"env\":\"" + std::string(envs[e]) + "\",\"cc\":\"" + cc + "\",\"d\":[" + ids_json(dgp) + "," + ids_json(dvec) + "," + ids_json(dk) + "," + ids_json(dmm) + "]";
  s += ",\"ls\":" + std::to_string(ls) + ",\"la\":" + std::to_string(la) + ",\"cs\":" + std::to_string(cs) + ",\"ca\":" + std::to_string(ca);
  s += ",\"fp\":" + std::to_string(fp) + ",\"avx\":" + std::to_string(avx) + ",\"mmx\":" + std::to_string(mmx) + ",\"avxc\":" + std::to_string(avxc);
  s += ",\"nargs\":" + std::to_string(nargs) + ",\"sa\":" + std::to_string(sa) + ",\"calls\":" + std::to_string(calls) + ",\"ibt\":" + std::to_string(ibt);
  s += ",\"cp\":[[]," + ids_json(cpv) + "," + ids_json(cpk) + "," + ids_json(cpm) + "]}";
  return s;
}

int main(int argc, char** argv) {
  if (argc < 4) { fprintf(stderr, "usage: frame script <configs.ndjson> <out.ndjson> | frame random <out.ndjson> <count>\n"); return 3; }
  std::string mode = argv[1];
  if (mode == "script") {
    auto cfgs = vj::read_ndjson(argv[2]);
    FILE* out = fopen(argv[3], "w");
    if (!out) return 3;
    vj::install_abort_handlers(out);
    for (auto& c : cfgs) dispatch(c, out);
    fclose(out);
    return 0;
  }
  if (mode == "random") {
    FILE* out = fopen(argv[2], "w");
    if (!out) return 3;
    vj::install_abort_handlers(out);
    unsigned n = (unsigned)atoi(argv[3]);
    vj::Rng r(vj::env_seed());
    for (unsigned i = 0; i < n; i++) {
      vj::Value c = vj::parse(random_config(r));
      dispatch(c, out);
    }
    fclose(out);
    return 0;
  }
  return 3;
}
