// C07 harness: function frames, prologs and epilogs.  It computes nothing: it feeds a configuration to the real asmjit
// code (FuncDetail::init, FuncFrame::init/.../finalize, BaseEmitter::emit_prolog/emit_epilog into a Builder) and logs
// what the code answered: the frame record (FuncFrame accessors) and the two instruction lists (mnemonic + operand
// shapes).  spec/func/FrameTrace.tla executes the lists on the abstract machine of spec/func/FrameMachine.tla.
//
//   frame script <configs.ndjson> <out.ndjson>
//   frame random <out.ndjson> <count>            (seed: VERIF_SEED)
//
//   frame compiler <out.ndjson>                 frames derived the way the Compiler derives them (BaseRAPass::update_stack_frame)
//
// configuration (one JSON object per line):
//   {"env":"x64-sysv|x64-win|x86-sysv|x86-win|a64-aapcs|a64-apple","cc":"cdecl|stdcall|...",
//    "nargs":number of pointer-sized integer arguments,
//    "cp":[[ ],[vec ids],[k ids],[mm ids]]       user-defined convention: registers ADDED to the preserved sets
//    "ops":[{"op":name,"a":int,"g":group,"ids":[reg ids]},...]   the FuncFrame setter calls, executed IN THIS ORDER between
//          FuncFrame::init() and finalize():  set_ls/update_ls (local stack size), set_la/update_la (local stack alignment),
//          set_cs/update_cs (call stack size), set_ca/update_ca (call stack alignment), add_dirty/set_dirty (g, ids),
//          set_fp/reset_fp, set_calls/reset_calls, set_avx/reset_avx, set_avx512/reset_avx512, set_mmx/reset_mmx,
//          set_avxc/reset_avxc, set_avxauto/reset_avxauto, set_ibt/reset_ibt, set_sa (a = reg id)/reset_sa}
// What the sequence MEANS (set_* assigns, update_* takes the maximum, ...) is stated in FrameMachine.tla, not here.
#include <asmjit/core.h>
#include <asmjit/x86.h>
#include <asmjit/a64.h>
#include <asmjit/core/rastack_p.h>
#include <asmjit/core/rareg_p.h>
#include <asmjit/core/rapass_p.h>
#include <asmjit/x86/x86rapass_p.h>
#include "vjson.h"
#include <vector>
#include <string>

using namespace asmjit;

static const char* err_name(Error e) {
  switch (e) {
    case Error::kOk: return "Ok";
    case Error::kOutOfMemory: return "OutOfMemory";
    case Error::kInvalidArgument: return "InvalidArgument";
    case Error::kInvalidState: return "InvalidState";
    case Error::kInvalidArch: return "InvalidArch";
    case Error::kNotInitialized: return "NotInitialized";
    default: return "Other";
  }
}

static bool env_from_name(const std::string& s, Environment& env) {
  if (s == "x64-sysv") env = Environment(Arch::kX64, SubArch::kUnknown, Vendor::kUnknown, Platform::kLinux, PlatformABI::kGNU, ObjectFormat::kELF);
  else if (s == "x64-win") env = Environment(Arch::kX64, SubArch::kUnknown, Vendor::kUnknown, Platform::kWindows, PlatformABI::kMSVC, ObjectFormat::kCOFF);
  else if (s == "x86-sysv") env = Environment(Arch::kX86, SubArch::kUnknown, Vendor::kUnknown, Platform::kLinux, PlatformABI::kGNU, ObjectFormat::kELF);
  else if (s == "x86-win") env = Environment(Arch::kX86, SubArch::kUnknown, Vendor::kUnknown, Platform::kWindows, PlatformABI::kMSVC, ObjectFormat::kCOFF);
  else if (s == "a64-aapcs") env = Environment(Arch::kAArch64, SubArch::kUnknown, Vendor::kUnknown, Platform::kLinux, PlatformABI::kGNU, ObjectFormat::kELF);
  else if (s == "a64-apple") env = Environment(Arch::kAArch64, SubArch::kUnknown, Vendor::kUnknown, Platform::kOSX, PlatformABI::kDarwin, ObjectFormat::kMachO);
  else return false;
  return true;
}

struct ConvName { const char* name; CallConvId id; };
static const ConvName kConvs[] = {
  {"cdecl", CallConvId::kCDecl}, {"stdcall", CallConvId::kStdCall}, {"fastcall", CallConvId::kFastCall},
  {"vectorcall", CallConvId::kVectorCall}, {"thiscall", CallConvId::kThisCall},
  {"regparm1", CallConvId::kRegParm1}, {"regparm2", CallConvId::kRegParm2}, {"regparm3", CallConvId::kRegParm3},
  {"lightcall2", CallConvId::kLightCall2}, {"lightcall3", CallConvId::kLightCall3}, {"lightcall4", CallConvId::kLightCall4},
  {"x64sysv", CallConvId::kX64SystemV}, {"x64win", CallConvId::kX64Windows},
};
static bool conv_from_name(const std::string& s, CallConvId& out) {
  for (auto& c : kConvs) if (s == c.name) { out = c.id; return true; }
  return false;
}
static std::string conv_name(CallConvId id) {
  for (auto& c : kConvs) if (c.id == id) return c.name;
  return "cc" + std::to_string(unsigned(id));
}

static uint32_t mask_of(const vj::Value& ids) {
  uint32_t m = 0;
  for (auto& v : ids.arr) if (v.i() >= 0 && v.i() < 32) m |= 1u << unsigned(v.i());
  return m;
}
static void put_ids(vj::W& w, uint32_t m) {
  w.beginArr();
  for (unsigned i = 0; i < 32; i++) if (m & (1u << i)) w.val(i);
  w.endArr();
}
static void put_masks(vj::W& w, const char* k, uint32_t a, uint32_t b, uint32_t c, uint32_t d) {
  w.key(k).beginArr();
  put_ids(w, a); put_ids(w, b); put_ids(w, c); put_ids(w, d);
  w.endArr();
}
static long long off_or_m1(uint32_t v) { return v == 0xFFFFFFFFu ? -1LL : (long long)v; }

// operand shape: {"t":"r"|"m"|"i"|"o", "g":group (reg) / base group (mem), "id":reg id / base id, "sz":size in bytes,
//                 "off":displacement (mem) / value (imm), "mode":0 fixed|1 pre-index|2 post-index, "x":has index / no base}
static void put_operand(vj::W& w, const Operand_& op, bool is_a64) {
  w.beginObj();
  if (op.is_reg()) {
    const Reg& r = op.as<Reg>();
    w.kv("t", "r").kv("g", unsigned(r.reg_group())).kv("id", r.id()).kv("sz", (unsigned)r.size()).kv("off", 0).kv("mode", 0).kv("x", false);
  }
  else if (op.is_mem()) {
    const BaseMem& m = op.as<BaseMem>();
    bool simple = m.has_base_reg() && !m.has_index();
    long long d = m.offset();
    if (d > 100000000 || d < -100000000) { simple = false; d = 0; }
    unsigned mode = 0;
    if (is_a64) {
      const a64::Mem& am = op.as<a64::Mem>();
      mode = am.is_pre_index() ? 1u : am.is_post_index() ? 2u : 0u;
    }
    w.kv("t", "m").kv("g", 0).kv("id", m.has_base_reg() ? m.base_id() : 0u).kv("sz", (unsigned)op.signature().size())
     .kv("off", d).kv("mode", mode).kv("x", !simple);
  }
  else if (op.is_imm()) {
    long long v = op.as<Imm>().value();
    bool big = v > 100000000 || v < -100000000;
    w.kv("t", "i").kv("g", 0).kv("id", 0).kv("sz", 0).kv("off", big ? 0 : v).kv("mode", 0).kv("x", big);
  }
  else {
    w.kv("t", "o").kv("g", 0).kv("id", 0).kv("sz", 0).kv("off", 0).kv("mode", 0).kv("x", true);
  }
  w.endObj();
}

template<typename BuilderT>
static unsigned put_insts(vj::W& w, const char* key, BuilderT& b, BaseNode* after, BaseNode* until, const Environment& env, bool& foreign) {
  w.key(key).beginArr();
  unsigned n = 0;
  if (after != until || !after) {
    for (BaseNode* nd = after ? after->next() : b.first_node(); nd; nd = nd->next()) {
      if (nd->is_inst()) {
        InstNode* in_ = nd->as<InstNode>();
        String name;
        InstAPI::inst_id_to_string(env.arch(), in_->inst_id(), InstStringifyOptions::kNone, name);
        w.beginObj().kv("m", name.data());
        w.key("o").beginArr();
        for (const Operand& op : in_->operands()) put_operand(w, op, env.is_family_aarch64());
        w.endArr().endObj();
        n++;
      }
      else if (nd->type() != NodeType::kComment) {
        foreign = true;
      }
      if (nd == until) break;
    }
  }
  w.endArr();
  return n;
}

static void put_cfg_echo(vj::W& w, const vj::Value& in) {
  w.key("cfg").beginObj().kv("env", in["env"].s()).kv("cc", in["cc"].s()).kv("src", in.has("src") ? in["src"].s() : std::string("spec"));
  w.kv("nargs", in.has("nargs") ? in["nargs"].i() : 0LL);
  w.key("cp").beginArr();
  for (unsigned g = 0; g < 4; g++) {
    w.beginArr();
    if (in.has("cp") && g < in["cp"].arr.size()) for (auto& v : in["cp"].arr[g].arr) w.val(v.i());
    w.endArr();
  }
  w.endArr();
  w.key("ops").beginArr();
  for (auto& o : in["ops"].arr) {
    w.beginObj().kv("op", o["op"].s()).kv("a", o.has("a") ? o["a"].i() : 0LL).kv("g", o.has("g") ? o["g"].i() : 0LL);
    w.key("ids").beginArr();
    if (o.has("ids")) for (auto& v : o["ids"].arr) w.val(v.i());
    w.endArr().endObj();
  }
  w.endArr();
  w.endObj();
}

// executes ONE recorded setter call on the real FuncFrame
static bool apply_op(FuncFrame& frame, const vj::Value& o) {
  const std::string& op = o["op"].s();
  uint32_t a = (uint32_t)(o.has("a") ? o["a"].i() : 0);
  RegGroup g = RegGroup(o.has("g") ? o["g"].i() : 0);
  if (op == "set_ls") frame.set_local_stack_size(a);
  else if (op == "update_ls") frame.update_local_stack_size(a);
  else if (op == "set_la") frame.set_local_stack_alignment(a);
  else if (op == "update_la") frame.update_local_stack_alignment(a);
  else if (op == "set_cs") frame.set_call_stack_size(a);
  else if (op == "update_cs") frame.update_call_stack_size(a);
  else if (op == "set_ca") frame.set_call_stack_alignment(a);
  else if (op == "update_ca") frame.update_call_stack_alignment(a);
  else if (op == "add_dirty") frame.add_dirty_regs(g, mask_of(o["ids"]));
  else if (op == "set_dirty") frame.set_dirty_regs(g, mask_of(o["ids"]));
  else if (op == "set_fp") frame.set_preserved_fp();
  else if (op == "reset_fp") frame.reset_preserved_fp();
  else if (op == "set_calls") frame.set_func_calls();
  else if (op == "reset_calls") frame.reset_func_calls();
  else if (op == "set_avx") frame.set_avx_enabled();
  else if (op == "reset_avx") frame.reset_avx_enabled();
  else if (op == "set_avx512") frame.set_avx512_enabled();
  else if (op == "reset_avx512") frame.reset_avx512_enabled();
  else if (op == "set_mmx") frame.set_mmx_cleanup();
  else if (op == "reset_mmx") frame.reset_mmx_cleanup();
  else if (op == "set_avxc") frame.set_avx_cleanup();
  else if (op == "reset_avxc") frame.reset_avx_cleanup();
  else if (op == "set_avxauto") frame.set_avx_auto_cleanup();
  else if (op == "reset_avxauto") frame.reset_avx_auto_cleanup();
  else if (op == "set_ibt") frame.set_indirect_branch_protection();
  else if (op == "reset_ibt") frame.reset_indirect_branch_protection();
  else if (op == "set_sa") frame.set_sa_reg_id(a);
  else if (op == "reset_sa") frame.reset_sa_reg_id();
  else return false;
  return true;
}

static std::vector<std::string> g_extra_body, g_extra_slots;

// logs one observation: `frame` is finalized (or an error is recorded); emits prolog/epilog into a fresh Builder
template<typename BuilderT, typename AssemblerT>
static void log_observation(vj::W& w, const Environment& env, const FuncDetail& fd, bool custom, const FuncFrame& frame,
                            Error e_fd, Error e_fi, Error e_fin, FILE* out);

template<typename BuilderT, typename AssemblerT>
static void run_config(const vj::Value& in, const Environment& env, FILE* out) {
  vj::W w;
  CallConvId ccid;
  if (!conv_from_name(in["cc"].s(), ccid)) { fprintf(stderr, "bad cc\n"); exit(3); }

  w.beginObj();
  put_cfg_echo(w, in);

  FuncSignature sig;
  sig.set_call_conv_id(ccid);
  sig.set_ret(TypeId::kVoid);
  unsigned nargs = (unsigned)(in.has("nargs") ? in["nargs"].i() : 0);
  for (unsigned i = 0; i < nargs && sig.can_add_arg(); i++) sig.add_arg(TypeId::kIntPtr);

  FuncDetail fd;
  Error e_fd = fd.init(sig, env);
  bool custom = false;
  if (e_fd == Error::kOk && in.has("cp")) {
    // a user-defined convention: CallConv is publicly customisable; registers are ADDED to the preserved sets
    for (unsigned g = 1; g < 4 && g < in["cp"].arr.size(); g++) {
      uint32_t m = mask_of(in["cp"].arr[g]);
      if (m) { fd._call_conv.set_preserved_regs(RegGroup(g), fd._call_conv.preserved_regs(RegGroup(g)) | m); custom = true; }
    }
  }
  FuncFrame frame;
  Error e_fi = Error::kOk, e_fin = Error::kOk;
  if (e_fd == Error::kOk) {
    e_fi = frame.init(fd);
    if (e_fi == Error::kOk) {
      for (auto& o : in["ops"].arr) if (!apply_op(frame, o)) { fprintf(stderr, "bad op %s\n", o["op"].s().c_str()); exit(3); }
      e_fin = frame.finalize();
    }
  }
  log_observation<BuilderT, AssemblerT>(w, env, fd, custom, frame, e_fd, e_fi, e_fin, out);
}

template<typename BuilderT, typename AssemblerT>
static void log_observation(vj::W& w, const Environment& env, const FuncDetail& fd, bool custom, const FuncFrame& frame,
                            Error e_fd, Error e_fi, Error e_fin, FILE* out) {
  w.kv("family", env.is_family_x86() ? "x86" : "a64").kv("bits", env.is_32bit() ? 32 : 64);
  CodeHolder code;
  code.init(env);
  BuilderT b(&code);
  Error e_pro = Error::kOk, e_epi = Error::kOk, e_enc = Error::kOk;

  BaseNode* start = b.last_node();
  BaseNode* mid = start;
  bool emitted = false;
  if (e_fd == Error::kOk && e_fi == Error::kOk && e_fin == Error::kOk) {
    e_pro = b.emit_prolog(frame);
    mid = b.last_node();
    e_epi = b.emit_epilog(frame);
    emitted = true;
  }

  const CallConv& cc = fd.call_conv();
  const ArchTraits& at = ArchTraits::by_arch(env.arch());
  unsigned regsize = env.is_32bit() ? 4 : 8;

  // the convention as the code materialised it
  w.key("cc").beginObj().kv("id", conv_name(cc.id())).kv("custom", custom).kv("nat", cc.natural_stack_alignment())
   .kv("red", cc.red_zone_size()).kv("spill", cc.spill_zone_size()).kv("pops", cc.has_flag(CallConvFlags::kCalleePopsStack));
  put_masks(w, "pres", cc.preserved_regs(RegGroup::kGp), cc.preserved_regs(RegGroup::kVec), cc.preserved_regs(RegGroup::kMask), cc.preserved_regs(RegGroup(3)));
  w.key("srsize").beginArr();
  for (unsigned g = 0; g < 4; g++) w.val(cc.save_restore_reg_size(RegGroup(g)));
  w.endArr().endObj();

  // the signature as the code expanded it: offsets of the stack-passed arguments
  w.key("fd").beginObj().kv("argstack", e_fd == Error::kOk ? fd.arg_stack_size() : 0u);
  w.key("stackargs").beginArr();
  if (e_fd == Error::kOk) for (unsigned i = 0; i < fd.arg_count(); i++) {
    const FuncValue& v = fd.arg(i, 0);
    if (v.is_stack()) w.val((long long)v.stack_offset());
  }
  w.endArr();
  w.key("stackargsz").beginArr();      // size of the type of each stack-passed argument
  if (e_fd == Error::kOk) for (unsigned i = 0; i < fd.arg_count(); i++) {
    const FuncValue& v = fd.arg(i, 0);
    if (v.is_stack()) w.val((unsigned)TypeUtils::size_of(v.type_id()));
  }
  w.endArr().endObj();

  // Compiler-derived functions only: the instructions between prolog and epilog and the home slots of the work registers
  w.key("body").beginArr();
  for (size_t i = 0; i < g_extra_body.size(); i++) { w.sep(); w.s += g_extra_body[i]; }
  w.endArr();
  w.key("slots").beginArr();
  for (size_t i = 0; i < g_extra_slots.size(); i++) { w.sep(); w.s += g_extra_slots[i]; }
  w.endArr();

  // the frame record: every accessor, nothing derived
  w.key("fr").beginObj()
   .kv("regsize", regsize).kv("retsize", at.has_link_reg() ? 0u : regsize)
   .kv("sp", at.sp_reg_id()).kv("fpreg", at.fp_reg_id()).kv("lr", at.has_link_reg() ? (long long)at.link_reg_id() : -1LL)
   .kv("sa_reg", frame.sa_reg_id()).kv("has_fp", frame.has_preserved_fp()).kv("has_da", frame.has_dynamic_alignment())
   .kv("nat", frame.natural_stack_alignment()).kv("mindyn", frame.min_dynamic_alignment())
   .kv("red", frame.red_zone_size()).kv("spill", frame.spill_zone_size())
   .kv("call_align", frame.call_stack_alignment()).kv("local_align", frame.local_stack_alignment()).kv("final_align", frame.final_stack_alignment())
   .kv("cleanup", frame.callee_stack_cleanup())
   .kv("call_size", frame.call_stack_size()).kv("local_size", frame.local_stack_size()).kv("final_size", frame.final_stack_size())
   .kv("local_off", frame.local_stack_offset())
   .kv("has_da_off", frame.has_da_offset()).kv("da_off", off_or_m1(frame.da_offset()))
   .kv("sa_sp", off_or_m1(frame.sa_offset_from_sp())).kv("sa_sa", off_or_m1(frame.sa_offset_from_sa()))
   .kv("adj", frame.stack_adjustment())
   .kv("pp_size", frame.push_pop_save_size()).kv("pp_off", frame.push_pop_save_offset())
   .kv("ex_size", frame.extra_reg_save_size()).kv("ex_off", frame.extra_reg_save_offset())
   .kv("avx", frame.is_avx_enabled()).kv("avx512", frame.is_avx512_enabled()).kv("aligned_vec", frame.has_aligned_vec_save_restore())
   .kv("calls", frame.has_func_calls());
  put_masks(w, "dirty", frame.dirty_regs(RegGroup::kGp), frame.dirty_regs(RegGroup::kVec), frame.dirty_regs(RegGroup::kMask), frame.dirty_regs(RegGroup(3)));
  put_masks(w, "pres", frame.preserved_regs(RegGroup::kGp), frame.preserved_regs(RegGroup::kVec), frame.preserved_regs(RegGroup::kMask), frame.preserved_regs(RegGroup(3)));
  put_masks(w, "saved", frame.saved_regs(RegGroup::kGp), frame.saved_regs(RegGroup::kVec), frame.saved_regs(RegGroup::kMask), frame.saved_regs(RegGroup(3)));
  w.key("srsize").beginArr();
  for (unsigned g = 0; g < 4; g++) w.val(frame.save_restore_reg_size(RegGroup(g)));
  w.endArr();
  w.endObj();

  // the instruction lists
  bool foreign = false;
  unsigned np = 0, ne = 0;
  if (emitted) {
    // prolog = nodes (start, mid], epilog = nodes after mid
    if (mid != start) np = put_insts(w, "pro", b, start, mid, env, foreign);
    else w.key("pro").beginArr().endArr();
    if (b.last_node() != mid) ne = put_insts(w, "epi", b, mid, (BaseNode*)nullptr, env, foreign);
    else w.key("epi").beginArr().endArr();
  }
  else {
    w.key("pro").beginArr().endArr();
    w.key("epi").beginArr().endArr();
  }
  w.kv("npro", np).kv("nepi", ne).kv("foreign", foreign);

  // can an Assembler encode every emitted instruction?
  if (e_pro == Error::kOk && e_epi == Error::kOk && (np + ne) > 0) {
    AssemblerT a(&code);
    e_enc = b.serialize_to(&a);
  }
  w.key("err").beginObj().kv("fd", err_name(e_fd)).kv("fi", err_name(e_fi)).kv("fin", err_name(e_fin))
   .kv("pro", err_name(e_pro)).kv("epi", err_name(e_epi)).kv("enc", err_name(e_enc)).endObj();
  w.endObj().emit(out);
}

static void dispatch(const vj::Value& in, FILE* out) {
  Environment env;
  if (!env_from_name(in["env"].s(), env)) { fprintf(stderr, "bad env\n"); exit(3); }
  if (env.is_family_x86()) run_config<x86::Builder, x86::Assembler>(in, env, out);
  else run_config<a64::Builder, a64::Assembler>(in, env, out);
}

// ---------------------------------------------------------------------------------------------------------------------
// random configurations from the wider space (arbitrary masks, sizes 0..65535, alignments 1..64)
// ---------------------------------------------------------------------------------------------------------------------
static std::string ids_json(uint32_t m) {
  std::string s = "[";
  bool first = true;
  for (unsigned i = 0; i < 32; i++) if (m & (1u << i)) { if (!first) s += ","; s += std::to_string(i); first = false; }
  return s + "]";
}

// one setter call as JSON text
static std::string op_json(const char* op, long long a = 0, unsigned g = 0, uint32_t ids = 0) {
  return std::string("{\"op\":\"") + op + "\",\"a\":" + std::to_string(a) + ",\"g\":" + std::to_string(g) + ",\"ids\":" + ids_json(ids) + "}";
}

// A value is installed by a short CHAIN of calls of one setter family (set, update, set+update, update+update, set+set, ...);
// the chains of all families are then merged in a random order (each chain keeps its own order).
static void value_chain(vj::Rng& r, std::vector<std::vector<std::string>>& chains, const char* set_op, const char* upd_op, unsigned v, bool pow2) {
  if (v == 0 && r.chance(2, 3)) return;
  unsigned lo = pow2 ? v / 2 : (v ? (unsigned)r.below(v) : 0), hi = pow2 ? (v && v < 64 ? v * 2 : v) : v + (unsigned)r.below(64);
  std::vector<std::string> c;
  switch (r.below(7)) {
    case 0: c = {op_json(set_op, v)}; break;
    case 1: c = {op_json(upd_op, v)}; break;
    case 2: c = {op_json(set_op, lo), op_json(upd_op, v)}; break;
    case 3: c = {op_json(set_op, v), op_json(upd_op, lo)}; break;
    case 4: c = {op_json(upd_op, hi), op_json(set_op, v)}; break;
    case 5: c = {op_json(upd_op, lo), op_json(upd_op, v), op_json(upd_op, lo)}; break;
    default: c = {op_json(set_op, hi), op_json(set_op, v)}; break;
  }
  chains.push_back(c);
}

static std::string random_config(vj::Rng& r) {
  static const char* envs[] = {"x64-sysv", "x64-win", "x86-sysv", "x86-win", "a64-aapcs", "a64-apple"};
  static const char* ccs86[] = {"cdecl", "stdcall", "fastcall", "vectorcall", "thiscall", "regparm1", "regparm2", "regparm3", "lightcall2", "lightcall3", "lightcall4"};
  static const char* ccs64[] = {"cdecl", "x64sysv", "x64win", "vectorcall", "lightcall2", "lightcall3", "lightcall4", "stdcall", "fastcall"};
  static const char* ccsa64[] = {"cdecl", "cdecl", "cdecl", "lightcall2", "lightcall3", "lightcall4"};
  unsigned e = (unsigned)r.below(6);
  bool is86 = e == 2 || e == 3, isa = e >= 4;
  const char* cc = is86 ? ccs86[r.below(11)] : isa ? ccsa64[r.below(6)] : ccs64[r.below(9)];
  unsigned nregs_gp = is86 ? 8 : isa ? 31 : 16;
  unsigned nregs_vec = is86 ? 8 : 32;
  auto rmask = [&](unsigned n) -> uint32_t {
    unsigned k = (unsigned)r.below(5);
    uint32_t all = n >= 32 ? 0xFFFFFFFFu : ((1u << n) - 1);
    uint32_t m = k == 0 ? 0 : k == 1 ? (uint32_t)r.next() : k == 2 ? (uint32_t)(r.next() & r.next()) : k == 3 ? 0xFFFFFFFFu : (1u << r.below(n));
    return m & all;
  };
  uint32_t spbit = 1u << (isa ? 31 : 4);       // the stack pointer is never a body-clobbered register
  uint32_t dgp = rmask(nregs_gp) & ~spbit, dvec = rmask(nregs_vec), dk = isa ? 0 : (r.chance(1, 3) ? rmask(8) : 0), dmm = isa ? 0 : (r.chance(1, 4) ? rmask(8) : 0);
  static const unsigned sizes[] = {0, 0, 1, 4, 8, 12, 16, 24, 40, 100, 128, 136, 1000, 4088, 4096, 4104, 32768, 65528, 65535};
  unsigned ls = r.chance(1, 3) ? (unsigned)r.below(65536) : sizes[r.below(19)];
  unsigned cs = r.chance(1, 2) ? 0 : r.chance(1, 2) ? (unsigned)r.below(512) : sizes[r.below(13)];
  static const unsigned aligns[] = {0, 0, 1, 2, 4, 8, 16, 32, 64};
  unsigned la = aligns[r.below(9)], ca = aligns[r.below(9)];
  unsigned fp = (unsigned)r.below(2), avx = isa ? 0 : (unsigned)r.below(3), mmx = isa ? 0 : (unsigned)r.chance(1, 5), avxc = isa ? 0 : (unsigned)r.below(3);
  unsigned nargs = r.chance(1, 2) ? 0 : (unsigned)r.below(14);
  unsigned sa = 255;
  if (!isa && r.chance(1, 4)) {
    static const unsigned cand86[] = {0, 1, 2, 3, 6, 7};
    static const unsigned cand64[] = {0, 1, 2, 3, 6, 7, 8, 10, 11, 12, 15};
    sa = is86 ? cand86[r.below(6)] : cand64[r.below(11)];
  }
  if (fp && r.chance(1, 2)) sa = isa ? 29u : 5u;   // what FuncArgsAssignment::update_func_frame() picks with a preserved FP
  unsigned calls = cs ? 1 : (unsigned)r.chance(1, 3);
  unsigned ibt = (unsigned)r.chance(1, 8);
  uint32_t cpv = 0, cpk = 0, cpm = 0;
  if (!isa && r.chance(1, 6)) { cpv = rmask(nregs_vec); cpk = r.chance(1, 2) ? rmask(8) : 0; cpm = r.chance(1, 3) ? rmask(8) : 0; }

  std::vector<std::vector<std::string>> chains;
  value_chain(r, chains, "set_ls", "update_ls", ls, false);
  value_chain(r, chains, "set_la", "update_la", la, true);
  value_chain(r, chains, "set_cs", "update_cs", cs, false);
  value_chain(r, chains, "set_ca", "update_ca", ca, true);
  // dirty registers: added in one or two portions, sometimes after a set_dirty_regs() that is overwritten/extended
  auto dirty_chain = [&](unsigned g, uint32_t m, uint32_t forbid) {
    if (!m && r.chance(1, 2)) return;
    std::vector<std::string> c;
    uint32_t part = m & (uint32_t)r.next();
    switch (r.below(4)) {
      case 0: c = {op_json("add_dirty", 0, g, m)}; break;
      case 1: c = {op_json("add_dirty", 0, g, part), op_json("add_dirty", 0, g, m & ~part)}; break;
      case 2: c = {op_json("set_dirty", 0, g, (uint32_t)r.next() & 0xFFu & ~forbid), op_json("set_dirty", 0, g, part), op_json("add_dirty", 0, g, m)}; break;
      default: c = {op_json("set_dirty", 0, g, m)}; break;
    }
    chains.push_back(c);
  };
  dirty_chain(0, dgp, spbit); dirty_chain(1, dvec, 0);
  if (dk) dirty_chain(2, dk, 0);
  if (dmm) dirty_chain(3, dmm, 0);
  auto flag_chain = [&](const char* set_op, const char* reset_op, bool on) {
    std::vector<std::string> c;
    switch (r.below(3)) {
      case 0: if (on) c = {op_json(set_op)}; else if (r.chance(1, 3)) c = {op_json(reset_op)}; break;
      case 1: c = on ? std::vector<std::string>{op_json(reset_op), op_json(set_op)} : std::vector<std::string>{op_json(set_op), op_json(reset_op)}; break;
      default: if (on) c = {op_json(set_op), op_json(set_op)}; break;
    }
    if (!c.empty()) chains.push_back(c);
  };
  flag_chain("set_fp", "reset_fp", fp);
  flag_chain("set_calls", "reset_calls", calls);
  if (!isa) {
    flag_chain("set_avx", "reset_avx", avx >= 1);
    flag_chain("set_avx512", "reset_avx512", avx >= 2);
    flag_chain("set_mmx", "reset_mmx", mmx);
    flag_chain("set_avxc", "reset_avxc", avxc == 1);
    flag_chain("set_avxauto", "reset_avxauto", avxc == 2);
  }
  flag_chain("set_ibt", "reset_ibt", ibt);
  if (sa != 255) chains.push_back({op_json("set_sa", sa)});
  else if (r.chance(1, 8)) chains.push_back({op_json("set_sa", 3), op_json("reset_sa")});

  // random merge of the chains
  std::string ops;
  size_t left = 0;
  std::vector<size_t> pos(chains.size(), 0);
  for (auto& c : chains) left += c.size();
  while (left) {
    size_t k = r.below(chains.size());
    if (pos[k] >= chains[k].size()) continue;
    if (!ops.empty()) ops += ",";
    ops += chains[k][pos[k]++];
    left--;
  }
  std::string s = "{\"env\":\"" + std::string(envs[e]) + "\",\"cc\":\"" + cc + "\",\"src\":\"random\",\"nargs\":" + std::to_string(nargs);
  s += ",\"cp\":[[]," + ids_json(cpv) + "," + ids_json(cpk) + "," + ids_json(cpm) + "],\"ops\":[" + ops + "]}";
  return s;
}

// ---------------------------------------------------------------------------------------------------------------------
// frames derived by the Compiler: a function with one invoke node; BaseRAPass::update_stack_frame() fills the frame in
// ITS order (call stack size/alignment first while the CFG is built, set_local_stack_alignment/size afterwards) and
// finalizes it.  The observation's "ops" are the frame's own per-field accessors after the pass (what the pass declared),
// the prolog/epilog are emitted from that very frame.
// ---------------------------------------------------------------------------------------------------------------------
static void compiler_case(FILE* out, const char* env_name, CallConvId callee_cc, const char* callee_name, TypeId vec_arg, unsigned nkeep, bool fp) {
  Environment env;
  env_from_name(env_name, env);
  CodeHolder code;
  code.init(env);
  x86::Compiler cc(&code);
  FuncNode* fn = cc.add_func(FuncSignature::build<void, void*>(CallConvId::kCDecl));
  fn->frame().set_avx_enabled();
  if (TypeUtils::size_of(vec_arg) > 32) fn->frame().set_avx512_enabled();
  if (fp) fn->frame().set_preserved_fp();
  x86::Gp p = cc.new_gp_ptr("p");
  fn->set_arg(0, p);
  unsigned vsize = TypeUtils::size_of(vec_arg);
  x86::Vec v = vsize > 32 ? cc.new_zmm("v") : vsize > 16 ? cc.new_ymm("v") : cc.new_xmm("v");
  if (vsize) cc.vmovups(v, x86::ptr(p));
  std::vector<x86::Gp> keep;
  for (unsigned i = 0; i < nkeep; i++) { keep.push_back(cc.new_gp_ptr("k")); cc.mov(keep.back(), x86::ptr(p, int32_t(8 * i))); }
  FuncSignature csig(callee_cc);
  csig.set_ret(TypeId::kVoid);
  if (vsize) csig.add_arg(vec_arg);
  InvokeNode* inv = nullptr;
  Error e_inv = cc.invoke(Out(inv), imm(0x12345678), csig);
  if (e_inv == Error::kOk && vsize) inv->set_arg(0, v);
  for (unsigned i = 0; i < nkeep; i++) cc.add(x86::ptr(p, int32_t(8 * i)), keep[i]);   // live across the call
  cc.end_func();
  Error e_fin = cc.finalize();
  const FuncFrame& fr = fn->frame();

  vj::W w;
  w.beginObj();
  w.key("cfg").beginObj().kv("env", env_name).kv("cc", "cdecl").kv("src", "compiler").kv("nargs", 1);
  w.key("callee").beginObj().kv("cc", callee_name).kv("vec_arg_size", vsize).kv("keep", nkeep).endObj();
  w.key("cp").beginArr().beginArr().endArr().beginArr().endArr().beginArr().endArr().beginArr().endArr().endArr();
  // what the register allocator declared, field by field
  w.key("ops").beginArr();
  auto op = [&](const char* name, long long a) { w.beginObj().kv("op", name).kv("a", a).kv("g", 0).key("ids").beginArr().endArr().endObj(); };
  op("update_cs", fr.call_stack_size());
  op("update_ca", fr.call_stack_alignment());
  for (unsigned g = 0; g < 4; g++) {
    w.beginObj().kv("op", "add_dirty").kv("a", 0).kv("g", g).key("ids");
    put_ids(w, fr.dirty_regs(RegGroup(g)));
    w.endObj();
  }
  op("set_la", fr.local_stack_alignment());
  op("set_ls", fr.local_stack_size());
  if (fr.has_preserved_fp()) op("set_fp", 0);
  if (fr.has_func_calls()) op("set_calls", 0);
  w.endArr().endObj();
  log_observation<x86::Builder, x86::Assembler>(w, env, fn->detail(), false, fr, e_inv, Error::kOk, e_fin, out);
}

// ---------------------------------------------------------------------------------------------------------------------
// Compiler-derived functions with MANY stack-passed arguments, each bound to a virtual register of the same or of a wider
// type, all live from entry to the end (so the allocator has to spill them / keep them in their incoming slots).  Read back
// from the finalized function: the frame, the home slot of every work register (base register, offset, size, flags, the
// argument it is bound to) - snapshot taken in on_done() of a pass subclass - and the whole instruction list.
// ---------------------------------------------------------------------------------------------------------------------
struct SlotSnapPass : public x86::X86RAPass {
  explicit SlotSnapPass(BaseCompiler& cc) noexcept : x86::X86RAPass(cc) {}
  void on_done() noexcept override {
    const FuncDetail& fd = _func->detail();
    for (size_t i = 0; i < _work_regs.size(); i++) {
      RAWorkReg* r = _work_regs[i];
      RAStackSlot* sl = r->stack_slot();
      if (!sl) continue;
      long long arg = -1, argoff = -1, argsz = 0;
      if (r->has_arg_index()) {
        const FuncValue& v = fd.arg(r->arg_index(), r->arg_value_index());
        arg = (long long)r->arg_index();
        if (v.is_stack()) { argoff = v.stack_offset(); argsz = TypeUtils::size_of(v.type_id()); }
      }
      vj::W w;
      w.beginObj().kv("wr", (unsigned)i).kv("g", unsigned(r->group())).kv("base", sl->base_reg_id()).kv("off", (long long)sl->offset())
       .kv("size", sl->size()).kv("align", sl->alignment()).kv("stackarg", sl->is_stack_arg()).kv("reghome", sl->is_reg_home())
       .kv("used", r->is_stack_used()).kv("arg", arg).kv("argoff", argoff).kv("argsz", argsz).endObj();
      g_extra_slots.push_back(w.s);
    }
    x86::X86RAPass::on_done();
  }
};

template<typename PassT>
static void install_pass(BaseCompiler& cc) {
  for (size_t i = 0; i < cc._passes.size(); i++) {
    Pass* old = cc._passes[i];
    if (strcmp(old->name(), "RAPass") == 0) {
      old->~Pass();
      cc._passes[i] = cc._builder_arena.new_oneshot<PassT>(cc);
    }
  }
}

// arg kinds: 'i' int32, 'q' int64, 'f' float, 'd' double.  bind: 0 = same type, 1 = wider (gp32->gp64, int->xmm, float->xmm, double->ymm)
static void argspill_case(FILE* out, const char* env_name, const std::string& kinds, unsigned bind, bool with_call, bool fp, bool touch) {
  Environment env;
  env_from_name(env_name, env);
  CodeHolder code;
  code.init(env);
  x86::Compiler cc(&code);
  install_pass<SlotSnapPass>(cc);
  g_extra_body.clear(); g_extra_slots.clear();

  FuncSignature sig(CallConvId::kCDecl);
  sig.set_ret(TypeId::kInt32);
  for (char k : kinds) sig.add_arg(k == 'i' ? TypeId::kInt32 : k == 'q' ? TypeId::kInt64 : k == 'f' ? TypeId::kFloat32 : TypeId::kFloat64);
  FuncNode* fn = cc.add_func(sig);
  fn->frame().set_avx_enabled();
  if (fp) fn->frame().set_preserved_fp();
  bool is32 = env.is_32bit();

  std::vector<Reg> regs;
  for (size_t i = 0; i < kinds.size(); i++) {
    char k = kinds[i];
    unsigned w = bind == 0 ? 0 : bind == 1 ? 1 : (unsigned)(i % 3);     // bind 2: mixed (same / wider / widest)
    if (!fn->detail().arg(i).is_stack()) w = 0;                          // only stack-passed arguments are bound to wider registers
    Reg v;
    if (k == 'i') v = w == 0 ? Reg(cc.new_gp32("a")) : (w == 1 && !is32) ? Reg(cc.new_gp64("a")) : Reg(cc.new_xmm("a"));
    else if (k == 'q') v = (w == 0 || is32) ? Reg(cc.new_gp64("a")) : Reg(cc.new_xmm("a"));
    else if (k == 'f') v = w == 0 ? Reg(cc.new_xmm_ss("a")) : w == 1 ? Reg(cc.new_xmm("a")) : Reg(cc.new_ymm("a"));
    else v = w == 0 ? Reg(cc.new_xmm_sd("a")) : w == 1 ? Reg(cc.new_ymm("a")) : Reg(cc.new_xmm("a"));
    if (is32 && k == 'q') { regs.push_back(Reg()); continue; }            // 64-bit integers need register pairs on x86-32: left unbound
    fn->set_arg(i, v);
    regs.push_back(v);
  }
  x86::Gp acc = cc.new_gp32("acc");
  x86::Vec accv = cc.new_ymm("accv");
  cc.xor_(acc, acc);
  cc.vpxor(accv, accv, accv);
  // `touch`: every argument register is MODIFIED first, so that a spill has to WRITE its home slot
  if (touch) for (size_t i = 0; i < regs.size(); i++) {
    const Reg& v = regs[i];
    if (v.is_none()) continue;
    if (v.is_gp()) { x86::Gp g = v.as<x86::Gp>(); cc.add(g.r32(), 1); }
    else { x86::Vec x = v.as<x86::Vec>(); cc.vpaddd(x.xmm(), x.xmm(), x.xmm()); }
  }
  if (with_call) {
    InvokeNode* inv = nullptr;
    FuncSignature csig(CallConvId::kCDecl);
    csig.set_ret(TypeId::kVoid);
    cc.invoke(Out(inv), imm(0x1234), csig);
  }
  // every argument is used only here, at the very end
  for (size_t i = 0; i < regs.size(); i++) {
    const Reg& v = regs[i];
    if (v.is_none()) continue;
    if (v.is_gp()) {
      x86::Gp g = v.as<x86::Gp>();
      cc.add(acc, g.r32());
    }
    else {
      x86::Vec x = v.as<x86::Vec>();
      cc.vpaddd(accv, accv, x.ymm());
    }
  }
  x86::Gp t = cc.new_gp32("t");
  cc.vmovd(t, accv.xmm());
  cc.add(acc, t);
  cc.ret(acc);
  cc.end_func();
  Error e_fin = cc.finalize();
  const FuncFrame& fr = fn->frame();
  if (e_fin != Error::kOk && !getenv("C07_DEBUG")) { g_extra_body.clear(); g_extra_slots.clear(); return; }   // the Compiler refused the function (register pressure at entry): not a frame
  if (getenv("C07_DEBUG") && e_fin != Error::kOk) fprintf(stderr, "%s %s bind=%u call=%d fp=%d touch=%d: %s\n", env_name, kinds.c_str(), bind, with_call, fp, touch, DebugUtils::error_as_string(e_fin));

  // the finalized function's instruction list
  bool foreign = false;
  std::vector<std::string> all;
  for (BaseNode* nd = fn; nd; nd = nd->next()) {
    if (nd->is_inst()) {
      InstNode* in_ = nd->as<InstNode>();
      String name;
      InstAPI::inst_id_to_string(env.arch(), in_->inst_id(), InstStringifyOptions::kNone, name);
      vj::W w;
      w.beginObj().kv("m", name.data());
      w.key("o").beginArr();
      for (const Operand& op : in_->operands()) put_operand(w, op, false);
      w.endArr().endObj();
      all.push_back(w.s);
    }
  }
  // prolog / epilog lengths as emit_prolog/emit_epilog produce them for this very frame
  size_t np = 0, ne = 0;
  if (e_fin == Error::kOk) {
    CodeHolder c2; c2.init(env);
    x86::Builder b2(&c2);
    b2.emit_prolog(fr);
    for (BaseNode* nd = b2.first_node(); nd; nd = nd->next()) if (nd->is_inst()) np++;
    size_t n0 = np;
    b2.emit_epilog(fr);
    for (BaseNode* nd = b2.first_node(); nd; nd = nd->next()) if (nd->is_inst()) ne++;
    ne -= n0;
  }
  if (all.size() >= np + ne) g_extra_body.assign(all.begin() + np, all.end() - ne);

  vj::W w;
  w.beginObj();
  w.key("cfg").beginObj().kv("env", env_name).kv("cc", "cdecl").kv("src", "compiler").kv("nargs", (unsigned)kinds.size());
  w.key("callee").beginObj().kv("cc", "argspill").kv("kinds", kinds).kv("bind", bind).kv("call", with_call).kv("fp", fp).kv("touch", touch)
   .kv("ninst", (unsigned)all.size()).endObj();
  w.key("cp").beginArr().beginArr().endArr().beginArr().endArr().beginArr().endArr().beginArr().endArr().endArr();
  w.key("ops").beginArr();
  auto op = [&](const char* name, long long a) { w.beginObj().kv("op", name).kv("a", a).kv("g", 0).key("ids").beginArr().endArr().endObj(); };
  op("update_cs", fr.call_stack_size());
  op("update_ca", fr.call_stack_alignment());
  for (unsigned g = 0; g < 4; g++) {
    w.beginObj().kv("op", "add_dirty").kv("a", 0).kv("g", g).key("ids");
    put_ids(w, fr.dirty_regs(RegGroup(g)));
    w.endObj();
  }
  op("set_la", fr.local_stack_alignment());
  op("set_ls", fr.local_stack_size());
  if (fr.has_preserved_fp()) op("set_fp", 0);
  if (fr.has_func_calls()) op("set_calls", 0);
  w.endArr().endObj();
  log_observation<x86::Builder, x86::Assembler>(w, env, fn->detail(), false, fr, Error::kOk, Error::kOk, e_fin, out);
  g_extra_body.clear(); g_extra_slots.clear();
}

static void argspill_cases(FILE* out) {
  static const char* kinds[] = {
    "iiiiiiiiiiiiiiiiiiiiiiii",      // 24 ints
    "iiiiiiiiiiii",                  // 12 ints
    "ffffffffffffffffffffffff",      // 24 floats
    "dddddddddddddddddddd",          // 20 doubles
    "ffffffffffff",                  // 12 floats
    "dddddddddd",                    // 10 doubles
    "fdfdfdfdfdfdfd",                // 14 floats/doubles
    "ififdqifdqifdqifdqifdq",        // mixed
    "qqqqqqqqqqqqqqqq",              // 16 int64
    "iiiiiiii",                      // 8 ints
  };
  for (const char* env : {"x64-sysv", "x64-win", "x86-sysv"})
    for (const char* k : kinds) {
      if (strchr(k, 'q') && !strcmp(env, "x86-sysv")) continue;          // 64-bit integer arguments need register pairs on x86-32
      for (unsigned bind : {0u, 1u, 2u})
        for (bool call : {false, true})
          for (bool fp : {false, true})
            for (bool touch : {false, true})
              argspill_case(out, env, k, bind, call, fp, touch);
    }
}

static void compiler_cases(FILE* out) {
  struct Callee { CallConvId cc; const char* name; TypeId arg; };
  static const Callee callees[] = {
    {CallConvId::kX64Windows, "x64win", TypeId::kFloat32x8},    // __m256 by value: passed by pointer to a 32-byte aligned copy in the call area
    {CallConvId::kX64Windows, "x64win", TypeId::kFloat32x16},   // __m512: 64-byte aligned copy
    {CallConvId::kX64Windows, "x64win", TypeId::kFloat32x4},
    {CallConvId::kVectorCall, "vectorcall", TypeId::kFloat32x8},
    {CallConvId::kX64SystemV, "x64sysv", TypeId::kFloat32x8},
    {CallConvId::kX64SystemV, "x64sysv", TypeId::kVoid},
  };
  for (const char* env : {"x64-sysv", "x64-win"})
    for (const Callee& c : callees)
      for (unsigned keep : {0u, 3u, 14u})
        for (bool fp : {false, true})
          compiler_case(out, env, c.cc, c.name, c.arg, keep, fp);
}

int main(int argc, char** argv) {
  if (argc < 3) { fprintf(stderr, "usage: frame script <configs.ndjson> <out.ndjson> | frame random <out.ndjson> <count> | frame compiler <out.ndjson>\n"); return 3; }
  std::string mode = argv[1];
  if (mode == "compiler") {
    FILE* out = fopen(argv[2], "w");
    if (!out) return 3;
    vj::install_abort_handlers(out);
    compiler_cases(out);
    argspill_cases(out);
    fclose(out);
    return 0;
  }
  if (argc < 4) return 3;
  if (mode == "script") {
    auto cfgs = vj::read_ndjson(argv[2]);
    FILE* out = fopen(argv[3], "w");
    if (!out) return 3;
    vj::install_abort_handlers(out);
    for (auto& c : cfgs) dispatch(c, out);
    fclose(out);
    return 0;
  }
  if (mode == "random") {
    FILE* out = fopen(argv[2], "w");
    if (!out) return 3;
    vj::install_abort_handlers(out);
    unsigned n = (unsigned)atoi(argv[3]);
    vj::Rng r(vj::env_seed());
    for (unsigned i = 0; i < n; i++) {
      vj::Value c = vj::parse(random_config(r));
      dispatch(c, out);
    }
    fclose(out);
    return 0;
  }
  return 3;
}
